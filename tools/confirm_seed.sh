#!/bin/sh
# usage: tools/confirm_seed.sh <dir with patch.diff demo.py meta.json> <tag>
# confirms in a scratch worktree of /repo HEAD: demo PASS pristine, demo FAIL patched, test suite passes patched.
D="$1"; TAG="$2"; WT=/tmp/cs/wt_$TAG
mkdir -p /tmp/cs
git -C /repo worktree add -q --detach "$WT" HEAD || { echo "$TAG WORKTREE-FAIL"; exit 1; }
cd "$WT" || exit 1
cp "$D/demo.py" "$WT/demo_seed.py"
R1=$(timeout 300 /venv/bin/python demo_seed.py 2>&1 | tail -1 | cut -c1-80); RC1=$?
timeout 300 /venv/bin/python demo_seed.py >/dev/null 2>&1; RC1=$?
if ! git apply "$D/patch.diff" 2>/dev/null; then
  echo "$TAG APPLY-FAIL pristine_rc=$RC1"
  cd /; git -C /repo worktree remove --force "$WT"; exit 0
fi
timeout 300 /venv/bin/python demo_seed.py >/dev/null 2>&1; RC2=$?
T=$(timeout 900 /venv/bin/python -m pytest -q -p no:cacheprovider --timeout=900 -n 4 2>&1 | grep -E "passed|failed" | tail -1)
echo "$TAG pristine_rc=$RC1 patched_rc=$RC2 tests: $T"
cd /; git -C /repo worktree remove --force "$WT"
