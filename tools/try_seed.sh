#!/bin/sh
# usage: tools/try_seed.sh <patch.diff> <tag> [prop...]  : apply to a scratch copy of /repo/py7zr (never /repo), run quick checks (default all 20) with --repo
P="$1"; TAG="$2"; shift 2
T=$(mktemp -d /tmp/verif_try_XXXXXX)
cp -r /repo/py7zr "$T/py7zr"
( cd "$T" && patch -s -p1 < "$P" ) || { echo "$TAG PATCH-FAIL"; rm -rf "$T"; exit 3; }
[ $# -eq 0 ] && set -- C01 C02 C03 C04 C05 C06 C07 C08 C09 C10 C11 C12 C13 C14 C15 C16 C17 C18 C19 C20
for pr in "$@"; do
  /verif/check "$pr" --repo "$T" 2>&1 | grep -E "^py7zr/|^ANALYSIS-ERROR" | cut -c1-260 | sed "s/^/$TAG $pr: /" | head -4
done
echo "$TAG done"
rm -rf "$T"
