#!/bin/sh
# usage: tools/try_patch.sh <patch.diff> <prop> [prop...]  : apply to /repo, run quick checks, revert
P="$1"; shift
git -C /repo apply "$P" || { echo "PATCH-DOES-NOT-APPLY $P"; exit 3; }
for prop in "$@"; do
  /verif/check "$prop" 2>&1 | grep -E "^\[|VIOLATION|ANALYSIS-ERROR|^py7zr/" | head -8
done
git -C /repo checkout -- .
