#!/usr/bin/env python3
"""usage: tools/mut.py <file under py7zr/> <old text> <new text> <prop> [prop...]
applies ONE textual edit to a scratch copy of /repo/py7zr (never to /repo) and runs the given quick checks against the copy"""
import os, shutil, subprocess, sys, tempfile
rel, old, new, props = sys.argv[1], sys.argv[2], sys.argv[3], sys.argv[4:]
tmp = tempfile.mkdtemp(prefix="verif_mut1_")
try:
    shutil.copytree("/repo/py7zr", os.path.join(tmp, "py7zr"))
    p = os.path.join(tmp, "py7zr", rel)
    s = open(p).read()
    if s.count(old) != 1:
        print(f"anchor occurs {s.count(old)} times"); sys.exit(3)
    open(p, "w").write(s.replace(old, new))
    compile(open(p).read(), p, "exec")
    for pr in props:
        r = subprocess.run(["/verif/check", pr, "--repo", tmp], capture_output=True, text=True)
        lines = [l[:230] for l in r.stdout.splitlines() if l.startswith(("py7zr/", "VIOLATION", "ANALYSIS-ERROR"))]
        print(pr, "rc=%d" % r.returncode, *(lines[:3] or ["silent"]), sep="\n   ")
finally:
    shutil.rmtree(tmp, ignore_errors=True)
