#!/bin/sh
# usage: tools/record_fix.sh <Fnn> <props,comma> <rule> "<what failed>" [demo.py]
# after the fix commit is HEAD of /repo: writes seeded/revert-<F>/, the fixed: line, copies the demo to repro/demos/<F>.py
F="$1"; PROPS="$2"; RULE="$3"; WHAT="$4"; DEMO="$5"
# COMMIT=<hash> selects an older fix commit (default HEAD)
H=$(git -C /repo log --format=%h -1 ${COMMIT:-HEAD})
mkdir -p /verif/seeded/revert-$F
git -C /repo diff $H $H~1 > /verif/seeded/revert-$F/patch.diff
[ -n "$DEMO" ] && cp "$DEMO" /verif/repro/demos/$F.py
FIRST=$(echo "$PROPS" | cut -d, -f1)
python3 - "$F" "$PROPS" "$RULE" "$WHAT" "$H" "$FIRST" <<'PY'
import json, sys
F, props, rule, what, h, first = sys.argv[1:7]
meta = {"property": first, "kind": "revert-of-fix", "fix_commit": h, "finding": F, "summary": "reverts the fix of " + F + ": " + what,
        "needs": f"see repro/repro.py {F}", "check_properties": props.split(","), "caught_by": rule, "ran": [f"repro/repro.py {F}: DEFECT before, OK after"]}
json.dump(meta, open(f"/verif/seeded/revert-{F}/meta.json", "w"), indent=1)
p = "/verif/known_findings.json"
d = json.load(open(p))
d["fixed"].append(f"fixed: property={props} {h} {F} {what}")
json.dump(d, open(p, "w"), indent=1)
PY
cd /repo && /venv/bin/python /verif/repro/repro.py $F 2>&1 | grep -v conda
git -C /repo apply /verif/seeded/revert-$F/patch.diff && (cd /repo && /venv/bin/python /verif/repro/repro.py $F 2>&1 | grep -v conda); git -C /repo checkout -- .
rm -rf /tmp/repro_*
