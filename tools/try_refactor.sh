#!/bin/sh
# usage: tools/try_refactor.sh <patch.diff> : apply to /repo, run ALL quick checks, print anything that is not a clean pass, revert
P="$1"
git -C /repo apply "$P" || { echo "PATCH-DOES-NOT-APPLY $P"; exit 3; }
for prop in C01 C02 C03 C04 C05 C06 C07 C08 C09 C10 C11 C12 C13 C14 C15 C16 C17 C18 C19 C20; do
  /verif/check "$prop" > /tmp/tr_$$.txt 2>&1; rc=$?
  if [ $rc -ne 0 ]; then echo "  $prop rc=$rc"; grep -E "^py7zr/|ANALYSIS-ERROR" /tmp/tr_$$.txt | cut -c1-230 | head -4; fi
done
rm -f /tmp/tr_$$.txt
git -C /repo checkout -- .
