"""Reproductions of the genuine defects found by the static checks (run with cwd=<repo> so that its py7zr is imported).
usage: python repro.py F2 [F3 ...] | all      prints `<id> DEFECT <what>` or `<id> OK`.
These are NOT part of any check (the checks are static); they document the failing input of each finding."""
import io, os, struct, sys, tempfile, zlib, threading, pathlib, shutil, subprocess

import py7zr
import py7zr.properties
from py7zr import archiveinfo as ai
from py7zr.properties import PROPERTY

R = {}
def case(f):
    R[f.__name__] = f
    return f

def tmp():
    return tempfile.mkdtemp(prefix="repro_")

def seal(header_bytes, packed=b""):
    """build an archive: signature header + packed data + raw header, all CRCs valid."""
    hcrc = zlib.crc32(header_bytes) & 0xFFFFFFFF
    start = struct.pack("<QQL", len(packed), len(header_bytes), hcrc)
    sh = b"7z\xbc\xaf\x27\x1c" + b"\x00\x04" + struct.pack("<L", zlib.crc32(start) & 0xFFFFFFFF) + start
    return sh + packed + header_bytes

def num(v):
    b = io.BytesIO(); ai.write_uint64(b, v); return b.getvalue()

def run_with_timeout(fn, secs=8):
    res = {}
    def t():
        try:
            res["v"] = fn()
        except BaseException as e:
            res["e"] = e
    th = threading.Thread(target=t, daemon=True); th.start(); th.join(secs)
    if th.is_alive():
        return "TIMEOUT", None
    return ("EXC", res["e"]) if "e" in res else ("RET", res.get("v"))

def mk(path, members, **kw):
    with py7zr.SevenZipFile(path, "w", **kw) as z:
        for n, d in members:
            z.writestr(d, n)

@case
def F2():
    from py7zr.cli import Cli
    c = Cli()
    try:
        v = c._volumesize_unitconv("1000")
        return None if v == 1000 else f"-v 1000 converts to {v}"
    except KeyError as e:
        return f"`-v 1000` passes validation then raises KeyError({e})"

@case
def F3():
    # folder-level CRC mismatch -> testzip returns None
    d = tmp(); p = os.path.join(d, "a.7z")
    mk(p, [("a.txt", b"A" * 100)], filters=[{"id": py7zr.FILTER_COPY}])
    z = py7zr.SevenZipFile(p)
    f = z.header.main_streams.unpackinfo.folders[0]
    f.crc = 12345; f.digestdefined = True
    z.files.files_list[0].pop("digest", None)   # only the folder CRC is defined (legal layout)
    r = z.testzip()
    return "folder-level CRC mismatch: testzip() returns None (= no damage)" if r is None else None

@case
def F4():
    d = tmp(); p = os.path.join(d, "a.7z")
    mk(p, [("a.txt", b"A" * 100)], filters=[{"id": py7zr.FILTER_DELTA}, {"id": py7zr.FILTER_LZMA2, "preset": 1}])
    with py7zr.SevenZipFile(p) as z:
        names = z.archiveinfo().method_names
    return None if any(n.lower() == "delta" for n in names) else f"method_names {names} omits the Delta filter"

@case
def F5():
    fi = ai.FilesInfo()
    fi.files = [{"emptystream": False, "filename": f"f{i}", "lastwritetime": (None if i == 0 else 116444736000000000 + i), "attributes": 0x20} for i in range(9)]
    b = io.BytesIO(); fi.write(b); b.seek(1)
    try:
        g = ai.FilesInfo.retrieve(b)
        ok = [f.get("filename") for f in g.files] == [f"f{i}" for i in range(9)] and g.files[3].get("lastwritetime") == 116444736000000003
        return None if ok else "FilesInfo with a partially defined time vector does not re-read correctly"
    except Exception as e:
        return f"FilesInfo with a partially defined time vector (N=9, n=8) cannot be re-read: {type(e).__name__}: {e}"

@case
def F6():
    # UnpackInfo with 2 folders, CRC defined only for the first: format says only defined CRCs are stored
    b = io.BytesIO()
    b.write(PROPERTY.FOLDER); b.write(num(2)); b.write(b"\x00")
    for _ in range(2):
        b.write(num(1)); b.write(b"\x01\x00")       # one coder, id size 1, COPY
    b.write(PROPERTY.CODERS_UNPACK_SIZE); b.write(num(5)); b.write(num(7))
    b.write(PROPERTY.CRC); b.write(b"\x00\x80"); b.write(struct.pack("<L", 0xDEADBEEF))   # bitmap 10, one CRC
    b.write(PROPERTY.END); b.seek(0)
    try:
        u = ai.UnpackInfo.retrieve(b)
        ok = u.folders[0].crc == 0xDEADBEEF and u.folders[0].digestdefined and not u.folders[1].digestdefined
        return None if ok else "partially defined folder CRC vector mis-read"
    except Exception as e:
        return f"format-conformant partially defined folder-CRC vector is rejected: {type(e).__name__}: {e}"

@case
def F8():
    d = tmp(); p = os.path.join(d, "a.7z")
    mk(p, [("a.txt", b"A" * 1000)], filters=[{"id": py7zr.FILTER_COPY}])
    z = py7zr.SevenZipFile(p)
    z.files.files_list[0]["uncompressed"] = 5000     # declared size larger than the data
    z.header.main_streams.unpackinfo.folders[0].unpacksizes = [5000]
    from py7zr.io import NullIOFactory
    st, v = run_with_timeout(lambda: z.extractall(factory=NullIOFactory()))
    return "declared size > decodable data: extraction never returns" if st == "TIMEOUT" else None

@case
def F9():
    if os.name != "posix":
        return None
    d = tmp(); src = os.path.join(d, "src"); os.mkdir(src)
    open(os.path.join(src, "target_aaaa"), "w").write("x"); open(os.path.join(src, "target_bbbb"), "w").write("y")
    os.symlink("target_aaaa", os.path.join(src, "lnk"))
    p = os.path.join(d, "a.7z")
    with py7zr.SevenZipFile(p, "w", filters=[{"id": py7zr.FILTER_COPY}]) as z:
        z.writeall(src, "t")
    raw = bytearray(open(p, "rb").read())
    i = raw.find(b"target_aaaa", 32)
    raw[i:i + 11] = b"target_bbbb"
    open(p, "wb").write(raw)
    out = os.path.join(d, "out")
    try:
        with py7zr.SevenZipFile(p) as z:
            z.extractall(out)
    except Exception:
        return None
    t = os.readlink(os.path.join(out, "t", "lnk"))
    return f"damaged symlink member extracted without error, now points to {t!r}" if t != "target_aaaa" else None

@case
def F10():
    # valid archive without SubStreamsInfo (one folder, one file): format allows omitting it
    data = b"hello world"
    folder = num(1) + b"\x01\x00"
    streams = PROPERTY.PACK_INFO + num(0) + num(1) + PROPERTY.SIZE + num(len(data)) + PROPERTY.END \
        + PROPERTY.UNPACK_INFO + PROPERTY.FOLDER + num(1) + b"\x00" + folder + PROPERTY.CODERS_UNPACK_SIZE + num(len(data)) \
        + PROPERTY.CRC + b"\x01" + struct.pack("<L", zlib.crc32(data)) + PROPERTY.END + PROPERTY.END
    name = "a.txt".encode("utf-16le") + b"\x00\x00"
    files = PROPERTY.FILES_INFO + num(1) + PROPERTY.NAME + num(len(name) + 1) + b"\x00" + name + PROPERTY.END
    hdr = PROPERTY.HEADER + PROPERTY.MAIN_STREAMS_INFO + streams + files + PROPERTY.END
    blob = seal(hdr, data)
    try:
        from py7zr.io import BytesIOFactory
        f = BytesIOFactory(1 << 20)
        with py7zr.SevenZipFile(io.BytesIO(blob)) as z:
            z.extractall(factory=f)
        return None if f.products["a.txt"].read() == data else "archive without SubStreamsInfo extracts wrong data"
    except AttributeError as e:
        return f"valid archive without SubStreamsInfo: AttributeError: {e}"
    except Exception as e:
        return f"valid archive without SubStreamsInfo: {type(e).__name__}: {e}"

@case
def F11():
    d = tmp(); p = os.path.join(d, "a.7z")
    good = os.path.join(d, "good.txt"); open(good, "w").write("good")
    bad = os.path.join(d, "bad.txt"); open(bad, "w").write("bad"); os.chmod(bad, 0)
    if os.geteuid() == 0:
        # root ignores modes: use a path that disappears between stat and open instead
        import unittest.mock as m
        real_open = pathlib.Path.open
        def fake(self, *a, **k):
            if self.name == "bad.txt" and "rb" in (list(a) + [k.get("mode", "")]):
                raise PermissionError(13, "denied")
            return real_open(self, *a, **k)
        patch = m.patch.object(pathlib.Path, "open", fake)
    else:
        import contextlib
        patch = contextlib.nullcontext()
    try:
        with patch:
            z = py7zr.SevenZipFile(p, "w")
            z.write(good, "good.txt")
            try:
                z.write(bad, "bad.txt")
                return None
            except OSError:
                pass
            z.writestr(b"later", "later.txt")
            z.close()
        with py7zr.SevenZipFile(p) as z:
            names = z.getnames()
        return None if names == ["good.txt", "later.txt"] else f"after a failed write() the archive lists {names}"
    except Exception as e:
        return f"a write() whose source cannot be opened poisons the session: later call/close raises {type(e).__name__}: {e}"

@case
def F12():
    d = tmp(); p = os.path.join(d, "a.7z")
    mk(p, [("a.txt", b"A" * 100), ("b.txt", b"B" * 50)], filters=[{"id": py7zr.FILTER_COPY}])
    raw = open(p, "rb").read()
    z = py7zr.SevenZipFile(p); z.set_encoded_header_mode(False) if hasattr(z, "set_encoded_header_mode") else None
    hdr = z.header; z.close()
    # re-serialise with packpos = 16 and 16 bytes of padding before the packed data
    z = py7zr.SevenZipFile(p)
    h = z.header
    packed_len = h.main_streams.packinfo.packpositions[-1]
    packed = raw[32:32 + packed_len]
    h.main_streams.packinfo.packpos = 16
    b = io.BytesIO(); h.write(b, 0, encoded=False)
    z.close()
    blob = seal(b.getvalue(), b"\x00" * 16 + packed)
    try:
        from py7zr.io import BytesIOFactory
        f = BytesIOFactory(1 << 20)
        with py7zr.SevenZipFile(io.BytesIO(blob)) as z2:
            z2.extractall(factory=f)
        ok = f.products["a.txt"].read() == b"A" * 100 and f.products["b.txt"].read() == b"B" * 50
        return None if ok else "packpos > 0: wrong data extracted"
    except Exception as e:
        return f"valid archive with packpos=16 raises {type(e).__name__}: {e}"

@case
def F15():
    # second folder (appended) with a directory interleaved between its files
    d = tmp(); p = os.path.join(d, "a.7z")
    mk(p, [("one.txt", b"1" * 10)], filters=[{"id": py7zr.FILTER_COPY}])
    src = os.path.join(d, "s"); os.makedirs(os.path.join(src, "dir"))
    open(os.path.join(src, "a.txt"), "w").write("aaa"); open(os.path.join(src, "z.txt"), "w").write("zzz")
    with py7zr.SevenZipFile(p, "a", filters=[{"id": py7zr.FILTER_COPY}]) as z:
        z.write(os.path.join(src, "a.txt"), "a.txt"); z.write(os.path.join(src, "dir"), "dir"); z.write(os.path.join(src, "z.txt"), "z.txt")
    from py7zr.io import BytesIOFactory
    f = BytesIOFactory(1 << 20)
    try:
        with py7zr.SevenZipFile(open(p, "rb")) as z:     # stream => sequential path
            z.extract(targets=["z.txt"], factory=f)
        got = {k: v.read() for k, v in f.products.items()}
        return None if got.get("z.txt") == b"zzz" else f"member after an interleaved directory in an appended folder is not delivered: got {got}"
    except Exception as e:
        return f"interleaved directory in appended folder: {type(e).__name__}: {e}"

@case
def F16():
    d = tmp(); p = os.path.join(d, "a.7z")
    mk(p, [("a.txt", b"A" * 1000)])
    z = py7zr.SevenZipFile(p)
    from py7zr.io import NullIOFactory
    z.extractall(factory=NullIOFactory())
    st, v = run_with_timeout(z.testzip)
    return "extractall(); testzip() without reset never returns" if st == "TIMEOUT" else (None if (st, v) == ("RET", None) else f"extractall(); testzip() -> {st} {v!r}")

@case
def F18():
    d = tmp(); p = os.path.join(d, "a.7z")
    with py7zr.SevenZipFile(p, "w"):
        pass
    out = []
    with py7zr.SevenZipFile(p) as z:
        for name in ("archiveinfo", "test", "testzip", "list", "getnames"):
            try:
                getattr(z, name)()
            except Exception as e:
                out.append(f"{name}(): {type(e).__name__}")
    return ("valid empty archive: " + ", ".join(out)) if out else None

@case
def F19():
    d = tmp(); p = os.path.join(d, "a.7z")
    mk(p, [("name_aaaa.txt", b"A" * 100)], filters=[{"id": py7zr.FILTER_COPY}])
    z = py7zr.SevenZipFile(p); ofs = 32 + z.sig_header.nextheaderofs; z.close()
    raw = open(p, "rb").read()
    # the packed header area lies between the data and the encoded-header descriptor; does any stored digest cover it?
    z = py7zr.SevenZipFile(p)
    buf = io.BytesIO(raw[ofs:ofs + z.sig_header.nextheadersize]); buf.read(1)
    s = ai.HeaderStreamsInfo.retrieve(buf); z.close()
    has = s.unpackinfo.folders[0].digestdefined or (s.packinfo.crcs and any(s.packinfo.digestdefined))
    return None if has else "the packed (encoded) header of a py7zr-written archive carries no digest (neither folder CRC nor pack CRC)"

@case
def F22():
    from py7zr.helpers import check_archive_path
    bad = [n for n in ("../dafj08sajfa/x", "a/../../dafj08sajfa/y") if check_archive_path(n)]
    return f"check_archive_path accepts names that climb above the root: {bad}" if bad else None

@case
def F23():
    d = tmp(); p = os.path.join(d, "a.7z")
    mk(p, [("one.txt", b"hello world one" * 10)])
    with py7zr.SevenZipFile(p, "a") as z:
        z.writestr(b"second member data" * 7, "two.txt"); z.writestr(b"third member data!!" * 9, "three.txt")
    from py7zr.io import BytesIOFactory
    f = BytesIOFactory(1 << 20)
    try:
        with py7zr.SevenZipFile(p) as z:
            z.extractall(factory=f)
        return None
    except Exception as e:
        return f"appending two members to a one-member archive: extraction raises {type(e).__name__}{e.args}"

@case
def F24():
    # write() of a source that is neither link, directory nor regular file
    if not os.path.exists("/dev/null"):
        return None
    d = tmp(); p = os.path.join(d, "a.7z")
    z = py7zr.SevenZipFile(p, "w")
    try:
        z.write("/dev/null", "null")
    except (ValueError, py7zr.exceptions.ArchiveError, OSError):
        try:
            z.writestr(b"x", "x.txt"); z.close()
            with py7zr.SevenZipFile(p) as r:
                return None if r.getnames() == ["x.txt"] else f"after rejected special file the archive lists {r.getnames()}"
        except Exception as e:
            return f"special file rejected but session poisoned: {type(e).__name__}: {e}"
    except KeyError as e:
        try:
            z.close()
            return f"write('/dev/null') raises KeyError({e}) after registering the member"
        except Exception as e2:
            return f"write('/dev/null') raises KeyError({e}) after registering the member; close() then raises {type(e2).__name__}"
    return None

@case
def F1():
    if os.name != "posix":
        return None
    # members: a -> . ; a/b -> .. ; b/evil.txt
    import stat as st_
    def fi(name, attr, data):
        return name, attr, data
    LNK = 0x8000 | 0x20 | 0x400 | (st_.S_IFLNK | 0o777) << 16
    REG = 0x8000 | 0x20 | (0o100644 << 16)
    members = [("a", LNK, b"."), ("a/b", LNK, b".."), ("b/evil.txt", REG, b"evil")]
    data = b"".join(m[2] for m in members)
    sub = PROPERTY.SUBSTREAMS_INFO + PROPERTY.NUM_UNPACK_STREAM + num(3) + PROPERTY.SIZE + num(1) + num(2) + PROPERTY.CRC + b"\x01" + \
        b"".join(struct.pack("<L", zlib.crc32(m[2])) for m in members) + PROPERTY.END
    streams = PROPERTY.PACK_INFO + num(0) + num(1) + PROPERTY.SIZE + num(len(data)) + PROPERTY.END \
        + PROPERTY.UNPACK_INFO + PROPERTY.FOLDER + num(1) + b"\x00" + num(1) + b"\x01\x00" + PROPERTY.CODERS_UNPACK_SIZE + num(len(data)) + PROPERTY.END \
        + sub + PROPERTY.END
    names = b"".join(m[0].encode("utf-16le") + b"\x00\x00" for m in members)
    attrs = b"\x01\x00" + b"".join(struct.pack("<L", m[1]) for m in members)
    files = PROPERTY.FILES_INFO + num(3) + PROPERTY.NAME + num(len(names) + 1) + b"\x00" + names + PROPERTY.ATTRIBUTES + num(len(attrs)) + attrs + PROPERTY.END
    hdr = PROPERTY.HEADER + PROPERTY.MAIN_STREAMS_INFO + streams + files + PROPERTY.END
    blob = seal(hdr, data)
    d = tmp(); jail = os.path.join(d, "outer", "jail"); os.makedirs(jail)
    try:
        with py7zr.SevenZipFile(io.BytesIO(blob)) as z:
            z.extractall(jail)
    except Exception:
        pass
    esc = [os.path.join(dp, f) for dp, _, fs in os.walk(d) for f in fs if not os.path.realpath(os.path.join(dp, f)).startswith(os.path.realpath(jail) + os.sep)]
    return f"chained links a->., a/b->.. : file written outside the destination: {esc}" if esc else None

@case
def F13():
    hdr = PROPERTY.HEADER + PROPERTY.FILES_INFO + num(3_000_000) + PROPERTY.END + PROPERTY.END
    blob = seal(hdr)
    import resource, time
    t = time.time()
    st, v = run_with_timeout(lambda: py7zr.SevenZipFile(io.BytesIO(blob)).getnames().__len__(), secs=60)
    dt = time.time() - t
    rss = resource.getrusage(resource.RUSAGE_SELF).ru_maxrss // 1024
    return f"a {len(blob)}-byte archive declaring 3,000,000 files: open {st} after {dt:.1f}s, peak RSS {rss} MiB" if (dt > 3 or rss > 400) else None

def _rss_probe(blob, secs=60):
    """open blob in a child process, report (status, seconds, peak RSS MiB)."""
    import time
    code = ("import sys,io,resource,time\nsys.path.insert(0, %r)\nimport py7zr\nb=open(sys.argv[1],'rb').read()\nt=time.time()\n"
            "try:\n    z=py7zr.SevenZipFile(io.BytesIO(b)); n=len(z.getnames()); st='opened %%d members' %% n\n"
            "except BaseException as e:\n    st=type(e).__name__\n"
            "print(st, round(time.time()-t,1), resource.getrusage(resource.RUSAGE_SELF).ru_maxrss//1024)\n") % os.getcwd()
    d = tmp(); p = os.path.join(d, "x.7z"); open(p, "wb").write(blob)
    try:
        out = subprocess.run([sys.executable, "-c", code, p], capture_output=True, text=True, timeout=secs).stdout.strip()
    except subprocess.TimeoutExpired:
        out = f"TIMEOUT >{secs}s"
    shutil.rmtree(d, ignore_errors=True)
    return out

@case
def F13b():
    # PackInfo: huge stream count, no Size property -> packpositions comprehension
    streams = PROPERTY.PACK_INFO + num(0) + num(100_000_000) + PROPERTY.END + PROPERTY.END
    hdr = PROPERTY.HEADER + PROPERTY.MAIN_STREAMS_INFO + streams + PROPERTY.END
    out = _rss_probe(seal(hdr), secs=120)
    parts = out.split()
    if len(parts) == 3 and parts[0] == "Bad7zFile" and float(parts[1]) < 5 and int(parts[2]) < 200:
        return None  # refused at once
    return f"{len(seal(hdr))}-byte archive declaring 100,000,000 pack streams without a Size property: {out} (status, seconds, peak RSS MiB)"

@case
def F13c():
    # SubstreamsInfo: one folder declaring 200,000,000 substreams, no Size/CRC -> [False]*n and [0]*n
    folder = num(1) + b"\x01\x00"
    streams = PROPERTY.PACK_INFO + num(0) + num(1) + PROPERTY.SIZE + num(1) + PROPERTY.END \
        + PROPERTY.UNPACK_INFO + PROPERTY.FOLDER + num(1) + b"\x00" + folder + PROPERTY.CODERS_UNPACK_SIZE + num(1) + PROPERTY.END \
        + PROPERTY.SUBSTREAMS_INFO + PROPERTY.NUM_UNPACK_STREAM + num(200_000_000) + PROPERTY.END + PROPERTY.END
    hdr = PROPERTY.HEADER + PROPERTY.MAIN_STREAMS_INFO + streams + PROPERTY.END
    out = _rss_probe(seal(hdr, b"x"))
    return f"{len(seal(hdr, b'x'))}-byte archive declaring 200,000,000 substreams: {out}"

@case
def F13d():
    # read_boolean all-defined shortcut: [True] * count with count = declared number of files
    name = b"a\x00\x00\x00"
    files = PROPERTY.FILES_INFO + num(150_000_000) + PROPERTY.LAST_WRITE_TIME + num(2) + b"\x01\x00" + PROPERTY.END
    hdr = PROPERTY.HEADER + files + PROPERTY.END
    out = _rss_probe(seal(hdr))
    return f"{len(seal(hdr))}-byte archive declaring 150,000,000 files: {out}"

@case
def F14():
    d = tmp(); p = os.path.join(d, "a.7z")
    mk(p, [("one.txt", b"1" * 4000)], filters=[{"id": py7zr.FILTER_COPY}])
    with py7zr.SevenZipFile(p, "a", filters=[{"id": py7zr.FILTER_COPY}]) as z:
        z.writestr(b"2" * 4000, "two.txt")
    raw = bytearray(open(p, "rb").read())
    i = raw.find(b"2" * 100)
    raw[i + 10] ^= 0xFF
    open(p, "wb").write(raw)
    res = {}
    for mp in (False, True):
        out = os.path.join(d, f"out{mp}")
        try:
            with py7zr.SevenZipFile(p, mp=mp) as z:
                z.extractall(out)
            res[mp] = "no error"
        except Exception as e:
            res[mp] = type(e).__name__
    return f"damaged folder: threads -> {res[False]}, mp=True -> {res[True]} (worker's CrcError lost, damaged file delivered)" if res[True] == "no error" and res[False] != "no error" else None

@case
def F21():
    # bounded memory: 1 GiB of zeros through Deflate vs LZMA2, extracted to a null writer, in child processes
    code = ("import sys,io,resource\nsys.path.insert(0, %r)\nimport py7zr\nfrom py7zr.io import NullIOFactory\n"
            "with py7zr.SevenZipFile(sys.argv[1]) as z:\n    z.extractall(factory=NullIOFactory())\n"
            "print(resource.getrusage(resource.RUSAGE_SELF).ru_maxrss//1024)\n") % os.getcwd()
    d = tmp(); out = {}
    class Zeros(io.BufferedIOBase):
        def __init__(self, n): self.n = n; self.pos = 0
        def readable(self): return True
        def seekable(self): return True
        def tell(self): return self.pos
        def seek(self, o, w=0):
            self.pos = o if w == 0 else (self.pos + o if w == 1 else self.n + o); return self.pos
        def read(self, k=-1):
            k = self.n - self.pos if k is None or k < 0 else min(k, self.n - self.pos); self.pos += k; return bytes(k)
    for nm, flt in [(n, f) for n, f in (("deflate", [{"id": py7zr.FILTER_DEFLATE}]), ("deflate64", [{"id": py7zr.properties.FILTER_DEFLATE64}]), ("zstd", [{"id": py7zr.FILTER_ZSTD}]),
                                        ("brotli", [{"id": py7zr.properties.FILTER_BROTLI, "level": 1}]), ("lzma2", [{"id": py7zr.FILTER_LZMA2, "preset": 1}]))
                    if n in os.environ.get("F21_CODECS", "deflate,lzma2").split(",")]:
        p = os.path.join(d, nm + ".7z")
        with py7zr.SevenZipFile(p, "w", filters=flt) as z:
            z.writef(Zeros(1 << 30), "zeros.bin")
        out[nm] = int(subprocess.run([sys.executable, "-c", code, p], capture_output=True, text=True, timeout=600).stdout.strip() or -1)
    shutil.rmtree(d, ignore_errors=True)
    return f"peak RSS extracting 1 GiB of zeros to a null writer: {out} MiB; budget 700 MiB (Deflate/Deflate64/Brotli/ZStandard ignore max_length: one 1 MiB input block expands ~1000x)" \
        if max(v for k, v in out.items() if k != "lzma2") > 1000 else None


@case
def F25():
    if os.name != "posix":
        return None
    # members: file f ; link ./f -> a/.. (replaces the file) ; link a -> .   => post-pass utime/chmod on dest/f follows the links out of the jail
    import stat as st_, time
    LNK = 0x8000 | 0x20 | 0x400 | (st_.S_IFLNK | 0o777) << 16
    REG = 0x8000 | 0x20 | (0o100600 << 16)
    members = [("f", REG, b"data"), ("./f", LNK, b"a/.."), ("a", LNK, b".")]
    data = b"".join(m[2] for m in members)
    sub = PROPERTY.SUBSTREAMS_INFO + PROPERTY.NUM_UNPACK_STREAM + num(3) + PROPERTY.SIZE + num(4) + num(4) + PROPERTY.CRC + b"\x01" + \
        b"".join(struct.pack("<L", zlib.crc32(m[2])) for m in members) + PROPERTY.END
    streams = PROPERTY.PACK_INFO + num(0) + num(1) + PROPERTY.SIZE + num(len(data)) + PROPERTY.END \
        + PROPERTY.UNPACK_INFO + PROPERTY.FOLDER + num(1) + b"\x00" + num(1) + b"\x01\x00" + PROPERTY.CODERS_UNPACK_SIZE + num(len(data)) + PROPERTY.END \
        + sub + PROPERTY.END
    names = b"".join(m[0].encode("utf-16le") + b"\x00\x00" for m in members)
    attrs = b"\x01\x00" + b"".join(struct.pack("<L", m[1]) for m in members)
    mt = b"\x01\x00" + struct.pack("<Q", 116444736000000000 + 10 ** 7 * 1000) * 3
    files = PROPERTY.FILES_INFO + num(3) + PROPERTY.NAME + num(len(names) + 1) + b"\x00" + names + PROPERTY.LAST_WRITE_TIME + num(len(mt)) + mt \
        + PROPERTY.ATTRIBUTES + num(len(attrs)) + attrs + PROPERTY.END
    hdr = PROPERTY.HEADER + PROPERTY.MAIN_STREAMS_INFO + streams + files + PROPERTY.END
    blob = seal(hdr, data)
    d = tmp(); outer = os.path.join(d, "outer"); jail = os.path.join(outer, "jail"); os.makedirs(jail)
    os.chmod(outer, 0o755)
    before = (os.stat(outer).st_mtime, st_.S_IMODE(os.stat(outer).st_mode))
    try:
        with py7zr.SevenZipFile(io.BytesIO(blob)) as z:
            z.extractall(jail)
    except Exception:
        pass
    after = (os.stat(outer).st_mtime, st_.S_IMODE(os.stat(outer).st_mode))
    return f"post-pass followed links out of the destination: parent directory (mtime, mode) {before} -> {after}" if after != before and (after[0] == 1000.0 or after[1] == 0o600) else None


def _two_file_copy_archive(folder_crc=True, mtimes=None):
    a, b = b"first member " * 5, b"second member!" * 7
    data = a + b
    crcsec = (PROPERTY.CRC + b"\x01" + struct.pack("<L", zlib.crc32(data))) if folder_crc else b""
    sub = PROPERTY.SUBSTREAMS_INFO + PROPERTY.NUM_UNPACK_STREAM + num(2) + PROPERTY.SIZE + num(len(a)) + PROPERTY.CRC + b"\x01" + \
        struct.pack("<LL", zlib.crc32(a), zlib.crc32(b)) + PROPERTY.END
    streams = PROPERTY.PACK_INFO + num(0) + num(1) + PROPERTY.SIZE + num(len(data)) + PROPERTY.END \
        + PROPERTY.UNPACK_INFO + PROPERTY.FOLDER + num(1) + b"\x00" + num(1) + b"\x01\x00" + PROPERTY.CODERS_UNPACK_SIZE + num(len(data)) + crcsec + PROPERTY.END \
        + sub + PROPERTY.END
    names = b"".join(n.encode("utf-16le") + b"\x00\x00" for n in ("a.txt", "b.txt"))
    files = PROPERTY.FILES_INFO + num(2) + PROPERTY.NAME + num(len(names) + 1) + b"\x00" + names
    if mtimes is not None:
        files += PROPERTY.LAST_WRITE_TIME + num(len(mtimes)) + mtimes
    files += PROPERTY.END
    hdr = PROPERTY.HEADER + PROPERTY.MAIN_STREAMS_INFO + streams + files + PROPERTY.END
    return seal(hdr, data), {"a.txt": a, "b.txt": b}

@case
def F26():
    # valid archive: mtime defined for the first member only -> extraction to disk
    mt = b"\x00\x80\x00" + struct.pack("<Q", 116444736000000000 + 10 ** 7 * 1000)
    blob, want = _two_file_copy_archive(folder_crc=False, mtimes=mt)
    d = tmp()
    try:
        with py7zr.SevenZipFile(io.BytesIO(blob)) as z:
            z.extractall(d)
        ok = all(open(os.path.join(d, n), "rb").read() == v for n, v in want.items())
        return None if ok else "undefined mtime: wrong data extracted"
    except Exception as e:
        return f"valid archive with an undefined mtime: extraction to disk raises {type(e).__name__}: {e}"

@case
def F27():
    # valid archive: folder-level CRC on a folder that holds two substreams
    blob, want = _two_file_copy_archive(folder_crc=True)
    from py7zr.io import BytesIOFactory
    f = BytesIOFactory(1 << 20)
    try:
        with py7zr.SevenZipFile(io.BytesIO(blob)) as z:
            z.extractall(factory=f)
        ok = all(f.products[n].read() == v for n, v in want.items())
        return None if ok else "folder CRC + two substreams: wrong data extracted"
    except Exception as e:
        return f"valid archive with a folder-level CRC on a two-member folder raises {type(e).__name__}{e.args}"


@case
def F28():
    d = tmp(); p = os.path.join(d, "a.7z")
    mk(p, [("one.txt", b"hello" * 20)])
    os.mkdir(os.path.join(d, "emptydir"))
    try:
        with py7zr.SevenZipFile(p, "a") as z:
            z.write(os.path.join(d, "emptydir"), "emptydir")
        with py7zr.SevenZipFile(p) as z:
            names = z.getnames()
        return None if names == ["one.txt", "emptydir"] else f"append of a directory only: archive lists {names}"
    except Exception as e:
        return f"appending only a directory to a non-solid archive: close() raises {type(e).__name__}: {e} (the old header is already overwritten)"


@case
def F29():
    # no target directory given: a directory member named './/<abs>' is validated as cwd/<abs> and created as /<abs>
    d = tmp(); p = os.path.join(d, "a.7z")
    outside = os.path.join(d, "outside", "made_by_member")
    os.mkdir(os.path.join(d, "srcdir")); os.mkdir(os.path.join(d, "cwd"))
    with py7zr.SevenZipFile(p, "w") as z:
        z.write(os.path.join(d, "srcdir"), "placeholder")
        z.header.files_info.files[-1]["filename"] = ".//" + outside.lstrip("/")
    old = os.getcwd(); os.chdir(os.path.join(d, "cwd"))
    try:
        try:
            with py7zr.SevenZipFile(p) as z:
                z.extractall()
        except py7zr.exceptions.Bad7zFile:
            pass
    finally:
        os.chdir(old)
    return f"extractall() without path created {outside} outside the current directory" if os.path.exists(outside) else None


@case
def F30():
    # a folder without substreams (append of a directory only) breaks extraction and the next append
    d = tmp(); p = os.path.join(d, "a.7z")
    mk(p, [("one.txt", b"hello" * 20)])
    os.mkdir(os.path.join(d, "emptydir"))
    with py7zr.SevenZipFile(p, "a") as z:
        z.write(os.path.join(d, "emptydir"), "emptydir")
    try:
        with py7zr.SevenZipFile(p) as z:
            z.extractall(os.path.join(d, "out"))
    except Exception as e:
        return f"extractall() of [1, 0]-substream archive raises {type(e).__name__}: {e}"
    with py7zr.SevenZipFile(p, "a") as z:
        z.writestr(b"A" * 10, "a.txt"); z.writestr(b"B" * 33, "b.txt")
    with py7zr.SevenZipFile(p) as z:
        sizes = {f.filename: f.uncompressed for f in z.list()}
        bad = z.testzip()
    ok = sizes.get("a.txt") == 10 and sizes.get("b.txt") == 33 and bad is None
    return None if ok else f"append after an empty folder: sizes {sizes}, testzip -> {bad}"


@case
def F31():
    # list(): a member without a time stamp shows its predecessor's
    d = tmp(); p = os.path.join(d, "a.7z")
    with py7zr.SevenZipFile(p, "w") as z:
        z.writestr(b"one", "one.txt"); z.writestr(b"two", "two.txt")
        del z.header.files_info.files[1]["lastwritetime"]
    with py7zr.SevenZipFile(p) as z:
        times = [(f.filename, f.creationtime) for f in z.list()]
        stored = [f.lastwritetime for f in z.files]
    return None if times[1][1] is None else f"member two.txt has no stored time stamp ({stored[1]}) but list() reports {times[1][1]} (that of one.txt)"


@case
def F32():
    # slow callbacks: close() gives up after 1 s, raises InternalError, the rest of the events arrive after close()
    import time
    d = tmp(); p = os.path.join(d, "a.7z")
    with py7zr.SevenZipFile(p, "w") as z:
        for i in range(8):
            z.writestr(b"x" * 100, f"f{i}.txt")
    from py7zr.callbacks import ExtractCallback
    class CB(ExtractCallback):
        def __init__(self): self.ev = []
        def report_start_preparation(self): self.ev.append(time.time())
        def report_start(self, a, b): self.ev.append(time.time())
        def report_update(self, n): pass
        def report_end(self, a, b):
            time.sleep(0.3); self.ev.append(time.time())
        def report_warning(self, m): pass
        def report_postprocess(self): self.ev.append(time.time())
    cb = CB()
    z = py7zr.SevenZipFile(p)
    z.extractall(os.path.join(d, "out"), callback=cb)
    try:
        z.close(); r = "returned"
    except Exception as e:
        r = f"raised {type(e).__name__}"
    t_close = time.time()
    time.sleep(3)
    late = [e for e in cb.ev if e > t_close]
    return None if (r == "returned" and not late) else f"close() {r}; {len(late)} of {len(cb.ev)} events delivered after close()"


@case
def F14b():
    # progress events of worker PROCESSES never reach the reporter
    d = tmp(); p = os.path.join(d, "a.7z")
    mk(p, [("one.txt", b"1" * 4000)], filters=[{"id": py7zr.FILTER_COPY}])
    with py7zr.SevenZipFile(p, "a", filters=[{"id": py7zr.FILTER_COPY}]) as z:
        z.writestr(b"2" * 4000, "two.txt")
    from py7zr.callbacks import ExtractCallback
    class CB(ExtractCallback):
        def __init__(self): self.ev = []
        def report_start_preparation(self): self.ev.append("pre")
        def report_start(self, a, b): self.ev.append("s:" + a)
        def report_update(self, n): self.ev.append("u")
        def report_end(self, a, b): self.ev.append("e:" + a)
        def report_warning(self, m): pass
        def report_postprocess(self): self.ev.append("post")
    got = {}
    for mp in (False, True):
        cb = CB()
        with py7zr.SevenZipFile(p, mp=mp) as z:
            z.extractall(os.path.join(d, f"o{mp}"), callback=cb)
        got[mp] = sorted(e for e in cb.ev if e[0] in "se")
    return f"mp=True: start/end events {got[True]} vs threads {got[False]} (events put by worker processes are lost)" if got[True] != got[False] else None


@case
def F21b():
    # small declared output, expanding stream: memory must stay proportional to input + DECLARED output (C05)
    code = ("import sys,io,resource\nsys.path.insert(0, %r)\nimport py7zr\nfrom py7zr.io import NullIOFactory\n"
            "z = py7zr.SevenZipFile(sys.argv[1])\n"
            "z.files.files_list[0]['uncompressed'] = 64\nz.header.main_streams.unpackinfo.folders[0].unpacksizes = [64]\n"
            "z.header.main_streams.substreamsinfo.unpacksizes = [64]\nz.files.files_list[0].pop('digest', None)\n"
            "try:\n    z.extractall(factory=NullIOFactory()); st='ok'\nexcept BaseException as e:\n    st=type(e).__name__\n"
            "print(st, resource.getrusage(resource.RUSAGE_SELF).ru_maxrss//1024)\n") % os.getcwd()
    d = tmp(); out = {}
    class Zeros(io.BufferedIOBase):
        def __init__(self, n): self.n = n; self.pos = 0
        def readable(self): return True
        def seekable(self): return True
        def tell(self): return self.pos
        def seek(self, o, w=0):
            self.pos = o if w == 0 else (self.pos + o if w == 1 else self.n + o); return self.pos
        def read(self, k=-1):
            k = self.n - self.pos if k is None or k < 0 else min(k, self.n - self.pos); self.pos += k; return bytes(k)
    for nm, flt in (("deflate", [{"id": py7zr.FILTER_DEFLATE}]), ("zstd", [{"id": py7zr.FILTER_ZSTD}]), ("lzma2", [{"id": py7zr.FILTER_LZMA2, "preset": 1}])):
        p = os.path.join(d, nm + ".7z")
        with py7zr.SevenZipFile(p, "w", filters=flt) as z:
            z.writef(Zeros(512 << 20), "zeros.bin")
        sz = os.path.getsize(p)
        r = subprocess.run([sys.executable, "-c", code, p], capture_output=True, text=True, timeout=600).stdout.strip()
        out[nm] = (sz, r)
    shutil.rmtree(d, ignore_errors=True)
    bad = {k: v for k, v in out.items() if k != "lzma2" and int(v[1].split()[-1]) > 400}
    return f"member DECLARING 64 bytes whose stream expands to 512 MiB (archive bytes, status, peak RSS MiB): {out}" if bad else None


def _demo_case(fid, path):
    """findings whose failing input is a stand-alone demo (written by a hunting agent): exit 1 + 'FAIL ...' means the defect shows."""
    def run():
        r = subprocess.run([sys.executable, path], cwd=os.getcwd(), capture_output=True, text=True, timeout=600)
        if r.returncode == 0:
            return None
        lines = [l for l in (r.stdout + r.stderr).splitlines() if l.strip() and "conda" not in l]
        fail = [l for l in lines if l.startswith("FAIL")]
        return (fail[0] if fail else (lines[-1] if lines else f"exit {r.returncode}"))[:300]
    run.__name__ = fid
    R[fid] = run


_DEMOS = os.path.join(os.path.dirname(os.path.abspath(__file__)), "demos")
if os.path.isdir(_DEMOS):
    for _fn in sorted(os.listdir(_DEMOS)):
        if _fn.endswith(".py"):
            _demo_case(_fn[:-3], os.path.join(_DEMOS, _fn))


if __name__ == "__main__":
    ids = sys.argv[1:]
    if ids == ["all"] or not ids:
        ids = sorted(R, key=lambda s: int(''.join(ch for ch in s[1:] if ch.isdigit()) or 0))
    rc = 0
    for i in ids:
        try:
            r = R[i]()
        except Exception as e:
            import traceback; traceback.print_exc()
            r = f"repro script error {type(e).__name__}: {e}"
        print(f"{i} {'DEFECT ' + r if r else 'OK'}")
        rc |= bool(r)
    sys.exit(rc)
