"""C02: extracting an archive that holds a symbolic link into the current directory
(extractall() without a path, which is what `py7zr x archive.7z` does) crashes with
AttributeError, leaving a partial tree."""
import os
import pathlib
import shutil
import subprocess
import sys
import tempfile

sys.path.insert(0, os.getcwd())
import py7zr  # noqa: E402

WORKTREE = os.getcwd()


def main() -> int:
    work = pathlib.Path(tempfile.mkdtemp(prefix="hc02_2_"))
    cwd = os.getcwd()
    problems = []
    try:
        src = work / "src"
        (src / "d").mkdir(parents=True)
        (src / "d" / "f.txt").write_bytes(b"data\n")
        os.symlink("d/f.txt", src / "lnk")  # relative link to a file inside the tree
        (src / "z_after.txt").write_bytes(b"member after the link\n")
        arc = work / "t.7z"
        os.chdir(work)
        try:
            with py7zr.SevenZipFile(arc, "w") as z:
                z.writeall("src")
        finally:
            os.chdir(cwd)

        # API: extractall() into an empty current directory
        out1 = work / "out1"
        out1.mkdir()
        os.chdir(out1)
        try:
            with py7zr.SevenZipFile(arc, "r") as z:
                z.extractall()
        except Exception as e:  # noqa
            problems.append(f"extractall() with path=None raised {type(e).__name__}: {e}")
        finally:
            os.chdir(cwd)
        if not os.path.islink(out1 / "src" / "lnk") or os.readlink(out1 / "src" / "lnk") != "d/f.txt":
            problems.append("API: src/lnk was not re-created")
        if not (out1 / "src" / "z_after.txt").is_file() or (out1 / "src" / "z_after.txt").read_bytes() != b"member after the link\n":
            problems.append("API: src/z_after.txt (member after the link) is missing or incomplete")

        # CLI front end: `py7zr x archive` extracts into the current directory
        out2 = work / "out2"
        out2.mkdir()
        env = dict(os.environ, PYTHONPATH=WORKTREE)
        r = subprocess.run([sys.executable, "-m", "py7zr", "x", str(arc)], cwd=out2, env=env, capture_output=True, text=True)
        if r.returncode != 0:
            last = (r.stderr.strip().splitlines() or ["?"])[-1]
            problems.append(f"CLI `py7zr x` exit status {r.returncode}: {last}")
        if not os.path.islink(out2 / "src" / "lnk"):
            problems.append("CLI: src/lnk was not re-created")
    finally:
        os.chdir(cwd)
        shutil.rmtree(work, ignore_errors=True)
    if problems:
        print("FAIL: tree with a symlink cannot be extracted into the current directory")
        for p in problems:
            print("  " + p)
        return 1
    print("PASS")
    return 0


if __name__ == "__main__":
    sys.exit(main())
