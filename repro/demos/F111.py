"""C01: PPMd archives of poorly compressible data written by py7zr cannot be read back.

One member of 200,000 random bytes, filter chain [PPMd] with default parameters, everything else default
(block size, chunk limit, encoded header, BytesIO target).  Ten different contents are tried; with the
pristine tree about a third of them come back as "Corrupted input data", a CrcError, or wrong bytes.

Each round trip runs in a child process: decoding the damaged stream can also crash the interpreter.
"""
import os
import subprocess
import sys

CHILD = r"""
import io, os, random, sys
sys.path.insert(0, os.getcwd())
import py7zr
from py7zr.io import BytesIOFactory

seed, size = int(sys.argv[1]), int(sys.argv[2])
data = random.Random(seed).randbytes(size)
bio = io.BytesIO()
with py7zr.SevenZipFile(bio, "w", filters=[{"id": py7zr.FILTER_PPMD}]) as z:
    z.writestr(data, "member.bin")
bio.seek(0)
with py7zr.SevenZipFile(bio, "r") as z:
    if z.getnames() != ["member.bin"]:
        print("names differ", z.getnames()); sys.exit(3)
    fac = BytesIOFactory(1 << 40)
    z.extractall(factory=fac)
got = fac.products["member.bin"].read()
if got != data:
    print("content differs (%d bytes read, %d written)" % (len(got), len(data))); sys.exit(3)
print("round trip ok")
"""


def run(seed, size):
    p = subprocess.run([sys.executable, "-c", CHILD, str(seed), str(size)], capture_output=True, text=True, cwd=os.getcwd())
    tail = (p.stdout + p.stderr).strip().splitlines()[-1:] or [""]
    return p.returncode, tail[0]


def main():
    bad = []
    for seed in range(10):
        rc, msg = run(seed, 200000)
        print("seed %d: rc=%d %s" % (seed, rc, msg))
        if rc != 0:
            bad.append((seed, rc, msg))
    if bad:
        print("FAIL: %d of 10 single-member PPMd archives written with writestr() are not read back: %r" % (len(bad), bad))
        return 1
    print("PASS")
    return 0


if __name__ == "__main__":
    sys.exit(main())
