"""C16: writestr()/writef() accept a name that is a drive-prefixed (absolute) name once its '..' are resolved.

'c:/x' and './c:/x' are refused (ValueError: a drive prefix makes a name absolute), and write(..., arcname='a/../c:/x') refuses
the very same text, but writestr()/writef() look for the drive prefix only at the front of the raw text: 'a/../c:/x',
'a/b/../../c:/x', 'a/../c:x' are accepted and stored verbatim, although they name exactly what 'c:/x' names.
"""
import io
import ntpath
import os
import posixpath
import sys
import tempfile

sys.path.insert(0, os.getcwd())
import py7zr  # noqa: E402


def oracle_accepts(name: str) -> bool:
    """Independent definition: resolve '..' lexically against a virtual root; reject iff absolute or the depth goes negative."""
    n = name.replace("\\", "/")
    if n.startswith("/"):
        return False
    stack = []
    for p in n.split("/"):
        if p in ("", "."):
            continue
        if p == "..":
            if not stack:
                return False
            stack.pop()
        else:
            stack.append(p)
    resolved = "/".join(stack)
    # absolute after resolution: a drive prefix in front ('c:/x' absolute, 'c:x' drive relative)
    if len(resolved) >= 2 and resolved[1] == ":" and resolved[0].isalpha() and resolved[0].isascii():
        return False
    return True


names = ["c:/x", "./c:/x", "a/../c:/x", "a/b/../../c:/x", "a/../c:x", "a/./../c:", "a\\..\\c:\\x", "a/../b/c:/x", "a/c:/x"]
problems = []
for api in ("writestr", "writef"):
    for nm in names:
        bio = io.BytesIO()
        with py7zr.SevenZipFile(bio, "w") as z:
            z.writestr(b"keep", "keep.txt")
            try:
                if api == "writestr":
                    z.writestr(b"data", nm)
                else:
                    z.writef(io.BytesIO(b"data"), nm)
                accepted = True
            except ValueError:
                accepted = False
        bio.seek(0)
        with py7zr.SevenZipFile(bio, "r") as z:
            listed = z.getnames()
        want = oracle_accepts(nm)
        if accepted != want:
            stored = [n for n in listed if n != "keep.txt"]
            problems.append(
                f"{api}({nm!r}): accepted={accepted}, expected accepted={want}; stored {stored}, "
                f"which resolves to {posixpath.normpath(stored[0]) if stored else None!r} "
                f"(ntpath.isabs -> {ntpath.isabs(ntpath.normpath(stored[0])) if stored else None})"
            )
        if not accepted and listed != ["keep.txt"]:
            problems.append(f"{api}({nm!r}) refused but the archive changed: {listed}")

# the sibling: write() with the same text as arcname refuses it
with tempfile.TemporaryDirectory() as d:
    src = os.path.join(d, "src.txt")
    with open(src, "w") as f:
        f.write("data")
    with py7zr.SevenZipFile(io.BytesIO(), "w") as z:
        try:
            z.write(src, arcname="a/../c:/x")
            sibling = "accepted"
        except ValueError:
            sibling = "refused (ValueError)"

if problems:
    print("FAIL: names that are drive-prefixed (absolute) after '..' resolution are accepted and stored:")
    for p in problems:
        print("  -", p)
    print(f"  (write(src, arcname='a/../c:/x') : {sibling})")
    sys.exit(1)
print("PASS")
