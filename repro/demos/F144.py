"""6ea872c (incomplete): the identity tests keep an extraction from WRITING over the archive through a link of the same extraction,
but the post-extraction pass (utime / chmod of every file member) still follows such a link: member 'l' (a file, mode 000) is
replaced by the link member 'x/../l' -> 'arch.7z'; afterwards chmod(<dest>/l, 0o000) lands on the archive that is being read.
The archive, extracted into its own directory, ends up with mode 000 (unreadable for its owner).  Same at upstream: a residue of
the fix, not a regression."""
import os
import struct
import sys
import tempfile
import zlib

sys.path.insert(0, os.getcwd())
import py7zr  # noqa: E402


def num(n):
    assert n < 0x80
    return bytes([n])


def build(members, attrs):
    """one COPY folder, plain header"""
    packed = b"".join(d for _, d in members)
    h = b"\x01\x04" + b"\x06" + num(0) + num(1) + b"\x09" + num(len(packed)) + b"\x00"
    h += b"\x07\x0b" + num(1) + b"\x00" + num(1) + b"\x01\x00" + b"\x0c" + num(len(packed)) + b"\x00"
    h += b"\x08\x0d" + num(len(members)) + b"\x09" + b"".join(num(len(d)) for _, d in members[:-1])
    h += b"\x0a\x01" + b"".join(struct.pack("<L", zlib.crc32(d)) for _, d in members) + b"\x00\x00"
    names = b"".join(n.encode("utf-16le") + b"\x00\x00" for n, _ in members)
    h += b"\x05" + num(len(members)) + b"\x11" + num(len(names) + 1) + b"\x00" + names
    h += b"\x15" + num(2 + 4 * len(members)) + b"\x01\x00" + b"".join(struct.pack("<L", a) for a in attrs) + b"\x00\x00"
    start = struct.pack("<QQL", len(packed), len(h), zlib.crc32(h))
    return b"7z\xbc\xaf\x27\x1c\x00\x04" + struct.pack("<L", zlib.crc32(start)) + start + packed + h


LNK = 0x8000 | (0o120777 << 16) | 0x400
REG000 = 0x8000 | (0o100000 << 16) | 0x20
blob = build([("l", b"data"), ("x/../l", b"arch.7z")], [REG000, LNK])
with tempfile.TemporaryDirectory() as d:
    p = os.path.join(d, "arch.7z")
    with open(p, "wb") as f:
        f.write(blob)
    os.chmod(p, 0o644)
    outcome = "extracted"
    try:
        with py7zr.SevenZipFile(p) as z:
            z.extractall(d)
    except Exception as e:  # a refusal would be fine as well
        outcome = f"refused: {type(e).__name__}: {e}"
    mode = os.stat(p).st_mode & 0o7777
    os.chmod(p, 0o644)
    if mode != 0o644:
        print(f"FAIL: ({outcome}) the archive being read had mode 0o644 and has mode {mode:#o} after extractall() into its own directory:")
        print("      the post-extraction chmod/utime of member 'l' followed the link 'l' -> 'arch.7z' that a later member put in its place")
        sys.exit(1)
print("PASS")
