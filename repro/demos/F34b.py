"""C09: extract() strips the trailing '/' from every target but compares with the member names as stored.
A directory member whose stored name ends with '/' (legal in the 7z format; py7zr lists it as 'logs/' and
extractall() creates it) can therefore never be selected: neither 'logs/' (its name) nor 'logs' delivers it."""
import os
import sys

sys.path.insert(0, os.getcwd())
import shutil
import struct
import tempfile
import zlib

import py7zr


def num(v):  # 7z variable length number, small values only
    assert v < 0x80
    return bytes([v])


def build(files):
    """files: list of (name, data or None for a directory); one COPY folder holding all data members"""
    datas = [d for _, d in files if d is not None]
    body = b"".join(datas)
    h = b"\x01\x04"
    h += b"\x06" + num(0) + num(1) + b"\x09" + num(len(body)) + b"\x00"  # PackInfo
    h += b"\x07\x0b" + num(1) + b"\x00" + num(1) + b"\x01\x00" + b"\x0c" + num(len(body)) + b"\x00"  # one COPY coder
    h += b"\x08\x0d" + num(len(datas))  # SubStreamsInfo
    h += b"\x09" + b"".join(num(len(d)) for d in datas[:-1])
    h += b"\x0a\x01" + b"".join(struct.pack("<I", zlib.crc32(d)) for d in datas) + b"\x00"
    h += b"\x00"
    h += b"\x05" + num(len(files))
    bits = 0
    for i, (_, d) in enumerate(files):
        if d is None:
            bits |= 0x80 >> i
    h += b"\x0e" + num(1) + bytes([bits])  # EmptyStream (no EmptyFile: the empty streams are directories)
    names = b"".join(n.encode("utf-16-le") + b"\x00\x00" for n, _ in files)
    h += b"\x11" + num(len(names) + 1) + b"\x00" + names
    attrs = b"".join(struct.pack("<I", 0x10 if d is None else 0x20) for _, d in files)
    h += b"\x15" + num(len(attrs) + 2) + b"\x01\x00" + attrs
    h += b"\x00\x00"
    start = struct.pack("<QQI", len(body), len(h), zlib.crc32(h))
    return b"7z\xbc\xaf\x27\x1c\x00\x04" + struct.pack("<I", zlib.crc32(start)) + start + body + h


def tree(d):
    res = set()
    for root, dirs, files in os.walk(d):
        for n in dirs:
            res.add(os.path.relpath(os.path.join(root, n), d) + "/")
        for n in files:
            res.add(os.path.relpath(os.path.join(root, n), d))
    return res


def main():
    tmp = tempfile.mkdtemp()
    problems = []
    try:
        arc = os.path.join(tmp, "t.7z")
        with open(arc, "wb") as fp:
            fp.write(build([("logs/", None), ("a.txt", b"A" * 40), ("b.txt", b"B" * 50)]))
        with py7zr.SevenZipFile(arc) as z:
            names = z.namelist()
            z.extractall(os.path.join(tmp, "full"))
        full = tree(os.path.join(tmp, "full"))
        if names != ["logs/", "a.txt", "b.txt"] or full != {"logs/", "a.txt", "b.txt"}:
            print("unexpected baseline", names, full)
            return 2
        for targets, expected in [
            (["logs/"], {"logs/"}),  # the member's own name, as namelist() reports it
            (["logs"], {"logs/"}),  # a trailing slash on a target is immaterial
            (set(names), full),  # all member names: must equal extractall
            (["logs/", "b.txt"], {"logs/", "b.txt"}),
        ]:
            for recursive in (False, True):
                out = os.path.join(tmp, "out")
                with py7zr.SevenZipFile(arc) as z:
                    z.extract(path=out, targets=targets, recursive=recursive)
                got = tree(out)
                shutil.rmtree(out)
                if got != expected:
                    problems.append(
                        f"targets={sorted(targets)!r} recursive={recursive}: created {sorted(got)}, "
                        f"extractall restricted to the targets gives {sorted(expected)}"
                    )
    finally:
        shutil.rmtree(tmp, ignore_errors=True)
    if problems:
        print("FAIL: the member stored as 'logs/' cannot be selected by extract():")
        for p in problems:
            print("  " + p)
        return 1
    print("PASS")
    return 0


if __name__ == "__main__":
    sys.exit(main())
