"""SevenZipFile(fileobj, 'a') on an existing archive whose file object is not positioned at offset 0 must append, not start over."""
import io, os, sys, tempfile
sys.path.insert(0, os.getcwd())
import py7zr
print("py7zr from", py7zr.__file__)
d = tempfile.mkdtemp()
p = os.path.join(d, "a.7z")
with py7zr.SevenZipFile(p, "w") as z:
    z.writestr(b"old content", "old.txt")
with open(p, "r+b") as fh:
    fh.seek(0, os.SEEK_END)          # e.g. a handle the application has been writing to / opened with 'a+b'
    with py7zr.SevenZipFile(fh, "a") as z:
        z.writestr(b"new content", "new.txt")
with py7zr.SevenZipFile(p) as z:
    names = z.getnames()
ok = names == ["old.txt", "new.txt"]
print("PASS" if ok else f"FAIL: after appending through a file object positioned at the end the archive lists {names}: the existing archive was overwritten")
sys.exit(0 if ok else 1)
