"""C20: an archive with several folders is decoded by one thread per folder, all at once, each with its own 128 MB chunks.

Four members of 0.5 GiB zeros, one folder each (the layout `7z a -ms=off` produces; here made with py7zr's append mode), LZMA2.
The archive is ~300 KB.  A single folder of this kind peaks at ~380 MiB above the baseline (3 copies of a 128 MB chunk); with
N folders Worker.extract() starts N threads without any cap, so the peak is N x 380 MiB: it grows with the number of folders
and passes the 700 MiB budget from the second big folder on.  Same for testzip() and extractall().

Run: cd /tmp/rt/HC20 && /venv/bin/python demo.py
"""
import io
import json
import os
import resource
import subprocess
import sys
import tempfile

sys.path.insert(0, os.getcwd())

BUDGET_MIB = 700
SIZE = 512 * 1024 * 1024
FOLDERS = 4
AS_LIMIT = 3 * 2**30  # safety net for the machine


class Zeros(io.BufferedIOBase):
    def __init__(self, size):
        self.size = size
        self.pos = 0

    def readable(self):
        return True

    def seekable(self):
        return True

    def tell(self):
        return self.pos

    def seek(self, off, whence=0):
        self.pos = off if whence == 0 else (self.pos + off if whence == 1 else self.size + off)
        return self.pos

    def read(self, n=-1):
        if n is None or n < 0:
            n = self.size - self.pos
        n = max(0, min(n, self.size - self.pos))
        self.pos += n
        return bytes(n)


def peak_mib():
    return resource.getrusage(resource.RUSAGE_SELF).ru_maxrss / 1024.0


def child(op, arc):
    resource.setrlimit(resource.RLIMIT_AS, (AS_LIMIT, AS_LIMIT))
    import py7zr
    from py7zr.io import NullIOFactory

    base = peak_mib()
    err = None
    info = None
    try:
        if op == "write":
            filters = [{"id": py7zr.FILTER_LZMA2, "preset": 0}]
            for i in range(FOLDERS):
                with py7zr.SevenZipFile(arc, "w" if i == 0 else "a", filters=filters) as z:
                    z.writef(Zeros(SIZE), f"big{i}.bin")
        else:
            with py7zr.SevenZipFile(arc, "r") as z:
                info = len(z.header.main_streams.unpackinfo.folders)
                if op == "testzip":
                    bad = z.testzip()
                    if bad is not None:
                        err = f"testzip reports {bad}"
                else:
                    z.extractall(factory=NullIOFactory())
    except BaseException as e:
        err = repr(e)[:200]
    print(json.dumps({"delta": peak_mib() - base, "err": err, "folders": info, "module": py7zr.__file__}))


def run(op, arc):
    r = subprocess.run([sys.executable, os.path.abspath(__file__), "child", op, arc], capture_output=True, text=True)
    try:
        return json.loads(r.stdout.strip().splitlines()[-1])
    except Exception:
        return {"delta": float("nan"), "err": "child died: " + r.stderr[-300:], "folders": None, "module": "?"}


def main():
    bad = []
    with tempfile.TemporaryDirectory() as d:
        arc = os.path.join(d, "folders.7z")
        w = run("write", arc)
        if w["err"]:
            print("FAIL: could not create the archive:", w["err"])
            sys.exit(1)
        print(f"archive: {os.path.getsize(arc)} bytes, {FOLDERS} members of {SIZE >> 20} MiB; write peak {w['delta']:.0f} MiB ({w['module']})")
        for op in ("testzip", "extractall"):
            x = run(op, arc)
            print(f"{op:10s}: {x['folders']} folders, peak above baseline {x['delta']:.0f} MiB" + (f" [{x['err']}]" if x["err"] else ""))
            if x["err"] or not x["delta"] <= BUDGET_MIB:
                bad.append(f"{op} {x['delta']:.0f} MiB" + (f" ({x['err']})" if x["err"] else ""))
    if bad:
        print(
            f"FAIL: peak memory grows with the number of folders (one unthrottled thread per folder, ~380 MiB each) and "
            f"exceeds the {BUDGET_MIB} MiB budget: " + "; ".join(bad)
        )
        sys.exit(1)
    print("PASS: within the budget")
    sys.exit(0)


if __name__ == "__main__":
    if len(sys.argv) > 1 and sys.argv[1] == "child":
        child(*sys.argv[2:4])
    else:
        main()
