"""C08: a base archive that protects its members with FOLDER CRCs (UnpackInfo.kCRC) and whose SubStreamsInfo
therefore carries no kCRC of its own (one member per folder; legal, a conforming reader hands the folder CRC down to
the member).  After an append session the CRC of every old member is gone from the archive: the main header is
re-written without folder digests (UnpackInfo.write(write_crcs=False)) and SubstreamsInfo._read never took the
folder CRC over because there was no kCRC record.  Checked with a small independent header parser."""
import io
import lzma
import os
import shutil
import struct
import sys
import tempfile
import zlib

sys.path.insert(0, os.getcwd())
import py7zr  # noqa: E402


def crc(b):
    return zlib.crc32(b) & 0xFFFFFFFF


def build(members):
    """members: [(name, data)], one Copy folder per member, folder CRCs defined, SubStreamsInfo present but empty."""
    n = len(members)
    datas = [d for _, d in members]
    body = b"".join(datas)
    h = io.BytesIO()
    h.write(b"\x01\x04")
    h.write(b"\x06\x00" + bytes([n]) + b"\x09" + bytes(len(d) for d in datas) + b"\x00")
    h.write(b"\x07\x0b" + bytes([n]) + b"\x00" + b"\x01\x01\x00" * n + b"\x0c" + bytes(len(d) for d in datas))
    h.write(b"\x0a\x01" + b"".join(struct.pack("<L", crc(d)) for d in datas) + b"\x00")  # folder CRCs, all defined
    h.write(b"\x08\x00")  # kSubStreamsInfo kEnd: one stream per folder, digests are the folder CRCs
    h.write(b"\x00")
    h.write(b"\x05" + bytes([n]))
    nb = b"".join(x.encode("utf-16-le") + b"\x00\x00" for x, _ in members)
    h.write(b"\x11" + bytes([len(nb) + 1]) + b"\x00" + nb)
    h.write(b"\x00\x00")
    hdr = h.getvalue()
    start = struct.pack("<QQL", len(body), len(hdr), crc(hdr))
    return b"7z\xbc\xaf\x27\x1c\x00\x04" + struct.pack("<L", crc(start)) + start + body + hdr


# ---------------------------------------------------------------- reference reader (header only)
def rd_u64(b):
    first = b.read(1)[0]
    mask, n = 0x80, 0
    while n < 8 and first & mask:
        n += 1
        mask >>= 1
    if n == 8:
        return int.from_bytes(b.read(8), "little")
    return int.from_bytes(b.read(n), "little") + ((first & (mask - 1)) << (8 * n))


def rd_bits(b, n):
    data = b.read((n + 7) // 8)
    return [bool(data[i // 8] & (0x80 >> (i % 8))) for i in range(n)]


def rd_defined(b, n):
    return [True] * n if b.read(1)[0] else rd_bits(b, n)


def streams_info(b):
    """Parse a StreamsInfo; returns (packpos, packsizes, folders[(method, props, unpacksize)], CRC of every substream)."""
    packpos, packsizes, folders, subcrc = 0, [], [], []
    pid = b.read(1)
    if pid == b"\x06":
        packpos = rd_u64(b)
        n = rd_u64(b)
        pid = b.read(1)
        if pid == b"\x09":
            packsizes = [rd_u64(b) for _ in range(n)]
            pid = b.read(1)
        if pid == b"\x0a":
            b.read(4 * sum(rd_defined(b, n)))
            pid = b.read(1)
        assert pid == b"\x00"
        pid = b.read(1)
    if pid == b"\x07":
        assert b.read(1) == b"\x0b"
        nf = rd_u64(b)
        assert b.read(1) == b"\x00"
        nouts = []
        for _ in range(nf):
            nc = rd_u64(b)
            nout = 0
            first = None
            for _ in range(nc):
                fb = b.read(1)[0]
                mid = b.read(fb & 0xF)
                ni = no = 1
                if fb & 0x10:
                    ni, no = rd_u64(b), rd_u64(b)
                props = b.read(rd_u64(b)) if fb & 0x20 else None
                nout += no
                first = first or (mid, props)
            for _ in range(nout - 1):
                rd_u64(b), rd_u64(b)
            nouts.append(nout)
            folders.append([first[0], first[1], None])
        assert b.read(1) == b"\x0c"
        for f, no in zip(folders, nouts):
            sizes = [rd_u64(b) for _ in range(no)]
            f[2] = sizes[-1]
        pid = b.read(1)
        fdef = [False] * nf
        fcrc = [None] * nf
        if pid == b"\x0a":
            fdef = rd_defined(b, nf)
            fcrc = [struct.unpack("<L", b.read(4))[0] if d else None for d in fdef]
            pid = b.read(1)
        assert pid == b"\x00"
        pid = b.read(1)
        nsub = [1] * nf
        dig = []
        if pid == b"\x08":
            pid = b.read(1)
            if pid == b"\x0d":
                nsub = [rd_u64(b) for _ in range(nf)]
                pid = b.read(1)
            if pid == b"\x09":
                for k in nsub:
                    for _ in range(max(k - 1, 0)):
                        rd_u64(b)
                pid = b.read(1)
            if pid == b"\x0a":
                need = sum(k for k, d in zip(nsub, fdef) if not (k == 1 and d))
                dig = [struct.unpack("<L", b.read(4))[0] if d else None for d in rd_defined(b, need)]
                pid = b.read(1)
            assert pid == b"\x00"
            pid = b.read(1)
        # a folder with exactly one substream hands its CRC down to it (7-Zip: ReadSubStreamsInfo)
        dig = iter(dig + [None] * sum(nsub))
        for k, c in zip(nsub, fcrc):
            subcrc += [c] if (k == 1 and c is not None) else [next(dig) for _ in range(k)]
    assert pid == b"\x00", pid
    return packpos, packsizes, folders, subcrc


def ref_member_crcs(raw):
    """CRC (or None) of every non-empty member, as a conforming reader derives it from the header."""
    assert raw[:6] == b"7z\xbc\xaf\x27\x1c" and crc(raw[12:32]) == struct.unpack("<L", raw[8:12])[0]
    ofs, size, hcrc = struct.unpack("<QQL", raw[12:32])
    hdr = raw[32 + ofs : 32 + ofs + size]
    assert crc(hdr) == hcrc
    b = io.BytesIO(hdr)
    pid = b.read(1)
    if pid == b"\x17":  # encoded header
        packpos, packsizes, folders, _ = streams_info(b)
        mid, props, unp = folders[0]
        assert mid == b"\x21", mid  # LZMA2, what py7zr writes
        p = props[0]
        flt = {"id": lzma.FILTER_LZMA2, "dict_size": 0xFFFFFFFF if p == 40 else (2 | (p & 1)) << (p // 2 + 11)}
        dec = lzma.LZMADecompressor(lzma.FORMAT_RAW, filters=[flt])
        b = io.BytesIO(dec.decompress(raw[32 + packpos : 32 + packpos + packsizes[0]], unp))
        pid = b.read(1)
    assert pid == b"\x01"
    assert b.read(1) == b"\x04"
    return streams_info(b)[3]


def main():
    print("py7zr from", py7zr.__file__)
    members = [("a.txt", b"alpha alpha"), ("b.txt", b"bravo"), ("c.txt", b"charlie charlie charlie")]
    expected = [crc(d) for _, d in members]
    problems = []
    td = tempfile.mkdtemp()
    try:
        for encoded in (False, True):
            path = os.path.join(td, "base.7z")
            with open(path, "wb") as f:
                f.write(build(members))
            with open(path, "rb") as f:
                assert ref_member_crcs(f.read()) == expected
            with py7zr.SevenZipFile(path, "a") as z:
                z.set_encoded_header_mode(encoded)
                z.writestr(b"appended", "new.txt")
            with py7zr.SevenZipFile(path, "r") as z:
                assert z.getnames() == [m[0] for m in members] + ["new.txt"]
            with open(path, "rb") as f:
                after = ref_member_crcs(f.read())
            if after[:3] != expected:
                problems.append(f"header encoded={encoded}: CRCs of the old members {expected} -> {after[:3]} (new member: {after[3:]})")
    finally:
        shutil.rmtree(td, ignore_errors=True)
    if problems:
        print("FAIL: the CRCs that protected the old members are gone after an append")
        for p in problems:
            print("   -", p)
        return 1
    print("PASS")
    return 0


if __name__ == "__main__":
    sys.exit(main())
