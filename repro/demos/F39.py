"""C06 demo 4: the bind pairs of a folder are parsed but never used; the decoder chain is taken from the
order in which the coders happen to be listed.

In the 7z format a folder is a graph: the coder records are nodes, every BindPair (InIndex, OutIndex)
connects the input of one coder to the output of another, the unbound input is the packed stream and the
unbound output is the folder's data.  The order of the coder records carries no meaning (7-Zip builds
its coder mixer from the bind pairs).  py7zr's own writer, and 7-Zip, list the coders in decoding order,
so SevenZipDecompressor simply runs coders[0], coders[1], ... and ignores Folder.bindpairs.  An
independent writer that lists the same chain in another order produces a valid archive which py7zr
 (a) cannot read at all (two coders listed filter first), or
 (b) decodes with the filters applied in the wrong order and returns wrong bytes without any error
     when the archive carries no CRCs (three coders).
"""
import io, lzma, os, struct, sys, zlib

sys.path.insert(0, os.getcwd())
import py7zr  # noqa: E402
from py7zr.io import BytesIOFactory  # noqa: E402


def num(v):
    if v < 0x80:
        return bytes([v])
    for n in range(1, 8):
        if v < (1 << (7 * n + 7)):
            return bytes([((0xFF << (8 - n)) & 0xFF) | (v >> (8 * n))]) + (v & ((1 << (8 * n)) - 1)).to_bytes(n, "little")
    return b"\xff" + v.to_bytes(8, "little")


def crc(b):
    return zlib.crc32(b) & 0xFFFFFFFF


def delta_encode(data, dist):
    return bytes((data[i] - (data[i - dist] if i >= dist else 0)) & 0xFF for i in range(len(data)))


def arm_encode(data):
    """ARM branch filter (LZMA SDK Bra.c, ARM_Convert with encoding=1, ip=0)."""
    out = bytearray(data)
    for i in range(0, len(out) - 3, 4):
        if out[i + 3] == 0xEB:
            src = (out[i + 2] << 16) | (out[i + 1] << 8) | out[i]
            dest = (((src << 2) + i + 8) >> 2) & 0xFFFFFF
            out[i], out[i + 1], out[i + 2] = dest & 0xFF, (dest >> 8) & 0xFF, (dest >> 16) & 0xFF
    return bytes(out)


LZMA2_FILTER = {"id": lzma.FILTER_LZMA2, "dict_size": 1 << 16}
LZMA2 = (b"\x21", lzma._encode_filter_properties(LZMA2_FILTER))
DELTA1 = (b"\x03", b"\x00")  # Delta, distance 1
ARM = (b"\x03\x03\x05\x01", None)


def build(members, packed, coders, bindpairs, with_crc):
    """coders: list of (id, props) in LISTING order; bindpairs: list of (in_index, out_index)."""
    raw_len = sum(len(d) for _, d in members)
    h = bytearray([0x01, 0x04])
    h += bytes([0x06]) + num(0) + num(1) + bytes([0x09]) + num(len(packed)) + bytes([0x00])
    h += bytes([0x07, 0x0B]) + num(1) + b"\x00" + num(len(coders))
    for cid, props in coders:
        h += bytes([len(cid) | (0x20 if props is not None else 0)]) + cid
        if props is not None:
            h += num(len(props)) + props
    for i, o in bindpairs:
        h += num(i) + num(o)
    # one packed stream: its index is implied (the only unbound input)
    h += bytes([0x0C]) + b"".join(num(raw_len) for _ in coders) + bytes([0x00])  # all coders keep the size
    h += bytes([0x08, 0x0D]) + num(len(members)) + bytes([0x09])
    for _, d in members[:-1]:
        h += num(len(d))
    if with_crc:
        h += bytes([0x0A, 0x01]) + b"".join(struct.pack("<L", crc(d)) for _, d in members)
    h += bytes([0x00, 0x00])
    h += bytes([0x05]) + num(len(members))
    names = b"\x00" + b"".join(n.encode("utf-16-le") + b"\x00\x00" for n, _ in members)
    h += bytes([0x11]) + num(len(names)) + names
    attrs = b"\x01\x00" + struct.pack("<L", 0x20) * len(members)
    h += bytes([0x15]) + num(len(attrs)) + attrs + bytes([0x00, 0x00])
    h = bytes(h)
    start = struct.pack("<QQL", len(packed), len(h), crc(h))
    return b"7z\xbc\xaf\x27\x1c\x00\x04" + struct.pack("<L", crc(start)) + start + packed + h


def read(blob):
    with py7zr.SevenZipFile(io.BytesIO(blob)) as z:
        fac = BytesIOFactory(1 << 20)
        z.extractall(factory=fac)
    got = {}
    for k, v in fac.products.items():
        v.seek(0)
        got[k] = v.read()
    return got


def main():
    print("py7zr from", py7zr.__file__)
    # ARM code: every fourth word is a BL instruction (0xEB in the top byte)
    code = b"".join(struct.pack("<L", (0xEB000000 | (i * 37 & 0xFFFFFF)) if i % 4 == 0 else (0xE1A00000 + i)) for i in range(400))
    members = [("code.bin", code), ("notes.txt", b"some text that follows the code\n" * 5)]
    raw = b"".join(d for _, d in members)
    failed = []

    # (a) chain Delta -> LZMA2 (encoding order); decoding: LZMA2 -> Delta
    packed_a = lzma.compress(delta_encode(raw, 1), lzma.FORMAT_RAW, filters=[LZMA2_FILTER])
    layouts_a = [
        ("control 2 coders, listed [LZMA2, Delta], bind (1<-0)", [LZMA2, DELTA1], [(1, 0)]),
        ("2 coders, listed [Delta, LZMA2], bind (0<-1)", [DELTA1, LZMA2], [(0, 1)]),
    ]
    # (b) chain ARM -> Delta -> LZMA2 (encoding order); decoding: LZMA2 -> Delta -> ARM
    packed_b = lzma.compress(delta_encode(arm_encode(raw), 1), lzma.FORMAT_RAW, filters=[LZMA2_FILTER])
    layouts_b = [
        ("control 3 coders, listed [LZMA2, Delta, ARM], bind (1<-0),(2<-1)", [LZMA2, DELTA1, ARM], [(1, 0), (2, 1)]),
        ("3 coders, listed [LZMA2, ARM, Delta], bind (2<-0),(1<-2), no CRCs", [LZMA2, ARM, DELTA1], [(2, 0), (1, 2)]),
    ]
    for packed, layouts, with_crc in ((packed_a, layouts_a, True), (packed_b, layouts_b, False)):
        for title, coders, pairs in layouts:
            try:
                got = read(build(members, packed, coders, pairs, with_crc))
                if got == dict(members):
                    print("  ok  :", title)
                else:
                    bad = [k for k, v in dict(members).items() if got.get(k) != v]
                    failed.append("%s: extraction succeeded but the bytes of %r are wrong" % (title, bad))
            except Exception as e:  # noqa
                failed.append("%s: %s: %s" % (title, type(e).__name__, e))
    if failed:
        print("FAIL: the coder graph given by the bind pairs is ignored")
        for f in failed:
            print("  -", f)
        return 1
    print("PASS")
    return 0


if __name__ == "__main__":
    sys.exit(main())
