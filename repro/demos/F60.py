"""A source that fails after part of it has been read still poisons the archive -- now silently (fix 0ad81ad).

0ad81ad unregisters the member when Worker.archive raises and re-raises, so the caller can go on
writing.  But the bytes that were read before the error have already gone through the folder's
compressor: they stay in the solid stream and in the folder's unpack size while no member accounts
for them.  Every member written afterwards gets the wrong offset/size; close() succeeds and the
archive is corrupt (CrcError on extraction).  Before the fix the failure was loud: the next write
archived the failed source again and raised, close() raised as well.
"""
import io
import os
import sys
import tempfile

sys.path.insert(0, os.getcwd())
import py7zr  # noqa: E402


class FailingReader(io.BufferedIOBase):
    """A 1 MB binary source whose medium fails after 40000 bytes (think EIO on a flaky disk / network file)."""

    size = 1_000_000
    fail_at = 40_000

    def __init__(self):
        self.pos = 0

    def readable(self):
        return True

    def seekable(self):
        return True

    def tell(self):
        return self.pos

    def seek(self, offset, whence=0):
        if whence == 0:
            self.pos = offset
        elif whence == 1:
            self.pos += offset
        else:
            self.pos = self.size + offset
        return self.pos

    def read(self, size=-1):
        if self.pos >= self.fail_at:
            raise OSError(5, "Input/output error")
        n = self.size - self.pos if size is None or size < 0 else min(size, self.size - self.pos)
        n = min(n, self.fail_at - self.pos)
        self.pos += n
        return b"\xa5" * n


def main():
    d = tempfile.mkdtemp()
    arc = os.path.join(d, "a.7z")
    first = b"first" * 1000
    third = b"third" * 1000
    z = py7zr.SevenZipFile(arc, "w")
    z.writestr(first, "first.txt")
    try:
        z.writef(FailingReader(), "bad.bin")
    except OSError:
        pass  # the application skips the unreadable source and carries on, which the fix is meant to allow
    else:
        print("FAIL: the read error was not reported")
        return 1
    problems = []
    try:
        z.writestr(third, "third.txt")
        z.close()
    except Exception as e:
        # also acceptable: refuse loudly instead of writing a damaged archive
        print("PASS: the archive refused to continue after the failed member (%r)" % (e,))
        return 0
    with py7zr.SevenZipFile(arc, "r") as r:
        names = r.getnames()
        bad = r.testzip()
    if names != ["first.txt", "third.txt"]:
        problems.append("members are %r" % (names,))
    if bad is not None:
        problems.append("testzip() reports damaged member %r" % (bad,))
    out = os.path.join(d, "out")
    try:
        with py7zr.SevenZipFile(arc, "r") as r:
            r.extractall(out)
        if open(os.path.join(out, "third.txt"), "rb").read() != third:
            problems.append("third.txt has wrong content")
    except Exception as e:
        problems.append("extractall raised %r" % (e,))
    if problems:
        print("FAIL: writef() of a source that failed mid-read raised OSError, the following writestr() and close() "
              "succeeded without any error, but the archive is corrupt: " + "; ".join(problems))
        return 1
    print("PASS: archive is consistent after a failed member")
    return 0


if __name__ == "__main__":
    sys.exit(main())
