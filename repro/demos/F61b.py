"""C13: the threaded path re-opens the archive by the *name it was opened with* instead of using the
open handle, so its result depends on the process' current directory at extraction time, while the
sequential path (and any single-folder archive) reads from the handle it already holds.

Sequence (a common idiom):   z = SevenZipFile("multi.7z"); os.chdir(dest); z.extractall()
  - 1-folder archive, or archive opened from a stream: extracts fine
  - 2..4-folder archive opened by relative name: every worker thread fails with FileNotFoundError,
    or - if the new directory holds another file of that name - decodes the *other* file's bytes
    with this archive's header.
"""
import os
import shutil
import sys
import tempfile

sys.path.insert(0, os.getcwd())
import py7zr  # noqa: E402

DATA = {"f0.bin": b"zero" * 1000, "f1.bin": b"one" * 1000, "f2.bin": b"two" * 1000}


def build(arc, data):
    for i, (name, d) in enumerate(data.items()):
        with py7zr.SevenZipFile(arc, "w" if i == 0 else "a") as z:
            z.writestr(d, name)


def tree(p):
    res = {}
    for n in sorted(os.listdir(p)):
        with open(os.path.join(p, n), "rb") as fh:
            res[n] = fh.read()
    return res


def attempt(label, opener, dest):
    os.makedirs(dest)
    try:
        z = opener()
        try:
            os.chdir(dest)
            z.extractall()
        finally:
            z.close()
        got = tree(dest)
        ok = got == DATA
        print("%-42s -> %s" % (label, "extracted correctly" if ok else "WRONG CONTENT %r" % {k: v[:8] for k, v in got.items()}))
        return ok
    except Exception as e:  # noqa
        print("%-42s -> raised %s: %s" % (label, type(e).__name__, e))
        return False


def main():
    print("py7zr from", py7zr.__file__)
    home = os.getcwd()
    tmp = tempfile.mkdtemp(prefix="hc13_3_")
    results = {}
    try:
        src = os.path.join(tmp, "src")
        os.makedirs(src)
        build(os.path.join(src, "multi.7z"), DATA)
        with py7zr.SevenZipFile(os.path.join(src, "multi.7z")) as z:
            assert z.header.main_streams.unpackinfo.numfolders == 3

        # sequential path: same relative name, but handed over as a stream
        os.chdir(src)
        fh = open("multi.7z", "rb")
        results["seq"] = attempt("sequential (stream), chdir before extractall", lambda: py7zr.SevenZipFile(fh), os.path.join(tmp, "d1"))
        fh.close()
        # threaded path: opened by the relative name
        os.chdir(src)
        results["thr"] = attempt("threads (by name), chdir before extractall", lambda: py7zr.SevenZipFile("multi.7z"), os.path.join(tmp, "d2"))
        # threaded path, destination holds an unrelated archive of the same name
        other = os.path.join(tmp, "d3")
        os.makedirs(other)
        build(os.path.join(other, "multi.7z"), {"f0.bin": b"ZERO" * 1000, "f1.bin": b"ONE" * 1000, "f2.bin": b"TWO" * 1000})
        os.chdir(src)
        z = py7zr.SevenZipFile("multi.7z")
        os.chdir(other)
        try:
            fac = py7zr.io.BytesIOFactory(1 << 20)
            z.extractall(factory=fac)
            got = {}
            for k, v in fac.products.items():
                v.seek(0)
                got[os.path.basename(k)] = v.read()
            ok = got == DATA
            print("%-42s -> %s" % ("threads, same name exists in new cwd", "extracted correctly" if ok else "content of the OTHER file: %r" % {k: v[:8] for k, v in got.items()}))
            results["thr_other"] = ok
        except Exception as e:  # noqa
            print("%-42s -> raised %s: %s" % ("threads, same name exists in new cwd", type(e).__name__, e))
            results["thr_other"] = False
        finally:
            z.close()
    finally:
        os.chdir(home)
        shutil.rmtree(tmp, ignore_errors=True)
    if not results["seq"]:
        print("FAIL (unexpected): the sequential reference did not work either")
        return 1
    if not (results["thr"] and results["thr_other"]):
        print("FAIL: the threaded path does not produce what the sequential path produces: its workers open the archive")
        print("      again by its (relative) name instead of reading the archive the SevenZipFile object has open")
        return 1
    print("PASS")
    return 0


if __name__ == "__main__":
    sys.exit(main())
