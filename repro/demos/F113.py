"""C01: with a small internal I/O block size PPMd members cannot be read back.

The property holds "whatever the internal I/O block size is" (py7zr.compressor.get_default_blocksize(), 1 MiB or 32 KiB
by default; the decoders read the packed stream in pieces of that size).  Every other codec copes with pieces of a few
bytes (the 7zAES decoder was repaired to buffer less than one cipher block), PPMd does not:

* PPMd alone, pieces of 1..4 bytes: the first piece is handed to pyppmd, which needs the 5 byte range coder preamble at once
  -> ValueError "Not enough data for starting decompression."
* PPMd behind 7zAES, pieces of 1..15 bytes: the AES stage returns b"" while it collects a cipher block; PpmdDecompressor
  takes empty input for "the packed stream is exhausted" and feeds the decoder a made-up NUL byte instead -> same error.
"""
import io
import os
import sys

sys.path.insert(0, os.getcwd())

import py7zr  # noqa: E402
import py7zr.compressor  # noqa: E402
from py7zr.io import BytesIOFactory  # noqa: E402

MEMBERS = [("doc/a.txt", b"hello world, hello world, hello world. " * 20), ("doc/b.bin", bytes(range(256)) * 3), ("c", b"x")]
PPMD = {"id": py7zr.FILTER_PPMD, "order": 6, "mem": 24}
AES = {"id": py7zr.FILTER_CRYPTO_AES256_SHA256}
LZMA2 = {"id": py7zr.FILTER_LZMA2, "preset": 1}


def roundtrip(filters, password, blocksize):
    bio = io.BytesIO()
    with py7zr.SevenZipFile(bio, "w", filters=filters, password=password) as z:
        for name, data in MEMBERS:
            z.writestr(data, name)
    bio.seek(0)
    saved = py7zr.compressor.get_default_blocksize
    py7zr.compressor.get_default_blocksize = lambda: blocksize
    try:
        with py7zr.SevenZipFile(bio, "r", password=password) as z:
            if z.getnames() != [m[0] for m in MEMBERS]:
                return "names differ"
            fac = BytesIOFactory(1 << 30)
            z.extractall(factory=fac)
        for name, data in MEMBERS:
            if fac.products[name].read() != data:
                return "content of %s differs" % name
        return None
    except Exception as e:
        return "%s: %s" % (type(e).__name__, e)
    finally:
        py7zr.compressor.get_default_blocksize = saved


def main():
    problems = []
    cases = [
        ("LZMA2+7zAES (control)", [LZMA2, AES], "pw", 7),
        ("PPMd (control)", [PPMD], None, 5),
        ("PPMd", [PPMD], None, 4),
        ("PPMd", [PPMD], None, 1),
        ("PPMd+7zAES", [PPMD, AES], "pw", 15),
        ("PPMd+7zAES", [PPMD, AES], "pw", 7),
        ("BCJ+PPMd", [{"id": py7zr.FILTER_X86}, PPMD], None, 3),
    ]
    for label, filters, password, blocksize in cases:
        r = roundtrip(filters, password, blocksize)
        print("%-22s block size %2d -> %s" % (label, blocksize, r or "ok"))
        if r:
            problems.append((label, blocksize, r))
    if problems:
        print("FAIL: PPMd members are not read back when the packed stream arrives in small pieces: %r" % (problems,))
        return 1
    print("PASS")
    return 0


if __name__ == "__main__":
    sys.exit(main())
