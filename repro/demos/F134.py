"""F134: a file whose name is nothing but a drive prefix ('C:') was stored as the FILE member '.' by writeall('.'): the archive could not be extracted"""
import os, sys, tempfile, shutil
sys.path.insert(0, os.getcwd())
import py7zr
tmp = tempfile.mkdtemp(prefix="f134_")
old = os.getcwd()
try:
    src = os.path.join(tmp, "src"); os.mkdir(src)
    open(os.path.join(src, "C:"), "w").write("hi")
    open(os.path.join(src, "plain.txt"), "w").write("x")
    arc = os.path.join(tmp, "a.7z")
    os.chdir(src)
    try:
        with py7zr.SevenZipFile(arc, "w") as z:
            z.writeall(".")
    except ValueError as e:
        print("PASS: the name is refused loudly:", e); sys.exit(0)
    finally:
        os.chdir(old)
    with py7zr.SevenZipFile(arc) as z:
        names = z.getnames()
        try:
            z.extractall(os.path.join(tmp, "out"))
        except Exception as e:
            print(f"FAIL: members {names}: the archive writeall() produced cannot be extracted: {type(e).__name__}: {e}"); sys.exit(1)
    got = sorted(os.listdir(os.path.join(tmp, "out")))
    if got != ["C:", "plain.txt"]:
        print("FAIL: extracted", got, "from members", names); sys.exit(1)
    print("PASS")
finally:
    os.chdir(old); shutil.rmtree(tmp, ignore_errors=True)
