"""a valid archive whose FilesInfo carries a kStartPos (0x18) record must be readable."""
import io, os, struct, sys, zlib
sys.path.insert(0, os.getcwd())
import py7zr
print("py7zr from", py7zr.__file__)
b = io.BytesIO()
with py7zr.SevenZipFile(b, "w") as z:
    z.set_encoded_header_mode(False)
    z.writestr(b"payload" * 10, "one.txt")
raw = bytearray(b.getvalue())
ofs, size, crc = struct.unpack("<QQL", raw[12:32])
hdr = bytes(raw[32 + ofs: 32 + ofs + size])
assert hdr.endswith(b"\x00\x00") and zlib.crc32(hdr) & 0xFFFFFFFF == crc
rec = b"\x18" + bytes([1 + 1 + 8]) + b"\x01" + b"\x00" + struct.pack("<Q", 0)   # kStartPos, size, all defined, not external, one value
hdr2 = hdr[:-2] + rec + b"\x00\x00"
start = struct.pack("<QQL", ofs, len(hdr2), zlib.crc32(hdr2) & 0xFFFFFFFF)
out = bytes(raw[:8]) + struct.pack("<L", zlib.crc32(start) & 0xFFFFFFFF) + start + bytes(raw[32:32 + ofs]) + hdr2
try:
    with py7zr.SevenZipFile(io.BytesIO(out)) as z:
        names = z.getnames()
        data = z.readall() if hasattr(z, "readall") else None
    ok = names == ["one.txt"]
    print("PASS" if ok else f"FAIL: names {names}")
    sys.exit(0 if ok else 1)
except Exception as e:
    print(f"FAIL: a valid archive with a kStartPos record cannot be opened: {type(e).__name__}: {e}")
    sys.exit(1)
