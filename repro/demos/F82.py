"""C18: `py7zr x --verbose` loses the tail of the progress account when the consumer of its output is slow.

Cli.run_extract() calls extractall(callback=CliExtractCallback(...)) and returns without ever closing the archive.
Events are only guaranteed to be delivered by close() (it posts the sentinel and joins the reporter); the reporter is
a daemon thread, so when its handler blocks briefly (stderr is a pipe/terminal that is read slowly) the main thread
finishes the extraction, the interpreter exits and every event still queued is dropped: members are extracted but
never listed.
"""
import os
import sys

sys.path.insert(0, os.getcwd())
import shutil
import subprocess
import tempfile
import time

import py7zr

N = 1500


def main():
    d = tempfile.mkdtemp()
    try:
        arc = os.path.join(d, "a.7z")
        with py7zr.SevenZipFile(arc, "w") as z:
            for i in range(N):
                z.writestr(b"x" * 10, "f%05d.txt" % i)
        out = os.path.join(d, "o")
        env = dict(os.environ, PYTHONPATH=os.getcwd(), COLUMNS="80")
        p = subprocess.Popen(
            [sys.executable, "-m", "py7zr", "x", "--verbose", arc, out], stderr=subprocess.PIPE, stdout=subprocess.DEVNULL, env=env
        )
        # a slow consumer: look at the output only after the members are on disk (the handler's write blocks meanwhile,
        # the pipe holds 64 KiB, the listing is ~80 bytes per member)
        t0 = time.time()
        while time.time() - t0 < 50:
            if p.poll() is not None:
                break
            if os.path.isdir(out) and len(os.listdir(out)) >= N:
                time.sleep(1.0)
                break
            time.sleep(0.05)
        err = p.stderr.read().decode("utf-8", "replace")
        rc = p.wait()
        listed = sum(1 for line in err.splitlines() if line.startswith("- f"))
        extracted = len(os.listdir(out))
        print("exit code %d, %d members extracted, %d members listed (start+end event pairs printed)" % (rc, extracted, listed))
        if extracted != N:
            print("unexpected: extraction incomplete")
            return 2
        if listed != N:
            print(
                "FAIL: the command exited while %d members' events were still queued: the archive is never closed, so the "
                "daemon reporter thread was killed with the interpreter" % (N - listed)
            )
            return 1
        print("PASS")
        return 0
    finally:
        shutil.rmtree(d, ignore_errors=True)


if __name__ == "__main__":
    sys.exit(main())
