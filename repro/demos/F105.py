"""C10: listing an archive in a write/append session ('create vs append', 'list after write').

The members a session has just added are listed from the stat() of their source instead of from what was archived:
_make_file_info() puts "uncompressed" = st_size for regular files only, Worker.archive() never stores the number of
bytes it really compressed.  So, before close():
  * a directory and a symbolic link (stored as its target text) are listed with uncompressed == None although the
    archive holds 0 / len(target) bytes for them (with dereference=True even a link to a regular file gets None on
    POSIX; the Windows branch sets it);
  * archiveinfo() raises TypeError (int + None) as soon as one such member was added - also in mode 'a', where the
    members read from the old archive are fine and only the appended ones break the summary;
  * a file whose st_size is not its content length (/proc files, a file that grows) is listed with the stat size.
After close() and re-open the same members are listed correctly, so the two listings of one archive disagree.
"""
import os
import shutil
import sys
import tempfile
import zlib

sys.path.insert(0, os.getcwd())
import py7zr  # noqa: E402

problems = []
tmp = tempfile.mkdtemp(prefix="c10_ws_")
try:
    src = os.path.join(tmp, "src")
    os.makedirs(os.path.join(src, "sub"))
    with open(os.path.join(src, "file.txt"), "wb") as f:
        f.write(b"hello world\n" * 10)
    os.symlink("file.txt", os.path.join(src, "link"))
    arc = os.path.join(tmp, "a.7z")
    with py7zr.SevenZipFile(arc, "w") as z:
        z.writestr(b"first member", "first.txt")

    def snapshot(z):
        return [(e.filename, e.uncompressed, e.crc32, e.is_directory) for e in z.list()]

    for mode in ("a", "w"):
        target = arc if mode == "a" else os.path.join(tmp, "w.7z")
        z = py7zr.SevenZipFile(target, mode)
        try:
            z.write(os.path.join(src, "file.txt"), "file.txt")
            z.write(os.path.join(src, "sub"), "sub")
            z.write(os.path.join(src, "link"), "link")
            in_session = snapshot(z)
            try:
                total_in_session = z.archiveinfo().uncompressed
            except Exception as e:  # noqa
                total_in_session = e
        finally:
            z.close()
        with py7zr.SevenZipFile(target) as z:
            reopened = snapshot(z)
            total = z.archiveinfo().uncompressed
            out = os.path.join(tmp, "out_" + mode)
            z.extractall(out)
        # what extraction produced
        assert open(os.path.join(out, "file.txt"), "rb").read() == b"hello world\n" * 10
        assert os.path.isdir(os.path.join(out, "sub")) and os.readlink(os.path.join(out, "link")) == "file.txt"
        for a, b in zip(in_session, reopened):
            if a != b:
                problems.append(f"mode {mode!r}: listed before close() as {a}, the archive holds {b}")
        if total_in_session != total:
            problems.append(f"mode {mode!r}: archiveinfo().uncompressed before close(): {total_in_session!r}, the archive holds {total}")

    # a source whose stat size is not its length
    proc = "/proc/version"
    if os.path.isfile(proc) and os.stat(proc).st_size == 0:
        content = open(proc, "rb").read()
        z = py7zr.SevenZipFile(os.path.join(tmp, "p.7z"), "w")
        try:
            z.write(proc, "version")
            e = z.list()[0]
            if e.uncompressed != len(content) and e.crc32 == (zlib.crc32(content) & 0xFFFFFFFF):
                problems.append(f"{proc}: listed before close() with uncompressed={e.uncompressed}, {len(content)} bytes were archived (the CRC listed is theirs)")
        finally:
            z.close()
finally:
    shutil.rmtree(tmp, ignore_errors=True)

if problems:
    print("FAIL: the listing of a write/append session does not describe what was archived")
    for p in problems:
        print("  -", p)
    sys.exit(1)
print("PASS")
