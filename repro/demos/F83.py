"""C20: a member that carries the symbolic-link attribute is decoded completely into memory, whatever size it declares.

The archive (78 KB, LZMA2) holds one member of 0.5 GiB whose attributes say "symbolic link" (UNIX extension S_IFLNK plus
REPARSE_POINT - the attributes py7zr itself writes for links; only the size is unusual).  extractall(path) sends link members
through io.BytesIO(), then .read() and .decode(): three more copies of the whole member on top of the 128 MB chunks, so the
peak is several times the declared size of the member instead of a fixed budget.  The size of a link target is never checked
before decoding.

Run: cd /tmp/rt/HC20 && /venv/bin/python demo.py
"""
import io
import json
import os
import resource
import stat
import subprocess
import sys
import tempfile

sys.path.insert(0, os.getcwd())

BUDGET_MIB = 700
SIZE = 512 * 1024 * 1024
AS_LIMIT = int(2.5 * 2**30)  # safety net for the machine: the child gets a MemoryError instead of taking more


class Zeros(io.BufferedIOBase):
    def __init__(self, size):
        self.size = size
        self.pos = 0

    def readable(self):
        return True

    def seekable(self):
        return True

    def tell(self):
        return self.pos

    def seek(self, off, whence=0):
        self.pos = off if whence == 0 else (self.pos + off if whence == 1 else self.size + off)
        return self.pos

    def read(self, n=-1):
        if n is None or n < 0:
            n = self.size - self.pos
        n = max(0, min(n, self.size - self.pos))
        self.pos += n
        return bytes(n)


def peak_mib():
    return resource.getrusage(resource.RUSAGE_SELF).ru_maxrss / 1024.0


def child(op, arc):
    resource.setrlimit(resource.RLIMIT_AS, (AS_LIMIT, AS_LIMIT))
    import py7zr
    from py7zr.py7zr import FILE_ATTRIBUTE_UNIX_EXTENSION

    base = peak_mib()
    err = None
    info = None
    try:
        if op == "write":
            with py7zr.SevenZipFile(arc, "w", filters=[{"id": py7zr.FILTER_LZMA2, "preset": 0}]) as z:
                z.writef(Zeros(SIZE), "link")
                # the attributes SevenZipFile._make_file_info() gives a symbolic link
                z.header.files_info.files[-1]["attributes"] = (
                    stat.FILE_ATTRIBUTE_ARCHIVE
                    | stat.FILE_ATTRIBUTE_REPARSE_POINT
                    | FILE_ATTRIBUTE_UNIX_EXTENSION
                    | ((stat.S_IFLNK | 0o777) << 16)
                )
        else:
            with py7zr.SevenZipFile(arc, "r") as z:
                info = [(f.filename, f.is_symlink, f.uncompressed) for f in z.files]
                with tempfile.TemporaryDirectory() as out:
                    z.extractall(out)
    except BaseException as e:
        err = repr(e)[:200]
    print(json.dumps({"delta": peak_mib() - base, "err": err, "info": info, "module": py7zr.__file__}))


def run(op, arc):
    r = subprocess.run([sys.executable, os.path.abspath(__file__), "child", op, arc], capture_output=True, text=True)
    try:
        return json.loads(r.stdout.strip().splitlines()[-1])
    except Exception:
        return {"delta": float("nan"), "err": "child died: " + r.stderr[-300:], "info": None, "module": "?"}


def main():
    with tempfile.TemporaryDirectory() as d:
        arc = os.path.join(d, "link.7z")
        w = run("write", arc)
        if w["err"]:
            print("FAIL: could not create the archive:", w["err"])
            sys.exit(1)
        arcsize = os.path.getsize(arc)
        print(f"archive: {arcsize} bytes; write peak {w['delta']:.0f} MiB ({w['module']})")
        x = run("extract", arc)
    print(f"members (name, is_symlink, size): {x['info']}")
    print(f"extractall(path): peak above baseline {x['delta']:.0f} MiB, outcome: {x['err']}")
    # Refusing such a member (or streaming it) is fine; what counts is the memory taken before that.
    if not x["delta"] <= BUDGET_MIB or (x["err"] or "").startswith("MemoryError"):
        print(
            f"FAIL: an archive of {arcsize} bytes made extractall() take "
            f"{x['delta']:.0f} MiB (> {BUDGET_MIB} MiB): a link member is buffered whole in io.BytesIO and copied by read()/decode()"
        )
        sys.exit(1)
    print("PASS: within the budget")
    sys.exit(0)


if __name__ == "__main__":
    if len(sys.argv) > 1 and sys.argv[1] == "child":
        child(*sys.argv[2:4])
    else:
        main()
