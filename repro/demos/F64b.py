"""C11: without the password nothing is delivered - extracting raises PasswordRequired.

An encrypted archive (default LZMA2+7zAES chain, plain header) is extracted without a password.
extractall() raises PasswordRequired, but only after it has opened the first member's output file for
writing: a new empty file appears under the member's name, and a correct copy that was already there
(from an earlier extraction with the password) is truncated to 0 bytes.  That the archive needs a password
is known when it is opened (needs_password() is True), before any output is touched.
"""
import os
import shutil
import sys
import tempfile

import py7zr
from py7zr.exceptions import PasswordRequired

CONTENT = b"TOP-SECRET-PLAINTEXT-0123456789-abcdefghijklmnopqrstuvwxyz\n" * 4
NAME = "secret_report.txt"
PASSWORD = "pässw\U0001F600rd"


def main() -> int:
    problems = []
    tmp = tempfile.mkdtemp(prefix="c11_nopw_")
    try:
        arc = os.path.join(tmp, "enc.7z")
        with py7zr.SevenZipFile(arc, "w", password=PASSWORD) as z:
            z.writestr(CONTENT, NAME)
            z.writestr(CONTENT[::-1], "second_member.txt")

        # (a) fresh directory
        fresh = os.path.join(tmp, "fresh")
        raised = None
        try:
            with py7zr.SevenZipFile(arc) as z:
                assert z.needs_password()
                z.extractall(fresh)
        except PasswordRequired:
            raised = "PasswordRequired"
        except Exception as e:
            raised = type(e).__name__
        if raised != "PasswordRequired":
            problems.append(f"extractall without a password: expected PasswordRequired, got {raised}")
        delivered = []
        for root, _dirs, files in os.walk(fresh):
            delivered += [os.path.relpath(os.path.join(root, f), fresh) for f in files]
        if delivered:
            problems.append(f"{raised} was raised, yet the output directory now holds {delivered} (empty files)")

        # (b) directory that already holds the correct files
        again = os.path.join(tmp, "again")
        with py7zr.SevenZipFile(arc, password=PASSWORD) as z:
            z.extractall(again)
        assert open(os.path.join(again, NAME), "rb").read() == CONTENT
        try:
            with py7zr.SevenZipFile(arc) as z:
                z.extractall(again)
        except PasswordRequired:
            pass
        got = open(os.path.join(again, NAME), "rb").read()
        if got != CONTENT:
            problems.append(
                f"the correct copy of {NAME!r} ({len(CONTENT)} bytes) was truncated to {len(got)} bytes "
                "by an extraction that had no password"
            )
    finally:
        shutil.rmtree(tmp, ignore_errors=True)
    if problems:
        print("FAIL: extraction without the password touches the output before raising PasswordRequired")
        for p in problems:
            print("  -", p)
        return 1
    print("PASS: without the password nothing is delivered and nothing is destroyed")
    return 0


if __name__ == "__main__":
    sys.exit(main())
