"""
c91833b claims that extraction no longer overwrites the archive that is being read.  The identity test is made once, at
planning time, on the textual output path (outfilename.exists() and samestat).  A path that reaches the archive through a
link which the SAME extraction creates does not exist yet when the plan is made, so the test passes and the worker opens
the archive itself with mode "wb" a moment later.  (The worker already re-checks containment at write time for exactly
this reason - "links extracted before may redirect the path" - but not the identity.)  Since 5933174 a decoder error that
follows is answered with fileish.unlink(), i.e. the archive can even be deleted.
"""
import os
import pathlib
import sys
import tempfile

sys.path.insert(0, os.getcwd())
import py7zr  # noqa: E402


def main() -> int:
    with tempfile.TemporaryDirectory() as td:
        td = pathlib.Path(td)
        work = td / "work"
        work.mkdir()
        src = td / "src"
        src.mkdir()
        os.symlink(".", src / "d")  # a link that stays inside the target directory: allowed
        arc = work / "backup.7z"
        with py7zr.SevenZipFile(arc, "w") as z:
            z.write(src / "d", "d")
            z.writestr(b"payload" * 1000, "d/backup.7z")  # leads to work/backup.7z once 'd' exists
        image = arc.read_bytes()
        outcome = "extractall returned normally"
        try:
            with py7zr.SevenZipFile(arc, "r") as z:
                z.extractall(work)
        except py7zr.exceptions.ArchiveError as e:
            outcome = f"{type(e).__name__}: {e}"
        intact = arc.exists() and arc.read_bytes() == image
        if not intact:
            state = "deleted" if not arc.exists() else f"replaced by {arc.stat().st_size} bytes of member data"
            print(f"FAIL: {outcome}; the archive that was being read has been {state}")
            print("      member 'd/backup.7z' reaches the archive through the link member 'd' -> '.', which did not exist when")
            print("      _extract() made its identity test, so the worker opened the archive with 'wb'")
            return 1
        print(f"PASS: {outcome}; the archive is untouched")
        return 0


if __name__ == "__main__":
    sys.exit(main())
