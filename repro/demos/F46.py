"""7zAES coder properties of ONE byte (cycles only: no salt, no IV - legal, flags 0x80/0x40 clear) must be accepted: the IV is all zeros."""
import os, sys
sys.path.insert(0, os.getcwd())
import py7zr
from py7zr.compressor import AESDecompressor
from py7zr.helpers import calculate_key
from Cryptodome.Cipher import AES
print("py7zr from", py7zr.__file__)
pw, cycles = "secret", 6
key = calculate_key(pw.encode("utf-16LE"), cycles, b"", "sha256")
plain = bytes(range(256)) * 2
enc = AES.new(key, AES.MODE_CBC, bytes(16)).encrypt(plain)
try:
    d = AESDecompressor(bytes([cycles]), pw)
    out = d.decompress(enc) + d.decompress(b"")
except Exception as e:
    print(f"FAIL: one-byte 7zAES properties are refused: {type(e).__name__}: {e}")
    sys.exit(1)
ok = out[:len(plain)] == plain
print("PASS" if ok else "FAIL: wrong plaintext for one-byte 7zAES properties")
sys.exit(0 if ok else 1)
