"""C09: output to a WriterFactory must deliver the same members as output to a directory.
For an archive with several folders opened by file name with mp=True the folders are decoded in child
processes; the MemIO objects registered for the targets are filled in the children, so the caller's
factory receives nothing (and no error is raised). Directory output of the same call works."""
import os
import sys

sys.path.insert(0, os.getcwd())
import shutil
import tempfile

import py7zr
from py7zr.io import BytesIOFactory

SESSIONS = [
    [("a.txt", b"a" * 3000), ("dir/b.bin", b"b" * 70000)],
    [("c.dat", b"c" * 100), ("dir/d", b"d" * 9)],
]
TARGETS = ["dir/b.bin", "c.dat", "absent"]


def main():
    tmp = tempfile.mkdtemp()
    problems = []
    try:
        arc = os.path.join(tmp, "t.7z")
        for i, session in enumerate(SESSIONS):  # every append session makes a folder of its own
            with py7zr.SevenZipFile(arc, "w" if i == 0 else "a") as z:
                for name, data in session:
                    z.writestr(data, name)
        contents = dict(m for s in SESSIONS for m in s)
        expected = {t: contents[t] for t in TARGETS if t in contents}

        # reference: directory output with mp=True delivers the targets
        out = os.path.join(tmp, "out")
        with py7zr.SevenZipFile(arc, mp=True) as z:
            z.extract(path=out, targets=TARGETS)
        ondisk = {}
        for root, _, files in os.walk(out):
            for n in files:
                p = os.path.join(root, n)
                ondisk[os.path.relpath(p, out)] = open(p, "rb").read()
        if ondisk != expected:
            problems.append(f"mp=True directory output: {sorted(ondisk)} != {sorted(expected)}")

        for mp in (False, True):
            for tg in (TARGETS, set(TARGETS)):
                fac = BytesIOFactory(1 << 30)
                with py7zr.SevenZipFile(arc, mp=mp) as z:
                    z.extract(targets=tg, factory=fac)
                got = {}
                for k, v in fac.products.items():
                    v.seek(0)
                    got[k] = v.read()
                if got != expected:
                    problems.append(
                        f"mp={mp} factory output, targets as {type(tg).__name__}: delivered "
                        f"{ {k: len(v) for k, v in got.items()} }, expected { {k: len(v) for k, v in expected.items()} }"
                    )
    finally:
        shutil.rmtree(tmp, ignore_errors=True)
    if problems:
        print("FAIL: extract(targets, factory=...) does not deliver the selected members:")
        for p in problems:
            print("  " + p)
        return 1
    print("PASS")
    return 0


if __name__ == "__main__":
    sys.exit(main())
