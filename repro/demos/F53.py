#!/usr/bin/env python
"""C05 demo 6: read_utf16() does not notice the end of its buffer: once the kNames data is used up it keeps calling
read(2) 65536 times for EVERY remaining declared file.  An archive of 48 bytes that declares 20,000 files
and an (almost) empty kNames record keeps SevenZipFile() busy for 1.3e9 loop iterations (minutes).

Run as:  cd <worktree> && python demo.py
"""
import os
import struct
import subprocess
import sys
import tempfile
import zlib

sys.path.insert(0, os.getcwd())

MAGIC = b"7z\xbc\xaf\x27\x1c"
WATCHDOG = 15


def u64(v):
    if v < 0x80:
        return bytes([v])
    for n in range(1, 8):
        if v < (1 << (8 * n + (7 - n))):
            return bytes([((0xFF << (8 - n)) & 0xFF) | (v >> (8 * n))]) + (v & ((1 << (8 * n)) - 1)).to_bytes(n, "little")
    return b"\xff" + v.to_bytes(8, "little")


def crc(b):
    return zlib.crc32(b) & 0xFFFFFFFF


def archive(numfiles, names):
    """No streams at all, FilesInfo declares `numfiles` members; kNames holds only `names`."""
    body = b"\x00" + b"".join(n.encode("utf-16le") + b"\x00\x00" for n in names)
    fi = b"\x05" + u64(numfiles) + b"\x11" + u64(len(body)) + body + b"\x00"
    hdr = b"\x01" + fi + b"\x00"
    start = struct.pack("<QQL", 0, len(hdr), crc(hdr))
    return MAGIC + b"\x00\x04" + struct.pack("<L", crc(start)) + start + hdr


CHILD = r"""
import sys, os, time
sys.path.insert(0, os.getcwd())
import py7zr
t0 = time.time()
try:
    z = py7zr.SevenZipFile(sys.argv[1], "r")
    print("returned after %.2f s, %d members" % (time.time() - t0, len(z.getnames())))
except Exception as e:
    print("raised after %.2f s: %s %s" % (time.time() - t0, type(e).__name__, str(e)[:80]))
"""


def run(data):
    fd, path = tempfile.mkstemp(suffix=".7z")
    os.write(fd, data)
    os.close(fd)
    try:
        r = subprocess.run([sys.executable, "-c", CHILD, path], capture_output=True, text=True, timeout=WATCHDOG)
        return r.stdout.strip() or ("exit status %d: %s" % (r.returncode, r.stderr.strip()[-200:]))
    except subprocess.TimeoutExpired:
        return None
    finally:
        os.unlink(path)


def main():
    import py7zr

    print("py7zr from", py7zr.__file__)
    good = archive(3, ["d1", "d2", "d3"])
    ref = run(good)
    print("3 members with 3 names (%d bytes): %s" % (len(good), ref))
    if ref is None or not ref.startswith("returned"):
        print("FAIL: reference archive is not accepted, demo is not meaningful")
        return 1
    bad = archive(20000, ["d1"])
    res = run(bad)
    print("20000 declared members, names for 1 (%d bytes): %s" % (len(bad), res if res else "NO ANSWER within %d s" % WATCHDOG))
    if res is None:
        print("FAIL: SevenZipFile() on a %d-byte archive did not finish within %d s: read_utf16 polls an exhausted buffer 65536 times per declared file" % (len(bad), WATCHDOG))
        return 1
    print("PASS: a names record that ends early is noticed at once")
    return 0


if __name__ == "__main__":
    sys.exit(main())
