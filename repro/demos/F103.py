"""C02: a relative symbolic link whose target lies inside the tree, but whose text reaches it through another
symbolic link to a directory ('s/../../../t' with s -> a/b/c/d), is refused on extraction:
Worker._extract_single vets the link with helpers.is_path_valid(), which collapses 'link/..' TEXTUALLY
(canonical_path) and so believes the target is outside the target directory. extractall() raises
Bad7zFile('Symlink point out of target directory.') and the link and every member behind it are missing."""
import os
import pathlib
import shutil
import stat
import sys
import tempfile

sys.path.insert(0, os.getcwd())
import py7zr  # noqa: E402


def snapshot(root):
    res = {}
    for dp, dn, fn in os.walk(root):
        for n in dn + fn:
            p = os.path.join(dp, n)
            rel = os.path.relpath(p, root)
            st = os.lstat(p)
            if stat.S_ISLNK(st.st_mode):
                res[rel] = ("link", os.readlink(p))
            elif stat.S_ISDIR(st.st_mode):
                res[rel] = ("dir",)
            else:
                res[rel] = ("file", open(p, "rb").read())
    return res


def build(src: pathlib.Path) -> None:
    # depth 5: src/a/b/c/d
    (src / "a" / "b" / "c" / "d").mkdir(parents=True)
    (src / "a" / "t").write_bytes(b"the target\n")
    (src / "zz_after").write_bytes(b"a member archived after the link\n")
    os.symlink("a/b/c/d", src / "s")  # sideways link to a directory
    # upward-but-inside: s/.. = src/a/b/c, /.. = src/a/b, /.. = src/a, then t  ->  src/a/t
    os.symlink("s/../../../t", src / "u")
    assert (src / "u").read_bytes() == b"the target\n"  # the target exists ...
    assert os.path.realpath(src / "u") == os.path.realpath(src / "a" / "t")  # ... inside the tree


def main() -> int:
    work = pathlib.Path(tempfile.mkdtemp(prefix="hd02_1_"))
    cwd = os.getcwd()
    problems = []
    try:
        src = work / "src"
        build(src)
        want = snapshot(src)
        os.chdir(work)
        # entry point 1: writeall + extractall
        with py7zr.SevenZipFile(work / "t1.7z", "w") as z:
            z.writeall("src")
        try:
            with py7zr.SevenZipFile(work / "t1.7z", "r") as z:
                z.extractall(work / "out1")
        except Exception as e:  # noqa
            problems.append(f"writeall/extractall: {type(e).__name__}: {e}")
        got = snapshot(work / "out1" / "src") if (work / "out1" / "src").is_dir() else {}
        if got != want:
            problems.append(f"writeall/extractall: missing after extraction: {sorted(set(want) - set(got))}")
        # entry point 2: pack_7zarchive + unpack_7zarchive (tree root == extraction directory); a shallower shape is enough
        src2 = work / "src2"
        (src2 / "a" / "b").mkdir(parents=True)
        (src2 / "a" / "t").write_bytes(b"T")
        os.symlink("a/b", src2 / "s")
        os.symlink("s/../t", src2 / "ok")  # one '..' through the link: src2/a/t, textually src2/t (inside, accepted)
        os.symlink("s/../../a/t", src2 / "u")  # really src2/a/t; textually above the root
        assert (src2 / "u").read_bytes() == b"T"
        want2 = snapshot(src2)
        os.chdir(src2)
        py7zr.pack_7zarchive(str(work / "t2"), ".")
        os.chdir(work)
        try:
            py7zr.unpack_7zarchive(str(work / "t2.7z"), str(work / "out2"))
        except Exception as e:  # noqa
            problems.append(f"pack_7zarchive/unpack_7zarchive: {type(e).__name__}: {e}")
        got2 = snapshot(work / "out2") if (work / "out2").is_dir() else {}
        if got2 != want2:
            problems.append(f"pack/unpack: missing after extraction: {sorted(set(want2) - set(got2))}")
    finally:
        os.chdir(cwd)
        shutil.rmtree(work, ignore_errors=True)
    if problems:
        print("FAIL: a tree with a relative link that resolves (through a linked directory) to a file inside the tree is not reproduced:")
        for p in problems:
            print("   ", p)
        return 1
    print("PASS")
    return 0


if __name__ == "__main__":
    sys.exit(main())
