"""Opening an archive by an ABSOLUTE path fails when the working directory of the process no longer exists.

0f8908c replaced open(os.path.abspath(file)) by open(os.path.join(os.getcwd(), file)).  os.path.abspath() only asks for
the working directory when the name is relative; os.getcwd() is now called unconditionally, and it raises
FileNotFoundError when the working directory has been removed (a daemon / worker whose temp dir was cleaned up).
The original code (open(file)) and 7742819 (abspath) both open an absolute name without looking at the cwd.
"""
import os
import shutil
import sys
import tempfile

sys.path.insert(0, os.getcwd())  # run as: cd /tmp/rt/REVIEW3 && /venv/bin/python demo.py
import py7zr  # noqa: E402

start = os.getcwd()
base = tempfile.mkdtemp(prefix="r3_cwd_")
rc = 0
try:
    arc = os.path.join(base, "x.7z")
    with py7zr.SevenZipFile(arc, "w") as z:
        z.writestr(b"hello", "a.txt")
    gone = os.path.join(base, "gone")
    os.mkdir(gone)
    os.chdir(gone)
    os.rmdir(gone)  # the working directory does not exist any more
    problems = []
    for mode in ("r", "a"):
        try:
            with py7zr.SevenZipFile(arc, mode) as z:
                names = z.getnames()
            if names != ["a.txt"]:
                problems.append(f"mode {mode!r}: unexpected names {names}")
        except Exception as e:  # noqa
            problems.append(f"mode {mode!r}: SevenZipFile({arc!r}) raised {type(e).__name__}: {e}")
    out = os.path.join(base, "new.7z")
    try:
        with py7zr.SevenZipFile(out, "w") as z:
            z.writestr(b"x", "x")
    except Exception as e:  # noqa
        problems.append(f"mode 'w': SevenZipFile({out!r}) raised {type(e).__name__}: {e}")
    if problems:
        print("FAIL: an absolute archive path cannot be opened when the process' working directory has been deleted")
        for p in problems:
            print("   ", p)
        rc = 1
    else:
        print("PASS")
finally:
    os.chdir(start)
    shutil.rmtree(base, ignore_errors=True)
sys.exit(rc)
