#!/usr/bin/env python
"""C05 demo 3: SevenZipFile.test() spins (practically) forever when a packed stream that has a CRC
declares a size far beyond the end of the file: _read_digest() keeps "reading" 1 MiB blocks at EOF
until the declared size is counted down.

Run as:  cd <worktree> && python demo.py
"""
import os
import struct
import subprocess
import sys
import tempfile
import zlib

sys.path.insert(0, os.getcwd())

MAGIC = b"7z\xbc\xaf\x27\x1c"
WATCHDOG = 10


def u64(v):
    if v < 0x80:
        return bytes([v])
    for n in range(1, 8):
        if v < (1 << (8 * n + (7 - n))):
            return bytes([((0xFF << (8 - n)) & 0xFF) | (v >> (8 * n))]) + (v & ((1 << (8 * n)) - 1)).to_bytes(n, "little")
    return b"\xff" + v.to_bytes(8, "little")


def crc(b):
    return zlib.crc32(b) & 0xFFFFFFFF


def archive(packsize):
    """One Copy folder with b'hello'; PackInfo carries a CRC for the packed stream (as 7-Zip writes for AES/header streams)."""
    packed = b"hello"
    pi = b"\x06\x00\x01\x09" + u64(packsize) + b"\x0a\x01" + struct.pack("<L", crc(packed)) + b"\x00"
    ui = b"\x07\x0b\x01\x00" + b"\x01\x01\x00" + b"\x0c\x05\x00"
    ss = b"\x08\x0a\x01" + struct.pack("<L", crc(packed)) + b"\x00"
    name = b"\x00" + "a".encode("utf-16le") + b"\x00\x00"
    hdr = b"\x01\x04" + pi + ui + ss + b"\x00" + b"\x05\x01\x11" + u64(len(name)) + name + b"\x00" + b"\x00"
    start = struct.pack("<QQL", len(packed), len(hdr), crc(hdr))
    return MAGIC + b"\x00\x04" + struct.pack("<L", crc(start)) + start + packed + hdr


CHILD = r"""
import sys, os
sys.path.insert(0, os.getcwd())
import py7zr
try:
    with py7zr.SevenZipFile(sys.argv[1], "r") as z:
        print("test() returned", z.test())
except Exception as e:
    print("raised", type(e).__name__, str(e)[:100])
"""


def run(data):
    fd, path = tempfile.mkstemp(suffix=".7z")
    os.write(fd, data)
    os.close(fd)
    try:
        r = subprocess.run([sys.executable, "-c", CHILD, path], capture_output=True, text=True, timeout=WATCHDOG)
        return r.stdout.strip() or ("exit status %d: %s" % (r.returncode, r.stderr.strip()[-200:]))
    except subprocess.TimeoutExpired:
        return None
    finally:
        os.unlink(path)


def main():
    import py7zr

    print("py7zr from", py7zr.__file__)
    good = archive(5)
    ref = run(good)
    print("pack size 5 (%d bytes): %s" % (len(good), ref))
    if ref != "test() returned True":
        print("FAIL: reference archive is not accepted, demo is not meaningful")
        return 1
    problems = []
    for size in (2**45, 2**63):
        bad = archive(size)
        res = run(bad)
        print("pack size 2**%d (%d bytes): %s" % (size.bit_length() - 1, len(bad), res if res else "NO ANSWER within %d s" % WATCHDOG))
        if res is None:
            problems.append("test() on a %d-byte archive with packsize=2**%d did not finish within %d s" % (len(bad), size.bit_length() - 1, WATCHDOG))
    if problems:
        print("FAIL: " + "; ".join(problems) + " (_read_digest loops packsize/blocksize times at end of file)")
        return 1
    print("PASS: test() answered in bounded time")
    return 0


if __name__ == "__main__":
    sys.exit(main())
