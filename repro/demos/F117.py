"""C12: a read-mode session destroys the archive it reads.

The archive d/backup.7z holds a member that is itself called 'backup.7z' (what writeall('.') of older releases produced:
the archive being written inside the tree it archives; or simply a backup of a directory that held an older backup).
extractall(path=d) - "unpack it where it lies" - opens the member's output path for writing: that path IS the archive
(same inode), it is truncated while the session reads from it.  Writing has a self-inclusion test (_is_this_archive),
extraction has none.  The property: no read-mode session changes a single byte of the archive file.
"""
import hashlib
import os
import shutil
import sys
import tempfile

import py7zr


def sha(p):
    with open(p, "rb") as f:
        return hashlib.sha256(f.read()).hexdigest()


def main() -> int:
    problems = []
    for how in ("path", "stream"):
        d = tempfile.mkdtemp(prefix="c12self")
        try:
            arc = os.path.join(d, "backup.7z")
            with py7zr.SevenZipFile(arc, "w") as z:
                z.writestr(b"notes " * 500, "notes.txt")
                z.writestr(b"an older backup " * 300, "backup.7z")
                z.writestr(b"more " * 500, "more.txt")
            before, size_before = sha(arc), os.path.getsize(arc)
            outcome = "returned"
            fp = None
            try:
                if how == "path":
                    z = py7zr.SevenZipFile(arc, "r")
                else:
                    fp = open(arc, "rb")
                    z = py7zr.SevenZipFile(fp, "r")
                try:
                    z.getnames()
                    z.extractall(path=d)
                finally:
                    z.close()
            except Exception as e:  # an error is fine, as long as the archive is left alone
                outcome = f"raised {type(e).__name__}: {e}"
            finally:
                if fp is not None:
                    fp.close()
            after, size_after = sha(arc), os.path.getsize(arc)
            if after != before:
                still = "still opens" if py7zr.is_7zfile(arc) else "is not a 7z file any more"
                problems.append(
                    f"[{how}] extractall(path=<directory of the archive>) {outcome}; the archive changed: "
                    f"{size_before} -> {size_after} bytes, {still}"
                )
        finally:
            shutil.rmtree(d, ignore_errors=True)
    if problems:
        print("FAIL: a session opened with mode 'r' modified the archive file")
        for p in problems:
            print("  -", p)
        return 1
    print("PASS")
    return 0


if __name__ == "__main__":
    sys.exit(main())
