"""PasswordRequired is raised only after the extraction target has been created (and the callback told to start).

0c7b069 made _extract "ask for the password before anything is touched": the check stood in front of everything.
7ff88b3 moved the check into the member loop, i.e. behind the creation of the target directory (path.mkdir(parents=True))
and behind the start of the reporter thread / the 'pre' event.  extractall('<new dir>') on an encrypted archive without a
password now raises PasswordRequired and leaves a freshly created (empty) directory tree behind; at 0c7b069 nothing was
created.  A callback is told report_start_preparation() for an extraction that never happens (no report_postprocess()).
"""
import io
import os
import shutil
import sys
import tempfile

sys.path.insert(0, os.getcwd())  # run as: cd /tmp/rt/REVIEW3 && /venv/bin/python demo.py
import py7zr  # noqa: E402
from py7zr.callbacks import ExtractCallback  # noqa: E402


class CB(ExtractCallback):
    def __init__(self):
        self.ev = []

    def report_start_preparation(self):
        self.ev.append("pre")

    def report_start(self, a, b):
        self.ev.append("s")

    def report_update(self, b):
        self.ev.append("u")

    def report_end(self, a, b):
        self.ev.append("e")

    def report_warning(self, m):
        self.ev.append("w")

    def report_postprocess(self):
        self.ev.append("post")


base = tempfile.mkdtemp(prefix="r3_pw_")
rc = 0
try:
    buf = io.BytesIO()
    with py7zr.SevenZipFile(buf, "w", password="pw") as z:
        z.writestr(b"secret" * 100, "s.txt")
    problems = []
    # 1. plain call
    out = os.path.join(base, "new", "deep", "dir")
    buf.seek(0)
    raised = False
    with py7zr.SevenZipFile(buf, "r") as z:
        try:
            z.extractall(out)
        except py7zr.exceptions.PasswordRequired:
            raised = True
    if not raised:
        problems.append("PasswordRequired was not raised")
    if os.path.exists(os.path.join(base, "new")):
        problems.append("PasswordRequired was raised, but the target directory %r had been created before" % out)
    # 2. with a callback
    out2 = os.path.join(base, "new2")
    cb = CB()
    buf.seek(0)
    with py7zr.SevenZipFile(buf, "r") as z:
        try:
            z.extractall(out2, callback=cb)
        except py7zr.exceptions.PasswordRequired:
            pass
    if cb.ev:
        problems.append("the callback was told %r although nothing can be extracted without the password" % cb.ev)
    if problems:
        print("FAIL: the password is not asked for 'before anything is touched'")
        for p in problems:
            print("   ", p)
        rc = 1
    else:
        print("PASS")
finally:
    shutil.rmtree(base, ignore_errors=True)
sys.exit(rc)
