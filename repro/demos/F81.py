"""C18: a callback-less extraction on the same SevenZipFile feeds 'pre'/'post' events to the callback of the EARLIER call.

extractall(callback=cb); reset(); extractall()   -> cb receives  pre s.. e.. post  pre post
The first call's account is therefore not closed by its post-processing event: events of an extraction the
callback was never given to arrive after it (and they are an incomplete account of that extraction: no start/end).
"""
import os
import sys

sys.path.insert(0, os.getcwd())
import shutil
import tempfile

import py7zr
from py7zr.callbacks import ExtractCallback


class Rec(ExtractCallback):
    def __init__(self):
        self.ev = []

    def _r(self, *a):
        self.ev.append(a)

    def report_start_preparation(self):
        self._r("pre")

    def report_start(self, p, b):
        self._r("s", p, b)

    def report_update(self, b):
        self._r("u", b)

    def report_end(self, p, b):
        self._r("e", p, b)

    def report_warning(self, m):
        self._r("w", m)

    def report_postprocess(self):
        self._r("post")


def main():
    d = tempfile.mkdtemp()
    try:
        arc = os.path.join(d, "a.7z")
        with py7zr.SevenZipFile(arc, "w") as z:
            z.writestr(b"A" * 1000, "a.txt")
            z.writestr(b"B" * 2000, "b.txt")
        cb = Rec()
        with py7zr.SevenZipFile(arc) as z:
            z.extractall(os.path.join(d, "o1"), callback=cb)
            z.reset()
            z.extractall(os.path.join(d, "o2"))  # no callback given to this call
        kinds = [e[0] for e in cb.ev]
        print("events seen by the callback of the first call:", kinds)
        ok = kinds.count("pre") == 1 and kinds.count("post") == 1 and kinds[0] == "pre" and kinds[-1] == "post"
        # both extractions did their work
        for o in ("o1", "o2"):
            assert sorted(os.listdir(os.path.join(d, o))) == ["a.txt", "b.txt"]
        if not ok:
            print(
                "FAIL: post-processing is not the last event of the extraction the callback was given to: the later "
                "callback-less extractall() delivered %r to it after its 'post'" % (kinds[kinds.index("post") + 1 :],)
            )
            return 1
        print("PASS")
        return 0
    finally:
        shutil.rmtree(d, ignore_errors=True)


if __name__ == "__main__":
    sys.exit(main())
