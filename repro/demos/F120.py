"""A member whose output file cannot be OPENED for writing: the new `except Exception` around the member file unlinks the
file that was there before (it never wrote a byte to it)."""
import os, sys
sys.path.insert(0, os.getcwd())
import shutil, subprocess, tempfile
import py7zr

d = tempfile.mkdtemp(prefix="rev4_1_")
p = None
try:
    arc = os.path.join(d, "a.7z")
    with py7zr.SevenZipFile(arc, "w") as z:
        z.writestr(b"hello world", "prog")
    dest = os.path.join(d, "out")
    os.mkdir(dest)
    victim = os.path.join(dest, "prog")
    shutil.copy("/bin/sleep", victim)
    before = os.stat(victim).st_size
    # a running executable cannot be opened for writing (ETXTBSY) - works for root as well, unlike a read-only file
    p = subprocess.Popen([victim, "30"])
    err = None
    try:
        with py7zr.SevenZipFile(arc) as z:
            z.extractall(dest)
    except Exception as e:
        err = e
    print("extractall raised:", repr(err))
    if err is None:
        print("PASS (the file could be opened here, nothing to show)")
        sys.exit(0)
    if not os.path.exists(victim):
        print("FAIL: open() of the existing output file failed (%s) before anything was written, and the error path "
              "deleted the user's file %s (%d bytes); d362384 and 1930bc6 raise the same error and leave it alone" % (type(err).__name__, victim, before))
        sys.exit(1)
    if os.stat(victim).st_size != before:
        print("FAIL: file changed")
        sys.exit(1)
    print("PASS: the file that could not be opened is still there")
    sys.exit(0)
finally:
    if p is not None:
        p.kill()
        p.wait()
    shutil.rmtree(d, ignore_errors=True)
