"""C03: the directory pre-pass of _extract() creates member directories with mkdir(parents=True)
without looking at where the path really leads.

Every write in Worker._extract_single is guarded by is_path_contained() (realpath check), and so is
the utime/chmod post-pass - but the loop `for target_dir in sorted(target_dirs): target_dir.mkdir(parents=True)`
is not.  Within one call that is harmless (no link exists yet), but the links that an archive is
*allowed* to create can point out of the jail once a sibling link appears:

    l    -> a/b/..     accepted: lexically <dest>/a, and a/b does not exist yet
    a/b  -> ..         accepted: lexically and really <dest>
    => l now resolves to <dest>/.. , the parent of the destination
    l/pwned (directory member)

Extracting the members one call at a time (extract(path, targets=[name]); reset() - the documented way
to pick members) into an initially EMPTY directory makes the third call run the unguarded mkdir through
the link: <parent of dest>/pwned is created.  The post-pass then notices and raises Bad7zFile, after the fact.
"""
import io
import os
import shutil
import stat
import struct
import sys
import tempfile
import zlib

sys.path.insert(0, os.getcwd())
import py7zr  # noqa: E402


def num(v):
    assert v < 0x80
    return bytes([v])


def bits(bs):
    out = bytearray((len(bs) + 7) // 8)
    for i, b in enumerate(bs):
        if b:
            out[i // 8] |= 0x80 >> (i % 8)
    return bytes(out)


def build(entries):
    """Minimal 7z writer: COPY codec, one solid folder. entries = [(name, kind, data)], kind in file/dir/link."""
    streams = [d for _, _, d in entries if d]
    packed = b"".join(streams)
    h = b"\x01"
    if streams:
        h += b"\x04" + b"\x06" + num(0) + num(1) + b"\x09" + num(len(packed)) + b"\x00"
        h += b"\x07\x0b" + num(1) + b"\x00" + num(1) + b"\x01\x00" + b"\x0c" + num(len(packed)) + b"\x00"
        h += b"\x08\x0d" + num(len(streams))
        if len(streams) > 1:
            h += b"\x09" + b"".join(num(len(d)) for d in streams[:-1])
        h += b"\x0a\x01" + b"".join(struct.pack("<L", zlib.crc32(d)) for d in streams) + b"\x00\x00"
    h += b"\x05" + num(len(entries))
    empty = [not d for _, _, d in entries]
    if any(empty):
        bv = bits(empty)
        h += b"\x0e" + num(len(bv)) + bv
        ef = [k != "dir" for _, k, d in entries if not d]
        if any(ef):
            bv = bits(ef)
            h += b"\x0f" + num(len(bv)) + bv
    names = b"".join(n.encode("utf-16-le") + b"\x00\x00" for n, _, _ in entries)
    assert len(names) + 1 < 0x80
    h += b"\x11" + num(len(names) + 1) + b"\x00" + names
    attr = {
        "dir": 0x10 | 0x8000 | ((stat.S_IFDIR | 0o755) << 16),
        "file": 0x20 | 0x8000 | ((stat.S_IFREG | 0o644) << 16),
        "link": 0x20 | 0x8000 | ((stat.S_IFLNK | 0o777) << 16),
    }
    attrs = b"".join(struct.pack("<L", attr[k]) for _, k, _ in entries)
    h += b"\x15" + num(len(attrs) + 2) + b"\x01\x00" + attrs
    h += b"\x00\x00"
    start = struct.pack("<QQL", len(packed), len(h), zlib.crc32(h))
    return b"7z\xbc\xaf\x27\x1c\x00\x04" + struct.pack("<L", zlib.crc32(start)) + start + packed + h


def tree(root, skip):
    out = set()
    for r, ds, fs in os.walk(root):
        if r == skip:
            ds[:] = []
            continue
        for n in ds + fs:
            out.add(os.path.join(r, n))
    return out


ENTRIES = [
    ("l", "link", b"a/b/.."),
    ("a/b", "link", b".."),
    ("l/pwned", "dir", b""),
]


def main():
    assert os.path.dirname(py7zr.__file__).startswith(os.getcwd()), py7zr.__file__
    root = os.path.realpath(tempfile.mkdtemp(prefix="c03_"))
    try:
        parent = os.path.join(root, "parent")
        dest = os.path.join(parent, "dest")  # does not exist yet: extraction creates it, it starts out empty
        os.mkdir(parent)
        before = tree(root, dest)
        data = build(ENTRIES)
        log = []
        with py7zr.SevenZipFile(io.BytesIO(data)) as z:
            for name in z.getnames():  # pick the members one after another
                try:
                    z.extract(dest, targets=[name])
                    log.append("%s: ok" % name)
                except Exception as e:  # raising is allowed by the property
                    log.append("%s: raised %s: %s" % (name, type(e).__name__, e))
                z.reset()
        created = sorted(tree(root, dest) - before - {dest})
        if created:
            print("FAIL: extraction created %s outside the destination %s"
                  % ([os.path.relpath(c, root) for c in created], os.path.relpath(dest, root)))
            for line in log:
                print("  -", line)
            print("  - l ->", os.readlink(os.path.join(dest, "l")), "; a/b ->", os.readlink(os.path.join(dest, "a", "b")),
                  "; so l resolves to", os.path.relpath(os.path.realpath(os.path.join(dest, "l")), root))
            return 1
        print("PASS: nothing was created outside the destination")
        for line in log:
            print("  -", line)
        return 0
    finally:
        shutil.rmtree(root, ignore_errors=True)


if __name__ == "__main__":
    sys.exit(main())
