"""C05: PackInfo._read computes the start offsets of the packed streams with
    [sum(self.packsizes[:i]) for i in range(self.numstreams + 1)]
numstreams comes straight from the header.  (a) Without a Size record nothing has been read per stream, so a 48-byte archive that
declares 2^40 streams spins (and grows a list) for ever.  (b) With a Size record the expression is quadratic in the stream count."""
import os
import struct
import subprocess
import sys
import zlib

MAGIC = bytes.fromhex("377abcaf271c")


def archive(header: bytes) -> bytes:
    start = struct.pack("<QQL", 0, len(header), zlib.crc32(header) & 0xFFFFFFFF)
    return MAGIC + b"\x00\x04" + struct.pack("<L", zlib.crc32(start) & 0xFFFFFFFF) + start + header


def number(v: int) -> bytes:
    """7z variable length number (only the forms needed here)."""
    if v < 0x80:
        return bytes([v])
    if v < 0x4000:
        return bytes([0x80 | (v >> 8), v & 0xFF])
    if v < 0x200000:
        return bytes([0xC0 | (v >> 16)]) + (v & 0xFFFF).to_bytes(2, "little")
    return b"\xff" + v.to_bytes(8, "little")


# (a) Header { MainStreamsInfo { PackInfo { packpos 0, numstreams 2^40, End } End } End }
A = archive(b"\x01\x04" + b"\x06" + number(0) + number(2**40) + b"\x00" + b"\x00" + b"\x00")
# (b) the same with a Size record: N streams of 0 bytes each (N bytes of input)
N = 60000
B = archive(b"\x01\x04" + b"\x06" + number(0) + number(N) + b"\x09" + bytes(N) + b"\x00" + b"\x00" + b"\x00")

LIMIT = 1 << 30

CHILD = r"""
import io, os, resource, sys, time
sys.path.insert(0, os.getcwd())
resource.setrlimit(resource.RLIMIT_AS, (%d, %d))
import py7zr
data = open(sys.argv[1], "rb").read()
t = time.time()
try:
    py7zr.SevenZipFile(io.BytesIO(data), "r")
    outcome = "opened"
except BaseException as e:
    outcome = type(e).__name__
print("%%s|%%.2f|%%d" %% (outcome, time.time() - t, resource.getrusage(resource.RUSAGE_SELF).ru_maxrss // 1024))
""" % (LIMIT, LIMIT)


def run(data: bytes, timeout: float):
    import tempfile

    with tempfile.TemporaryDirectory() as d:
        p = os.path.join(d, "a.7z")
        with open(p, "wb") as f:
            f.write(data)
        try:
            r = subprocess.run([sys.executable, "-c", CHILD, p], capture_output=True, text=True, timeout=timeout, cwd=os.getcwd())
        except subprocess.TimeoutExpired:
            return None
        if "|" not in r.stdout:
            return ("died with status %d" % r.returncode, timeout, 0)
        outcome, secs, rss = r.stdout.strip().split("|")
        return (outcome, float(secs), int(rss))


def main() -> int:
    bad = []
    ra = run(A, 12)
    if ra is None:
        bad.append(f"(a) the constructor was still busy after 12 s with a {len(A)}-byte archive that declares 2^40 packed streams")
    elif ra[0] == "MemoryError" or ra[1] > 5 or ra[2] > 300:
        bad.append(f"(a) {len(A)}-byte archive: outcome={ra[0]} after {ra[1]:.1f}s, peak rss {ra[2]} MiB")
    else:
        print(f"(a) ok: {ra}")
    rb = run(B, 40)
    if rb is None:
        bad.append(f"(b) a header of {N} packed streams ({len(B)} bytes) was not parsed within 40 s")
    elif rb[1] > 3:
        bad.append(f"(b) a header of {N} packed streams ({len(B)} bytes) took {rb[1]:.1f}s to parse (quadratic: outcome={rb[0]})")
    else:
        print(f"(b) ok: {rb}")
    if bad:
        print("FAIL: PackInfo._read loops over the DECLARED number of packed streams: " + "; ".join(bad))
        return 1
    print("PASS")
    return 0


if __name__ == "__main__":
    sys.exit(main())
