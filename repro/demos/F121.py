"""C19: 'py7zr l' fails (traceback, exit 1) on a valid archive that the library lists: a member dated in the last hours
of the year 9999 (UTC).  SevenZipFile.list() reports the member (the earlier repair made it tolerate dates it cannot
express), but the command line converts the date to local time on its own, and east of Greenwich that is year 10000:
datetime overflows and the whole listing is lost."""
import os
import shutil
import subprocess
import sys
import tempfile

ROOT = os.getcwd()  # the worktree: `cd /tmp/rt/HD19 && python demo.py`
sys.path.insert(0, ROOT)

import py7zr  # noqa: E402
from py7zr.helpers import ArchiveTimestamp  # noqa: E402

assert py7zr.__file__.startswith(ROOT), py7zr.__file__

# 9999-12-31 20:00:00 UTC as FILETIME (100 ns units since 1601-01-01)
FT = 2650467744000000000 - 4 * 3600 * 10**7


def cli(tz, *args, cwd):
    env = dict(os.environ, PYTHONPATH=ROOT, TZ=tz)
    r = subprocess.run([sys.executable, "-m", "py7zr", *args], cwd=cwd, env=env, capture_output=True, text=True)
    return r.returncode, r.stdout, r.stderr


def main():
    work = tempfile.mkdtemp(prefix="hd19_4_")
    try:
        arc = os.path.join(work, "late.7z")
        with py7zr.SevenZipFile(arc, "w") as z:
            z.writestr(b"first", "ordinary.txt")
            z.writestr(b"data", "late.txt")
            z.header.files_info.files[-1]["lastwritetime"] = ArchiveTimestamp(FT)  # any writer may store this date
        with py7zr.SevenZipFile(arc) as z:
            lib = [(f.filename, str(f.creationtime)) for f in z.list()]
            assert z.testzip() is None
        print("library list():", lib)
        results = {}
        for tz in ["UTC0", "EST5", "JST-9"]:
            rc, out, err = cli(tz, "l", arc, cwd=work)
            listed = [line[53:].strip() for line in out.splitlines() if line[20:25] in ("....A", ".....", "D....")]
            last = (err.strip().splitlines() or [""])[-1]
            print(f"TZ={tz:6} py7zr l -> exit {rc}, members {listed} {last}")
            results[tz] = (rc, listed)
    finally:
        shutil.rmtree(work, ignore_errors=True)
    want = [name for name, _ in lib]
    bad = [tz for tz, (rc, listed) in results.items() if rc != 0 or listed != want]
    if bad:
        print("FAIL: 'l' does not list the members the library reports when the local time zone is %s" % bad)
        return 1
    print("PASS: 'l' lists the members the library reports in every time zone")
    return 0


if __name__ == "__main__":
    sys.exit(main())
