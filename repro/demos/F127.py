"""C03: a link that sits deeper than PATH_MAX cannot be examined by the containment check, which then pops it
textually with the '..' that follow; the kernel follows it.  A second link built on that difference points to an
absolute directory outside the destination and a member is written through it."""
import os
import shutil
import struct
import sys
import tempfile
import zlib

sys.path.insert(0, os.getcwd())
import py7zr  # noqa: E402


# ---- minimal reference 7z writer (COPY coder, one solid folder) ----
def num(v):
    if v < 0x80:
        return bytes([v])
    first, mask = 0, 0x80
    for i in range(8):
        if v < (1 << (7 * (i + 1))):
            first |= v >> (8 * i)
            return bytes([first]) + (v & ((1 << (8 * i)) - 1)).to_bytes(i, "little")
        first |= mask
        mask >>= 1
    return b"\xff" + v.to_bytes(8, "little")


def bits(flags):
    out, cur, mask = bytearray(), 0, 0x80
    for b in flags:
        if b:
            cur |= mask
        mask >>= 1
        if mask == 0:
            out.append(cur)
            cur, mask = 0, 0x80
    if mask != 0x80:
        out.append(cur)
    return bytes(out)


def build(entries):
    """entries: (name, kind, data) with kind in file/dir/link"""
    attrs = {"dir": 0x10 | 0x8000 | (0o040755 << 16), "link": 0x20 | 0x8000 | (0o120777 << 16), "file": 0x20 | 0x8000 | (0o100644 << 16)}
    streams = [e for e in entries if e[1] != "dir"]
    body = b"".join(e[2] for e in streams)
    h = bytearray(b"\x01\x04")
    h += b"\x06" + num(0) + num(1) + b"\x09" + num(len(body)) + b"\x00"
    h += b"\x07\x0b" + num(1) + b"\x00" + b"\x01\x01\x00" + b"\x0c" + num(len(body)) + b"\x00"
    h += b"\x08\x0d" + num(len(streams))
    if len(streams) > 1:
        h += b"\x09" + b"".join(num(len(e[2])) for e in streams[:-1])
    h += b"\x0a\x01" + b"".join(struct.pack("<L", zlib.crc32(e[2])) for e in streams) + b"\x00\x00"
    h += b"\x05" + num(len(entries))
    v = bits([e[1] == "dir" for e in entries])
    h += b"\x0e" + num(len(v)) + v
    names = b"".join(e[0].encode("utf-16LE") + b"\x00\x00" for e in entries)
    h += b"\x11" + num(len(names) + 1) + b"\x00" + names
    payload = b"\x01\x00" + b"".join(struct.pack("<L", attrs[e[1]]) for e in entries)
    h += b"\x15" + num(len(payload)) + payload + b"\x00\x00"
    start = struct.pack("<QQL", len(body), len(h), zlib.crc32(bytes(h)))
    return b"7z\xbc\xaf\x27\x1c\x00\x04" + struct.pack("<L", zlib.crc32(start)) + start + body + bytes(h)


def main():
    root = os.path.realpath(tempfile.mkdtemp(prefix="c03_"))
    try:
        dest = os.path.join(root, "outer", "jail")
        victim = os.path.join(root, "victim")  # a directory OUTSIDE the destination
        os.makedirs(dest)
        os.makedirs(victim)
        with open(os.path.join(victim, "keep.txt"), "w") as f:
            f.write("precious")
        os.chmod(os.path.join(victim, "keep.txt"), 0o600)
        os.utime(os.path.join(victim, "keep.txt"), (1.2e9, 1.2e9))

        d = "d" * 250
        e = "e" * 250
        deep_dirs = "/".join([d] * 8)  # 8 real directories, ~2000 bytes: can still be examined
        beyond = "/".join([e] * 9 + ["e"] * 30)  # 39 more beneath them: their absolute paths are longer than PATH_MAX
        up_to_dest = "/".join([".."] * 47)
        # the kernel goes 48 levels up from the destination (to '/' when it is less deep); the check pops 48 names instead
        through = "k/" + beyond + "/s" + "/.." * 48 + victim
        entries = [
            (deep_dirs, "dir", b""),
            ("k", "link", deep_dirs.encode()),  # a short name for the deep directory
            ("k/" + beyond + "/s", "link", up_to_dest.encode()),  # -> the destination itself: allowed
            ("x", "link", through.encode()),  # check: <dest>/<victim path> (inside);  kernel: <victim> (outside)
            ("x/evil.txt", "file", b"written outside"),
            ("x/keep.txt", "file", b"overwritten"),
        ]
        archive = os.path.join(root, "hostile.7z")
        with open(archive, "wb") as f:
            f.write(build(entries))
        outcome = "completed"
        try:
            with py7zr.SevenZipFile(archive) as z:
                z.extractall(path=dest)
        except Exception as ex:  # raising is allowed by the property
            outcome = "raised %s: %s" % (type(ex).__name__, str(ex)[:100])
        problems = []
        if os.path.lexists(os.path.join(victim, "evil.txt")):
            problems.append("created %s" % os.path.join(victim, "evil.txt"))
        with open(os.path.join(victim, "keep.txt")) as f:
            content = f.read()
        st = os.stat(os.path.join(victim, "keep.txt"))
        if content != "precious":
            problems.append("replaced the content of %s by %r" % (os.path.join(victim, "keep.txt"), content))
        if st.st_mode & 0o777 != 0o600 or st.st_mtime != 1.2e9:
            problems.append("re-moded/re-timed it (mode %o)" % (st.st_mode & 0o777))
        if sorted(os.listdir(victim)) != ["keep.txt"] and not problems:
            problems.append("victim directory now holds %r" % os.listdir(victim))
        if problems:
            print("FAIL: extraction into %s (%s) %s" % (dest, outcome, "; ".join(problems)))
            return 1
        print("PASS: nothing outside the destination was touched (extraction %s)" % outcome)
        return 0
    finally:
        shutil.rmtree(root, ignore_errors=True)


if __name__ == "__main__":
    sys.exit(main())
