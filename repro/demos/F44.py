"""testzip() on a multi-folder archive opened from a stream (io.BytesIO)."""
import io, os, sys
sys.path.insert(0, os.getcwd())
import py7zr
print("py7zr from", py7zr.__file__)
b = io.BytesIO()
with py7zr.SevenZipFile(b, "w") as z:
    z.writestr(b"first" * 100, "one.txt")
b.seek(0)
with py7zr.SevenZipFile(b, "a") as z:
    z.writestr(b"second" * 100, "two.txt")
b.seek(0)
problems = []
try:
    with py7zr.SevenZipFile(b) as z:
        r = z.testzip()
    if r is not None:
        problems.append(f"testzip() on an intact two-folder archive opened from BytesIO returned {r!r}")
except Exception as e:
    problems.append(f"testzip() on an intact two-folder archive opened from BytesIO raised {type(e).__name__}: {e}")
# damaged member must be named
raw = bytearray(b.getvalue())
raw[40] ^= 0xFF
try:
    with py7zr.SevenZipFile(io.BytesIO(bytes(raw))) as z:
        r = z.testzip()
    if r is None:
        problems.append("testzip() certified a damaged stream archive")
except py7zr.exceptions.ArchiveError:
    pass
except Exception as e:
    if "LZMA" not in type(e).__name__:
        problems.append(f"damaged archive from a stream: {type(e).__name__}: {e}")
if problems:
    print("FAIL: " + "; ".join(problems)); sys.exit(1)
print("PASS")
