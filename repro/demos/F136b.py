"""C15: writestr()/writef() accept an arcname of which nothing is left ('', '.', './', 'x/..') instead of rejecting it.

write() rejects such a name for a file (ValueError, repair e35b323: "a file stored as '.' makes an archive that cannot be
extracted"); the sibling calls writestr()/writef() have no such gate.  The call "succeeds", the member is stored as the FILE
member '.', and the closed archive is poisoned: extractall() dies with IsADirectoryError, so the members written before and
after the bad call cannot be extracted any more.
Expected: the bad arcname is rejected (exception reaches the caller) and the archive holds exactly the other members, intact.
"""
import io
import os
import shutil
import sys
import tempfile

sys.path.insert(0, os.getcwd())
import py7zr  # noqa: E402

problems = []
td = tempfile.mkdtemp(prefix="he15_demo1_")
try:
    for call in ("writestr", "writef"):
        for bad in ("", ".", "./", "x/.."):
            arc = os.path.join(td, "t.7z")
            if os.path.exists(arc):
                os.unlink(arc)
            z = py7zr.SevenZipFile(arc, "w")
            z.writestr(b"first data", "first")
            raised = None
            try:
                if call == "writestr":
                    z.writestr(b"payload", bad)
                else:
                    z.writef(io.BytesIO(b"payload"), bad)
            except Exception as e:  # the rejection the property asks for
                raised = e
            z.writestr(b"last data", "last")
            z.close()
            # the archive must hold 'first' and 'last', intact and extractable
            out = tempfile.mkdtemp(dir=td)
            try:
                with py7zr.SevenZipFile(arc, "r") as r:
                    names = r.getnames()
                    r.extractall(out)
                got = {n: open(os.path.join(out, n), "rb").read() for n in ("first", "last")}
                if got != {"first": b"first data", "last": b"last data"} or sorted(names) != ["first", "last"]:
                    problems.append(f"{call}(arcname={bad!r}): raised={raised!r}; archive lists {names}, extracted {got}")
            except Exception as e:
                problems.append(
                    f"{call}(arcname={bad!r}): call raised {raised!r} (accepted); the closed archive lists "
                    f"{names} and extractall() fails with {type(e).__name__}: {e}"
                )
finally:
    shutil.rmtree(td, ignore_errors=True)

if problems:
    print("FAIL: a write call whose arcname should have been rejected was accepted and poisoned the archive "
          "(members written before and after it cannot be extracted):")
    for p in problems:
        print("  -", p)
    sys.exit(1)
print("PASS")
sys.exit(0)
