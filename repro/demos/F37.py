"""C08: base archive whose PackInfo carries CRCs for only some of the packed streams (a partially defined
digest vector, legal in the 7z format).  Appending fails in close() after the new data has been written over
the old header: the archive, i.e. every old member, is lost."""
import gc
import io
import os
import shutil
import struct
import sys
import tempfile
import zlib

sys.path.insert(0, os.getcwd())
import py7zr  # noqa: E402
from py7zr.io import Py7zIO, WriterFactory  # noqa: E402


def crc(b):
    return zlib.crc32(b) & 0xFFFFFFFF


def build(datas, names, pack_crc_defined):
    """Non-solid archive, one Copy folder per member; PackInfo.kCRC defined per `pack_crc_defined`."""
    n = len(datas)
    body = b"".join(datas)
    h = io.BytesIO()
    h.write(b"\x01\x04")
    h.write(b"\x06\x00" + bytes([n]) + b"\x09" + bytes(len(d) for d in datas))  # kPackInfo, kSize
    defined = bytearray(1)
    for i, d in enumerate(pack_crc_defined):
        if d:
            defined[0] |= 0x80 >> i
    h.write(b"\x0a\x00" + bytes(defined))  # kCRC, allAreDefined=0, bit vector
    for d, x in zip(datas, pack_crc_defined):
        if x:
            h.write(struct.pack("<L", crc(d)))
    h.write(b"\x00")
    h.write(b"\x07\x0b" + bytes([n]) + b"\x00" + b"\x01\x01\x00" * n)  # kUnpackInfo, kFolder, Copy coders
    h.write(b"\x0c" + bytes(len(d) for d in datas) + b"\x00")  # kCodersUnpackSize
    h.write(b"\x08\x0a\x01" + b"".join(struct.pack("<L", crc(d)) for d in datas) + b"\x00")  # kSubStreamsInfo
    h.write(b"\x00")
    h.write(b"\x05" + bytes([n]))
    nb = b"".join(x.encode("utf-16-le") + b"\x00\x00" for x in names)
    h.write(b"\x11" + bytes([len(nb) + 1]) + b"\x00" + nb)
    h.write(b"\x00\x00")
    hdr = h.getvalue()
    start = struct.pack("<QQL", len(body), len(hdr), crc(hdr))
    return b"7z\xbc\xaf\x27\x1c\x00\x04" + struct.pack("<L", crc(start)) + start + body + hdr


class Buf(Py7zIO):
    def __init__(self):
        self.b = io.BytesIO()

    def write(self, s):
        return self.b.write(s)

    def read(self, size=None):
        return b""

    def seek(self, offset, whence=0):
        return 0

    def flush(self):
        pass

    def size(self):
        return len(self.b.getvalue())


class Fac(WriterFactory):
    def __init__(self):
        self.d = {}

    def create(self, filename):
        self.d[filename] = Buf()
        return self.d[filename]


def content(path):
    with py7zr.SevenZipFile(path, "r") as z:
        fac = Fac()
        names = z.getnames()
        z.extractall(factory=fac)
        ok = z.test()
    return names, {k: v.b.getvalue() for k, v in fac.d.items()}, ok


def append(path):
    with py7zr.SevenZipFile(path, "a") as z:
        z.writestr(b"appended in session 2", "new.txt")


def main():
    print("py7zr from", py7zr.__file__)
    datas = [b"first member " * 3, b"second member " * 4, b"third"]
    names = ["a.txt", "b.txt", "c.txt"]
    problems = []
    td = tempfile.mkdtemp()
    try:
        for defined in ([True, False, True], [False, True, False]):
            path = os.path.join(td, "base.7z")
            with open(path, "wb") as f:
                f.write(build(datas, names, defined))
            n0, c0, ok0 = content(path)
            assert n0 == names and c0 == dict(zip(names, datas)) and ok0 is True, (n0, c0, ok0)
            try:
                append(path)
            except BaseException as e:  # noqa
                problems.append(f"pack CRC defined {defined}: append session raised {type(e).__name__} {e}")
            gc.collect()  # the abandoned SevenZipFile object closes (and flushes) its file
            try:
                n1, c1, ok1 = content(path)
            except Exception as e:  # noqa
                problems.append(f"pack CRC defined {defined}: archive unreadable after the append session: {e!r}")
                continue
            if n1[:3] != names or any(c1.get(k) != v for k, v in zip(names, datas)):
                problems.append(f"pack CRC defined {defined}: old members changed: {n1}")
            if ok1 is False:
                problems.append(f"pack CRC defined {defined}: test() reports wrong packed-stream CRCs after append")
    finally:
        shutil.rmtree(td, ignore_errors=True)
    if problems:
        print("FAIL: append to an archive with partially defined packed-stream CRCs loses the archive")
        for p in problems:
            print("   -", p)
        return 1
    print("PASS")
    return 0


if __name__ == "__main__":
    sys.exit(main())
