"""C20: small members in front of a large, barely compressible member of a solid folder.

Every decoding step of SevenZipDecompressor.decompress() reads another block (1 MiB) of packed data and pushes it into the
decoder, whether the decoder has asked for input or not.  A decoder that honours max_length (LZMA2 here; LZMA, BZip2, PPMd
behave alike) returns the few bytes of the small member and keeps the rest of the block, so after N small members N MiB of
the packed stream sit in the decoder: memory grows with the packed size of the large member that follows.

The archive is made by a small reference writer (one solid LZMA2 folder, the data in stored LZMA2 chunks, which is what any
LZMA2 encoder emits for incompressible data): 1100 members of 1 byte, then one member of 1.1 GB.
"""
import os
import struct
import subprocess
import sys
import tempfile
import zlib

sys.path.insert(0, os.getcwd())

BUDGET_MIB = 700
N_SMALL = 1100
BIG = 1100 * (1 << 20)


def num(n):  # 7z variable-length number
    if n < 0x80:
        return bytes([n])
    for extra in range(1, 8):
        if n < (1 << (8 * extra + 7 - extra)):
            mask = (0xFF00 >> extra) & 0xFF
            return bytes([mask | (n >> (8 * extra))]) + (n & ((1 << (8 * extra)) - 1)).to_bytes(extra, "little")
    return b"\xff" + n.to_bytes(8, "little")


def build(path):
    block = os.urandom(1 << 16)
    with open(path, "wb") as fp:
        fp.write(bytes(32))
        packed = 0
        crc_big = 0
        # the unpacked stream: N_SMALL bytes 'a', then BIG bytes; stored LZMA2 chunks of up to 64 KiB
        first = True

        def chunk(data):
            nonlocal first, packed
            fp.write(bytes([1 if first else 2]) + struct.pack(">H", len(data) - 1) + data)
            packed += 3 + len(data)
            first = False

        chunk(b"a" * N_SMALL)
        for _ in range(BIG >> 16):
            chunk(block)
            crc_big = zlib.crc32(block, crc_big)
        fp.write(b"\0")
        packed += 1
        total = N_SMALL + BIG
        sizes = [1] * N_SMALL + [BIG]
        crcs = [zlib.crc32(b"a")] * N_SMALL + [crc_big]
        names = ["s%04d" % i for i in range(N_SMALL)] + ["big"]
        h = b"\x01\x04"
        h += b"\x06" + num(0) + num(1) + b"\x09" + num(packed) + b"\x00"
        h += b"\x07\x0b" + num(1) + b"\x00" + b"\x01" + b"\x21\x21\x01\x18" + b"\x0c" + num(total) + b"\x00"
        h += b"\x08\x0d" + num(len(sizes)) + b"\x09" + b"".join(num(s) for s in sizes[:-1])
        h += b"\x0a\x01" + b"".join(struct.pack("<L", c) for c in crcs) + b"\x00"
        h += b"\x00"
        nm = b"\x00" + b"".join(n.encode("utf-16-le") + b"\0\0" for n in names)
        h += b"\x05" + num(len(names)) + b"\x11" + num(len(nm)) + nm + b"\x00"
        h += b"\x00"
        fp.write(h)
        start = struct.pack("<QQL", packed, len(h), zlib.crc32(h))
        fp.seek(0)
        fp.write(b"7z\xbc\xaf\x27\x1c\x00\x04" + struct.pack("<L", zlib.crc32(start)) + start)


CHILD = r"""
import os, sys, resource
sys.path.insert(0, os.getcwd())
import py7zr
from py7zr.io import Py7zIO, WriterFactory
class Sink(Py7zIO):
    def __init__(self): self.n = 0
    def write(self, s): self.n += len(s); return len(s)
    def read(self, size=None): return b""
    def seek(self, offset, whence=0): return 0
    def flush(self): pass
    def size(self): return self.n
class Factory(WriterFactory):
    def __init__(self): self.made = {}
    def create(self, filename):
        self.made[filename] = Sink(); return self.made[filename]
def peak(): return resource.getrusage(resource.RUSAGE_SELF).ru_maxrss / 1024
base = peak()
fac = Factory()
with py7zr.SevenZipFile(sys.argv[1]) as z:
    z.extractall(factory=fac)
got = sum(s.n for s in fac.made.values())
print(got, int(peak() - base))
"""


def main():
    import py7zr

    assert os.path.dirname(py7zr.__file__).startswith(os.getcwd()), py7zr.__file__
    with tempfile.TemporaryDirectory() as tmp:
        arc = os.path.join(tmp, "solid.7z")
        build(arc)
        out = subprocess.run([sys.executable, "-c", CHILD, arc], capture_output=True, text=True, cwd=os.getcwd())
        if out.returncode != 0:
            print("FAIL: extraction failed:", out.stderr.strip().splitlines()[-1:])
            return 1
        got, above = map(int, out.stdout.split())
        if got != N_SMALL + BIG:
            print(f"FAIL: {got} bytes delivered, {N_SMALL + BIG} expected")
            return 1
        print(f"archive {os.path.getsize(arc) >> 20} MiB, {N_SMALL} members of 1 byte in front of one of {BIG >> 20} MiB (solid LZMA2)")
        print(f"peak memory of extractall(factory): {above} MiB above the baseline (budget {BUDGET_MIB} MiB)")
        if above > BUDGET_MIB:
            print("FAIL: the packed stream is read ahead into the decoder, 1 MiB for every small member decoded")
            return 1
        print("PASS")
        return 0


if __name__ == "__main__":
    sys.exit(main())
