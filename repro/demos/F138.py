"""C13: two members in different folders whose output paths are HARD LINKS of one file are written at the same time.

_extract() sends members that may end up in the same file through the sequential path ("written in archive order").  It
recognises them by os.path.realpath(), which sees symbolic links in the destination but not hard links: 'a' and 'b' below are
two names of one inode (a destination made by `cp -al`, rsnapshot, a package store ...).  Both workers open their name with
'wb' (no unlink) and write into the same inode, so the bytes left there depend on the schedule, and no error is raised.
Sequentially (file object input) the content is always that of the later member, 'b'.

A small scheduler hook at the output-open/close points (the observation point of the property) picks the schedule
"worker of folder 1 writes 'b' completely, then worker of folder 0 opens 'a'"; without the hook the same happens whenever
folder 0's worker is the slower one.
"""
import os
import sys

sys.path.insert(0, os.getcwd())
import pathlib
import shutil
import tempfile
import threading

import py7zr

A = b"A" * 5000
B = b"B" * 3000


def build(path):
    with py7zr.SevenZipFile(path, "w") as z:
        z.writestr(A, "a")
    with py7zr.SevenZipFile(path, "a") as z:
        z.writestr(B, "b")


def prepare_destination(d):
    os.mkdir(d)
    with open(os.path.join(d, "a"), "wb") as f:
        f.write(b"old")
    os.link(os.path.join(d, "a"), os.path.join(d, "b"))  # two names, one file


def read(p):
    with open(p, "rb") as f:
        return f.read()


class Proxy:
    def __init__(self, fh, on_close):
        self._fh = fh
        self._on_close = on_close

    def __getattr__(self, name):
        return getattr(self._fh, name)

    def __enter__(self):
        return self

    def __exit__(self, *exc):
        self._fh.close()
        self._on_close()

    def close(self):
        self._fh.close()
        self._on_close()


def main():
    td = tempfile.mkdtemp(prefix="c13h_")
    real_open = pathlib.Path.open
    try:
        arc = os.path.join(td, "x.7z")
        build(arc)

        # reference: sequential path (file object input), no scheduling involved
        ref = os.path.join(td, "ref")
        prepare_destination(ref)
        with open(arc, "rb") as fo:
            with py7zr.SevenZipFile(fo) as z:
                z.extractall(ref)
        ref_b = read(os.path.join(ref, "b"))

        # thread-parallel path under a chosen schedule
        out = os.path.join(td, "out")
        prepare_destination(out)
        b_done = threading.Event()

        def gated_open(self, mode="r", *args, **kw):
            if "w" in mode and str(self).startswith(out + os.sep):
                if self.name == "a":
                    b_done.wait(3)  # let the other worker go first (times out when there is no other worker)
                    return real_open(self, mode, *args, **kw)
                if self.name == "b":
                    return Proxy(real_open(self, mode, *args, **kw), b_done.set)
            return real_open(self, mode, *args, **kw)

        pathlib.Path.open = gated_open
        err = None
        try:
            with py7zr.SevenZipFile(arc) as z:
                z.extractall(out)
        except Exception as e:  # noqa
            err = e
        finally:
            pathlib.Path.open = real_open
        got_b = read(os.path.join(out, "b")) if os.path.exists(os.path.join(out, "b")) else None
    finally:
        pathlib.Path.open = real_open
        shutil.rmtree(td, ignore_errors=True)

    if ref_b != B:
        print("unexpected: the sequential reference left", ref_b[:10], len(ref_b))
    if err is None and got_b != B:
        print(
            "FAIL: member 'b' was extracted without an error, but the file 'b' holds %d bytes %r... instead of its %d bytes %r... "
            "(sequential path: %r..., %d bytes): the workers of two folders wrote into one inode through the hard-linked names "
            "'a' and 'b'; the result depends on which worker comes last" % (len(got_b), got_b[:6], len(B), B[:6], ref_b[:6], len(ref_b))
        )
        sys.exit(1)
    print("PASS" if err is None else "PASS (refused: %r)" % (err,))
    sys.exit(0)


main()
