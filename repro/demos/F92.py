"""C08: appending to a third-party archive whose folder has several packed streams (BCJ2: four packed streams for one
folder; fixtures tests/data/lzma_bcj2_1.7z, lzma2bcj2.7z, lzma2bcj2_2.7z, test_lzma2bcj2.7z).  The append itself
writes a correct header (the new folder's packed stream is the 5th stream, right behind the four old ones) but
py7zr cannot read the member it has just appended: Worker.extract looks up the start of a folder in the table of
PACKED STREAM positions with the FOLDER number, so the new folder (folder 1) is decoded from the start of packed
stream 1, i.e. from the middle of the BCJ2 folder.

The base archive is tests/data/lzma_bcj2_1.7z (222 bytes, written by 7-Zip), embedded below."""
import base64
import io
import os
import shutil
import sys
import tempfile

sys.path.insert(0, os.getcwd())
import py7zr  # noqa: E402
from py7zr.io import Py7zIO, WriterFactory  # noqa: E402

FIXTURE = base64.b64decode(
    "N3q8ryccAAQxoKUXNAAAAAAAAACKAAAAAAAAAM+X+wQAKhoJJ2QZsDhzyosTIK86G42X+HwjTenhV9Tkl0JC0va53RgAAAAAAAAAAAAAAAAAAAAA"
    "AQQGAAQJJQUFBQAHCwEABCMDAQEFbAAQAAAjAwEBBWwAEAAAIwMBAQVdABAAABQDAwEbBAEFAAQBAwICBgEADAAAISEACAoBPmpiCAAABQEZCwAA"
    "AAAAAAAAAAAAERUAdABlAHMAdAAxAC4AdAB4AHQAAAAUCgEAgBk/NBWn1QEVBgEAIICkgQAA"
)


class Buf(Py7zIO):
    def __init__(self):
        self.b = io.BytesIO()

    def write(self, s):
        return self.b.write(s)

    def read(self, size=None):
        return b""

    def seek(self, offset, whence=0):
        return 0

    def flush(self):
        pass

    def size(self):
        return len(self.b.getvalue())


class Fac(WriterFactory):
    def __init__(self):
        self.d = {}

    def create(self, filename):
        self.d[filename] = Buf()
        return self.d[filename]


def read_member(path, name, as_stream):
    """the bytes py7zr delivers for one member (extract with targets: the other folders are not decoded)"""
    fp = open(path, "rb") if as_stream else None
    try:
        with py7zr.SevenZipFile(fp if as_stream else path, "r") as z:
            fac = Fac()
            z.extract(targets=[name], factory=fac)
            return {k: v.b.getvalue() for k, v in fac.d.items()}
    finally:
        if fp is not None:
            fp.close()


def main():
    print("py7zr from", py7zr.__file__)
    new = b"appended in session 2: " + bytes(range(256))
    problems = []
    td = tempfile.mkdtemp()
    try:
        path = os.path.join(td, "bcj2.7z")
        with open(path, "wb") as f:
            f.write(FIXTURE)
        with py7zr.SevenZipFile(path, "r") as z:
            assert z.getnames() == ["test1.txt"]
            packsizes = list(z.header.main_streams.packinfo.packsizes)
        assert packsizes == [37, 5, 5, 5], packsizes  # one folder, four packed streams
        # session 2: stored (Copy), so that the appended bytes can also be looked at in the file itself
        with py7zr.SevenZipFile(path, "a", filters=[{"id": py7zr.FILTER_COPY}]) as z:
            z.writestr(new, "new.bin")
        with py7zr.SevenZipFile(path, "r") as z:
            names = z.getnames()
            sizes = list(z.header.main_streams.packinfo.packsizes)
        if names != ["test1.txt", "new.bin"] or sizes != packsizes + [len(new)]:
            problems.append(f"unexpected header after the append: names {names}, packed sizes {sizes}")
        else:
            # the archive itself is right: the 5th packed stream starts behind the four old ones and holds the new member
            with open(path, "rb") as f:
                f.seek(32 + sum(packsizes))
                in_file = f.read(len(new))
            if in_file != new:
                problems.append("the appended bytes are not where the new header says they are")
        for as_stream in (False, True):
            how = "archive given as a stream" if as_stream else "archive given by name"
            try:
                got = read_member(path, "new.bin", as_stream)
            except Exception as e:  # noqa
                problems.append(f"{how}: extracting the appended member 'new.bin' raises {type(e).__name__}({e})")
                continue
            if got != {"new.bin": new}:
                d = got.get("new.bin")
                problems.append(
                    f"{how}: the appended member 'new.bin' is read with wrong content "
                    f"({None if d is None else d[:16]!r}... instead of {new[:16]!r}...)"
                )
    finally:
        shutil.rmtree(td, ignore_errors=True)
    if problems:
        print("FAIL: the member appended to an archive with a BCJ2 folder cannot be read back")
        for p in problems:
            print("   -", p)
        return 1
    print("PASS")
    return 0


if __name__ == "__main__":
    sys.exit(main())
