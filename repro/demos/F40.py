"""C08: creation and last-access time stamps (kCTime / kATime) of the members that were already in the archive
are dropped by an append session: Header.write re-emits only kMTime.  py7zr itself reports the values before the
append (ArchiveFile.file_properties()['creationtime'/'lastaccesstime']) and None afterwards."""
import io
import os
import shutil
import struct
import sys
import tempfile
import zlib

sys.path.insert(0, os.getcwd())
import py7zr  # noqa: E402


def crc(b):
    return zlib.crc32(b) & 0xFFFFFFFF


T0 = 132356171357647984  # FILETIME, 2020-06-02


def build(members):
    """members: list of (name, data, ctime, atime, mtime); one solid Copy folder; all three time vectors present."""
    n = len(members)
    datas = [m[1] for m in members]
    body = b"".join(datas)
    h = io.BytesIO()
    h.write(b"\x01\x04")
    h.write(b"\x06\x00\x01\x09" + bytes([len(body)]) + b"\x00")
    h.write(b"\x07\x0b\x01\x00\x01\x01\x00\x0c" + bytes([len(body)]) + b"\x00")
    h.write(b"\x08\x0d" + bytes([n]) + b"\x09" + bytes(len(d) for d in datas[:-1]))
    h.write(b"\x0a\x01" + b"".join(struct.pack("<L", crc(d)) for d in datas) + b"\x00\x00")
    h.write(b"\x05" + bytes([n]))
    nb = b"".join(m[0].encode("utf-16-le") + b"\x00\x00" for m in members)
    h.write(b"\x11" + bytes([len(nb) + 1]) + b"\x00" + nb)
    for pid, col in ((0x12, 2), (0x13, 3), (0x14, 4)):
        payload = b"\x01\x00" + b"".join(struct.pack("<Q", m[col]) for m in members)
        h.write(bytes([pid, len(payload)]) + payload)
    at = b"\x01\x00" + struct.pack("<L", 0x20) * n
    h.write(b"\x15" + bytes([len(at)]) + at)
    h.write(b"\x00\x00")
    hdr = h.getvalue()
    start = struct.pack("<QQL", len(body), len(hdr), crc(hdr))
    return b"7z\xbc\xaf\x27\x1c\x00\x04" + struct.pack("<L", crc(start)) + start + body + hdr


def view(path):
    with py7zr.SevenZipFile(path, "r") as z:
        out = []
        for f in z.files:
            p = f.file_properties()
            out.append((p["filename"], p.get("creationtime"), p.get("lastaccesstime"), p.get("lastwritetime"), p.get("attributes")))
        return out


def main():
    print("py7zr from", py7zr.__file__)
    members = [
        ("a.txt", b"alpha", T0 + 10, T0 + 20, T0 + 30),
        ("b.txt", b"bravo!", T0 + 11, T0 + 21, T0 + 31),
    ]
    problems = []
    td = tempfile.mkdtemp()
    try:
        path = os.path.join(td, "base.7z")
        with open(path, "wb") as f:
            f.write(build(members))
        before = view(path)
        assert before == [(m[0], m[2], m[3], m[4], 0x20) for m in members], before
        with py7zr.SevenZipFile(path, "a") as z:
            z.writestr(b"appended", "c.txt")
        after = view(path)
        for b, a in zip(before, after):
            for what, x, y in (("creation time", b[1], a[1]), ("last access time", b[2], a[2]), ("last write time", b[3], a[3]), ("attributes", b[4], a[4])):
                if x != y:
                    problems.append(f"{b[0]}: {what} {x!r} -> {y!r}")
        if len(after) != 3:
            problems.append(f"member count {len(after)}")
        # the same on a third-party fixture of the test suite, when it is there
        fixture = os.path.join(os.getcwd(), "tests", "data", "test_3.7z")
        if os.path.exists(fixture):
            p2 = os.path.join(td, "test_3.7z")
            shutil.copy(fixture, p2)
            b2 = view(p2)
            with py7zr.SevenZipFile(p2, "a") as z:
                z.writestr(b"appended", "zz_new.txt")
            a2 = view(p2)
            lost = [b[0] for b, a in zip(b2, a2) if (b[1], b[2]) != (a[1], a[2])]
            if lost:
                problems.append(f"fixture test_3.7z: creation/access time lost for {len(lost)} of {len(b2)} old members, e.g. {lost[0]}")
    finally:
        shutil.rmtree(td, ignore_errors=True)
    if problems:
        print("FAIL: append drops creation / last-access time stamps of the members that were already there")
        for p in problems:
            print("   -", p)
        return 1
    print("PASS")
    return 0


if __name__ == "__main__":
    sys.exit(main())
