"""C03: a member is written outside the destination when the links it passes through lie beneath a real path
of PATH_MAX (4096) bytes or more.

is_path_contained() relies on os.path.realpath(); realpath (non strict) treats every component whose lstat() fails as
"not a link" - and lstat() fails with ENAMETOOLONG once the *resolved* path grows to 4096 bytes.  The kernel has no
such limit while it walks a short spelling that goes through a link ('s' -> 15 long directories).  Beneath that point
the containment check is purely textual again, so the two-link trick ('a' -> '.', then 'a/.../a/b' -> '../../..')
that the realpath check was introduced against works as before.
"""
import io
import os
import shutil
import struct
import sys
import tempfile
import zlib

import py7zr


def num(v):
    if v < 0x80:
        return bytes([v])
    if v < 0x4000:
        return bytes([0x80 | (v >> 8), v & 0xFF])
    return bytes([0xC0 | (v >> 16), v & 0xFF, (v >> 8) & 0xFF])


def bits(flags):
    out = bytearray((len(flags) + 7) // 8)
    for i, b in enumerate(flags):
        if b:
            out[i // 8] |= 0x80 >> (i % 8)
    return bytes(out)


def build(members):
    """members: (name, kind, data) with kind in 'dir', 'link', 'file'; one Copy folder, plain header"""
    streams = [d for (_, k, d) in members if k != "dir"]
    packed = b"".join(streams)
    h = b"\x01\x04"
    h += b"\x06" + num(0) + num(1) + b"\x09" + num(len(packed)) + b"\x00"
    h += b"\x07\x0b" + num(1) + b"\x00" + b"\x01\x01\x00" + b"\x0c" + num(len(packed)) + b"\x00"
    h += b"\x08\x0d" + num(len(streams)) + b"\x09" + b"".join(num(len(s)) for s in streams[:-1])
    h += b"\x0a\x01" + b"".join(struct.pack("<L", zlib.crc32(s)) for s in streams) + b"\x00\x00"
    h += b"\x05" + num(len(members))
    bv = bits([k == "dir" for (_, k, _) in members])
    h += b"\x0e" + num(len(bv)) + bv
    names = b"".join(n.encode("utf-16-le") + b"\x00\x00" for (n, _, _) in members)
    h += b"\x11" + num(len(names) + 1) + b"\x00" + names
    attr = {"dir": 0x10 | 0x8000 | (0o040755 << 16), "link": 0x20 | 0x8000 | (0o120777 << 16), "file": 0x20 | 0x8000 | (0o100644 << 16)}
    body = b"\x01\x00" + b"".join(struct.pack("<L", attr[k]) for (_, k, _) in members)
    h += b"\x15" + num(len(body)) + body + b"\x00\x00"
    start = struct.pack("<QQL", len(packed), len(h), zlib.crc32(h))
    return b"7z\xbc\xaf\x27\x1c\x00\x04" + struct.pack("<L", zlib.crc32(start)) + start + packed + h


def snapshot(root, jail):
    res = {}
    for dp, dn, fn in os.walk(root):
        if dp == jail:
            dn[:] = []
            continue
        for n in dn + fn:
            p = os.path.join(dp, n)
            if p != jail:
                st = os.lstat(p)
                res[p] = (st.st_mode, st.st_size, st.st_mtime_ns)
    return res


def main():
    root = os.path.realpath(tempfile.mkdtemp(prefix="c03_"))
    try:
        jail = os.path.join(root, "jail")
        os.mkdir(jail)
        with open(os.path.join(root, "neighbour.txt"), "w") as f:
            f.write("untouched")
        d1 = "/".join(["d" * 255] * 15)  # 3839 bytes: jail/d1 is still a legal path
        e, f_ = "e" * 255, "f" * 255  # jail/d1/e/f is not
        members = [
            (d1, "dir", b""),
            ("s", "link", d1.encode()),  # short spelling of the deep directory
            (f"s/{e}/{f_}/a", "link", b"."),
            (f"s/{e}/{f_}/" + "a/" * 20 + "b", "link", b"../" * 18),  # textually inside; really <deep>/b -> parent of jail
            (f"s/{e}/{f_}/b/evil.txt", "file", b"EVIL"),
        ]
        data = build(members)
        before = snapshot(root, jail)
        outcome = "completed"
        try:
            with py7zr.SevenZipFile(io.BytesIO(data), "r") as z:
                z.extractall(path=jail)
        except Exception as ex:  # raising is allowed
            outcome = "raised %s: %s" % (type(ex).__name__, str(ex)[:100])
        after = snapshot(root, jail)
        changed = sorted(k for k in set(before) | set(after) if before.get(k) != after.get(k))
        if changed:
            print("FAIL: extraction (%s) touched paths outside the destination %s:" % (outcome, jail))
            for k in changed:
                print("   ", k, "(created)" if k not in before else "(changed)")
            return 1
        print("PASS: extraction %s; nothing outside the destination changed" % outcome)
        return 0
    finally:
        shutil.rmtree(root, ignore_errors=True)


if __name__ == "__main__":
    sys.exit(main())
