"""C01 demo 2: the zero padding that 7zAES adds to reach a 16-byte boundary is not cut off when reading.

Writer: AESCompressor.flush() pads the last block with zeros; the true length is recorded as the unpack size
of the AES coder.  Reader: SevenZipDecompressor._decompress() hands the *whole* decrypted block (data + padding)
to the next coder and never trims a stage to its declared unpack size.  Coders that find their own end of
stream (LZMA, Deflate, BZip2 ...) hide this, the others do not:

 * [X86, COPY, 7zAES]: the padding reaches the BCJ decoder; a member that ends in E8 xx.. (an x86 CALL opcode in
   its last 4 bytes) is "un-converted" together with the padding -> wrong bytes (reported as CrcError).
 * [BROTLI, 7zAES]: the padding is fed to the brotli decoder -> "brotli: decoder failed" for most sizes.
Both archives are written without complaint, so what was written cannot be read back.
"""
import io
import sys

import py7zr
from py7zr import FILTER_BROTLI, FILTER_COPY, FILTER_CRYPTO_AES256_SHA256, FILTER_X86

PW = "secret"


def roundtrip(filters, members, password):
    bio = io.BytesIO()
    with py7zr.SevenZipFile(bio, "w", filters=filters, password=password) as z:
        for name, data in members:
            z.writestr(data, name)
    bio.seek(0)
    with py7zr.SevenZipFile(bio, "r", password=password) as z:
        names = z.getnames()
        fac = py7zr.io.BytesIOFactory(1 << 30)
        z.extractall(factory=fac)
    out = {}
    for k, v in fac.products.items():
        v.seek(0)
        out[k] = v.read()
    if names != [m[0] for m in members]:
        return "names differ: %r" % (names,)
    for n, d in members:
        if out.get(n) != d:
            return "content of %r differs: got %r expected %r" % (n, out.get(n), d)
    return None


def attempt(label, filters, members, password):
    try:
        r = roundtrip(filters, members, password)
    except Exception as e:  # noqa
        r = "%s: %s" % (type(e).__name__, e)
    print("%-34s %s" % (label, "ok" if r is None else r))
    return r


def main():
    print("py7zr from", py7zr.__file__)
    # push rbp; mov rbp,rsp; call rel32 (truncated: the file ends inside the instruction)
    code = bytes.fromhex("554889e5") + bytes.fromhex("e89b52")
    text = b"The quick brown fox jumps over the lazy dog"
    failures = []
    # control: same chains without encryption, and an encrypted chain whose coder knows its own end
    for label, filters, members, pw in [
        ("X86+COPY (control)", [{"id": FILTER_X86}, {"id": FILTER_COPY}], [("f.bin", code)], None),
        ("BROTLI (control)", [{"id": FILTER_BROTLI, "level": 5}], [("t.txt", text)], None),
        ("COPY+7zAES (control)", [{"id": FILTER_COPY}, {"id": FILTER_CRYPTO_AES256_SHA256}], [("f.bin", code)], PW),
    ]:
        if attempt(label, filters, members, pw) is not None:
            print("unexpected: control failed")
    for label, filters, members, pw in [
        ("X86+COPY+7zAES", [{"id": FILTER_X86}, {"id": FILTER_COPY}, {"id": FILTER_CRYPTO_AES256_SHA256}], [("f.bin", code)], PW),
        ("X86+COPY+7zAES (2 members)", [{"id": FILTER_X86}, {"id": FILTER_COPY}, {"id": FILTER_CRYPTO_AES256_SHA256}],
         [("a.bin", text), ("b.bin", code)], PW),
        ("BROTLI+7zAES (3-byte member)", [{"id": FILTER_BROTLI, "level": 5}, {"id": FILTER_CRYPTO_AES256_SHA256}], [("t.txt", b"hi!")], PW),
        ("BROTLI+7zAES (41-byte member)", [{"id": FILTER_BROTLI, "level": 5}, {"id": FILTER_CRYPTO_AES256_SHA256}], [("t.txt", text[:41])], PW),
    ]:
        r = attempt(label, filters, members, pw)
        if r is not None:
            failures.append((label, r))
    if failures:
        print("FAIL: %d chain(s) followed by 7zAES do not round-trip (AES padding leaks into the next coder)" % len(failures))
        return 1
    print("PASS")
    return 0


if __name__ == "__main__":
    sys.exit(main())
