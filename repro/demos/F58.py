"""C10: archiveinfo() works for an archive opened by path but not for the same bytes opened as a stream.

The archive summary (total size, block count, solid flag, method names) only depends on the
parsed header, yet archiveinfo() insists on os.stat() of a file name: for a file object without
a name (io.BytesIO, SpooledTemporaryFile, a socket/HTTP body wrapper ...) it dies with a bare
AssertionError (TypeError from os.stat under python -O) instead of describing the archive.
All other listing calls work on the stream.
"""
import io
import os
import sys
import tempfile

import py7zr


def summary(z):
    ai = z.archiveinfo()
    return {
        "uncompressed": ai.uncompressed,
        "blocks": ai.blocks,
        "solid": ai.solid,
        "method_names": ai.method_names,
    }


def main():
    buf = io.BytesIO()
    with py7zr.SevenZipFile(buf, "w") as z:
        z.writestr(b"a" * 1000, "a.txt")
        z.writestr(b"b" * 10, "sub/b.txt")
    arc = buf.getvalue()

    with tempfile.TemporaryDirectory() as tmp:
        p = os.path.join(tmp, "x.7z")
        with open(p, "wb") as f:
            f.write(arc)
        with py7zr.SevenZipFile(p, "r") as z:
            by_path = summary(z)
    expected = {"uncompressed": 1010, "blocks": 1, "solid": True, "method_names": ["LZMA2", "BCJ"]}
    if by_path != expected:
        print("unexpected summary by path:", by_path)

    with py7zr.SevenZipFile(io.BytesIO(arc), "r") as z:
        # the other listing calls are fine on a stream
        assert z.getnames() == ["a.txt", "sub/b.txt"]
        assert [f.uncompressed for f in z.list()] == [1000, 10]
        assert z.needs_password() is False
        try:
            by_stream = summary(z)
        except BaseException as e:  # AssertionError
            print(f"FAIL: archiveinfo() on a stream-opened archive raised {e!r}; by path it returns {by_path}")
            return 1
    if by_stream != by_path:
        print(f"FAIL: summaries differ: stream {by_stream} path {by_path}")
        return 1
    print("PASS")
    return 0


if __name__ == "__main__":
    sys.exit(main())
