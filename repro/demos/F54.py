#!/usr/bin/env python
"""C05 demo 1: the extraction loop and the encoded-header loop spin forever when the declared
pack size is larger than the bytes that are left in the file (e.g. a file whose tail was cut off).

Run as:  cd <worktree> && python demo.py
"""
import lzma
import os
import shutil
import struct
import subprocess
import sys
import tempfile
import zlib

sys.path.insert(0, os.getcwd())

MAGIC = b"7z\xbc\xaf\x27\x1c"
WATCHDOG = 8  # seconds; the archives are < 300 bytes, every call should take milliseconds


def u64(v):  # 7z variable length number
    if v < 0x80:
        return bytes([v])
    for n in range(1, 8):
        if v < (1 << (8 * n + (7 - n))):
            return bytes([((0xFF << (8 - n)) & 0xFF) | (v >> (8 * n))]) + (v & ((1 << (8 * n)) - 1)).to_bytes(n, "little")
    return b"\xff" + v.to_bytes(8, "little")


def crc(b):
    return zlib.crc32(b) & 0xFFFFFFFF


def sig(nextofs, nextsize, nextcrc):
    start = struct.pack("<QQL", nextofs, nextsize, nextcrc)
    return MAGIC + b"\x00\x04" + struct.pack("<L", crc(start)) + start


def names(lst):
    body = b"\x00" + b"".join(n.encode("utf-16le") + b"\x00\x00" for n in lst)
    return b"\x11" + u64(len(body)) + body


def header_first_lzma2(payload):
    """Legal but unusual layout: [signature][header][packed stream]; packpos = len(header)."""
    flt = {"id": lzma.FILTER_LZMA2, "dict_size": 1 << 16}
    packed = lzma.compress(payload, format=lzma.FORMAT_RAW, filters=[flt])
    prop = lzma._encode_filter_properties(flt)

    def hdr(packpos):
        pi = b"\x06" + u64(packpos) + u64(1) + b"\x09" + u64(len(packed)) + b"\x00"
        ui = b"\x07\x0b\x01\x00" + b"\x01" + b"\x21\x21" + u64(len(prop)) + prop + b"\x0c" + u64(len(payload)) + b"\x00"
        ss = b"\x08\x0a\x01" + struct.pack("<L", crc(payload)) + b"\x00"
        return b"\x01\x04" + pi + ui + ss + b"\x00" + b"\x05\x01" + names(["a.txt"]) + b"\x00\x00"

    h = hdr(len(hdr(0)))  # packpos < 128: one byte either way
    assert len(h) == len(hdr(0))
    return sig(0, len(h), crc(h)) + h + packed


def copy_encoded_header(extra):
    """Archive whose header is 'encoded' with the Copy method; the pack/unpack size of the header stream is
    `extra` bytes larger than what the file holds."""
    plain = b"\x01\x05\x01" + b"\x0e\x01\x80" + names(["d"]) + b"\x00\x00"  # one empty-stream member (a directory)
    n = len(plain) + extra
    enc = b"\x17" + b"\x06" + u64(0) + u64(1) + b"\x09" + u64(n) + b"\x00" + b"\x07\x0b\x01\x00" + b"\x01\x01\x00" + b"\x0c" + u64(n) + b"\x00" + b"\x00"
    # layout: [signature][encoded-header record][packed header stream]; packpos = len(enc)
    enc = b"\x17" + b"\x06" + u64(len(enc)) + enc[3:]
    return sig(0, len(enc), crc(enc)) + enc + plain


CHILD = r"""
import sys, os
sys.path.insert(0, os.getcwd())
import py7zr
path, call, outdir = sys.argv[1], sys.argv[2], sys.argv[3]
try:
    with py7zr.SevenZipFile(path, "r") as z:
        if call == "extractall":
            z.extractall(outdir)
            print("returned", sorted(os.listdir(outdir)))
        elif call == "testzip":
            print("returned", z.testzip())
        else:
            print("returned", z.getnames())
except Exception as e:
    print("raised", type(e).__name__, str(e)[:100])
"""


def run(data, call):
    scratch = tempfile.mkdtemp()
    path = os.path.join(scratch, "t.7z")
    outdir = os.path.join(scratch, "out")
    os.mkdir(outdir)
    with open(path, "wb") as f:
        f.write(data)
    try:
        r = subprocess.run([sys.executable, "-c", CHILD, path, call, outdir], capture_output=True, text=True, timeout=WATCHDOG)
        return r.stdout.strip() or ("exit status %d: %s" % (r.returncode, r.stderr.strip()[-200:]))
    except subprocess.TimeoutExpired:
        return None
    finally:
        shutil.rmtree(scratch, ignore_errors=True)


def main():
    import py7zr

    print("py7zr from", py7zr.__file__)
    problems = []
    good = header_first_lzma2(b"hello world, " * 40)
    ref = run(good, "extractall")
    print("complete file (%d bytes): extractall -> %s" % (len(good), ref))
    if ref is None or not ref.startswith("returned"):
        print("FAIL: reference archive is not accepted, demo is not meaningful:", ref)
        return 1
    cut = good[:-10]
    for call in ("extractall", "testzip"):
        res = run(cut, call)
        print("tail cut by 10 bytes (%d bytes): %s -> %s" % (len(cut), call, res if res else "NO ANSWER within %d s" % WATCHDOG))
        if res is None:
            problems.append("%s on a truncated %d-byte archive did not finish within %d s" % (call, len(cut), WATCHDOG))
    ref = run(copy_encoded_header(0), "open")
    print("encoded header, sizes exact: open -> %s" % ref)
    bad = copy_encoded_header(100)
    res = run(bad, "open")
    print("encoded header, pack size 100 bytes beyond end of file (%d bytes): open -> %s" % (len(bad), res if res else "NO ANSWER within %d s" % WATCHDOG))
    if res is None:
        problems.append("SevenZipFile() on a %d-byte archive did not finish within %d s" % (len(bad), WATCHDOG))
    if problems:
        print("FAIL: " + "; ".join(problems) + " (the decode loops wait for input that can never arrive)")
        return 1
    print("PASS: every call returned or raised in bounded time")
    return 0


if __name__ == "__main__":
    sys.exit(main())
