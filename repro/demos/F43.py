"""C06 demo 3: a folder coded as Delta + (BZip2 | Deflate | Copy) cannot be read.

Delta, BZip2, Deflate and Copy are all coders py7zr supports, and 7-Zip writes such folders
(`7z a -m0=Delta:2 -m1=BZip2`, typical for PCM audio).  The folder lists [compressor, Delta] with the
bind pair Delta.in <- compressor.out, exactly like the Delta + LZMA2 folders py7zr reads fine.
SevenZipDecompressor classifies Delta as a "native" (liblzma) filter and, when the compressor is not
LZMA/LZMA2, builds a raw liblzma chain that consists of the Delta filter alone, which liblzma rejects:
lzma.LZMAError("Invalid or unsupported options").
"""
import bz2, io, lzma, os, struct, sys, zlib

sys.path.insert(0, os.getcwd())
import py7zr  # noqa: E402
from py7zr.io import BytesIOFactory  # noqa: E402


def num(v):
    if v < 0x80:
        return bytes([v])
    for n in range(1, 8):
        if v < (1 << (7 * n + 7)):
            return bytes([((0xFF << (8 - n)) & 0xFF) | (v >> (8 * n))]) + (v & ((1 << (8 * n)) - 1)).to_bytes(n, "little")
    return b"\xff" + v.to_bytes(8, "little")


def crc(b):
    return zlib.crc32(b) & 0xFFFFFFFF


def delta_encode(data, dist):
    return bytes((data[i] - (data[i - dist] if i >= dist else 0)) & 0xFF for i in range(len(data)))


def build(members, comp_id, comp_props, packed, dist):
    raw = b"".join(d for _, d in members)
    h = bytearray([0x01, 0x04])
    h += bytes([0x06]) + num(0) + num(1) + bytes([0x09]) + num(len(packed)) + bytes([0x00])
    h += bytes([0x07, 0x0B]) + num(1) + b"\x00" + num(2)
    h += bytes([len(comp_id) | (0x20 if comp_props is not None else 0)]) + comp_id
    if comp_props is not None:
        h += num(len(comp_props)) + comp_props
    h += bytes([0x21, 0x03, 0x01, dist - 1])  # Delta: id 03, one property byte (distance - 1)
    h += num(1) + num(0)  # bind pair: Delta.in <- compressor.out
    h += bytes([0x0C]) + num(len(raw)) + num(len(raw)) + bytes([0x00])
    h += bytes([0x08, 0x0D]) + num(len(members)) + bytes([0x09])
    for _, d in members[:-1]:
        h += num(len(d))
    h += bytes([0x0A, 0x01]) + b"".join(struct.pack("<L", crc(d)) for _, d in members) + bytes([0x00, 0x00])
    h += bytes([0x05]) + num(len(members))
    names = b"\x00" + b"".join(n.encode("utf-16-le") + b"\x00\x00" for n, _ in members)
    h += bytes([0x11]) + num(len(names)) + names
    attrs = b"\x01\x00" + struct.pack("<L", 0x20) * len(members)
    h += bytes([0x15]) + num(len(attrs)) + attrs + bytes([0x00, 0x00])
    h = bytes(h)
    start = struct.pack("<QQL", len(packed), len(h), crc(h))
    return b"7z\xbc\xaf\x27\x1c\x00\x04" + struct.pack("<L", crc(start)) + start + packed + h


def deflate(d):
    c = zlib.compressobj(wbits=-15)
    return c.compress(d) + c.flush()


def lzma2(d):
    return lzma.compress(d, lzma.FORMAT_RAW, filters=[{"id": lzma.FILTER_LZMA2, "dict_size": 1 << 16}])


def main():
    print("py7zr from", py7zr.__file__)
    members = [("left.pcm", bytes((i * 3) & 0xFF for i in range(3000))), ("right.pcm", bytes((i * 7 + 1) & 0xFF for i in range(1001)))]
    raw = b"".join(d for _, d in members)
    dist = 2
    filtered = delta_encode(raw, dist)
    lz2props = lzma._encode_filter_properties({"id": lzma.FILTER_LZMA2, "dict_size": 1 << 16})
    cases = [
        ("control: Delta + LZMA2", b"\x21", lz2props, lzma2(filtered)),
        ("Delta + BZip2", b"\x04\x02\x02", None, bz2.compress(filtered)),
        ("Delta + Deflate", b"\x04\x01\x08", None, deflate(filtered)),
        ("Delta + Copy", b"\x00", None, filtered),
    ]
    failed = []
    for title, cid, cprops, packed in cases:
        blob = build(members, cid, cprops, packed, dist)
        try:
            with py7zr.SevenZipFile(io.BytesIO(blob)) as z:
                if z.getnames() != [n for n, _ in members]:
                    failed.append("%s: names %r" % (title, z.getnames()))
                fac = BytesIOFactory(1 << 20)
                z.extractall(factory=fac)
            got = {}
            for k, v in fac.products.items():
                v.seek(0)
                got[k] = v.read()
            if got != dict(members):
                failed.append("%s: extracted bytes differ" % title)
            else:
                print("  ok  :", title)
        except Exception as e:  # noqa
            failed.append("%s: %s: %s" % (title, type(e).__name__, e))
    if failed:
        print("FAIL: folders that combine the Delta filter with a supported non-LZMA compressor are not read")
        for f in failed:
            print("  -", f)
        return 1
    print("PASS")
    return 0


if __name__ == "__main__":
    sys.exit(main())
