"""C07 - the archive that a failed append session writes back is not well-formed: the packed sizes do not tile the data area.

When a source fails midway in an append session, close() raises ArchiveError and "puts the archive back as it was when it was
opened" (_restore_header_at_open).  The old header is written again - but at the position the handle has reached, behind
everything the broken session had already written, and the file is cut only behind that header.  The result declares 300
bytes of packed data and has a megabyte of unreferenced bytes between them and the next header (a 432 byte archive has become
a 1 MiB one).  The same happens when the header of the session cannot be written (_write_flush's except branch).

Run: cd /tmp/rt/HD07 && /venv/bin/python demo.py
"""
import io, os, shutil, sys, tempfile

sys.path.insert(0, os.getcwd())
import py7zr  # noqa: E402

# ---------------------------------------------------------------------------------------------------------------------------
# A small independent 7z reader (shares no code with py7zr): strict about the structure, decodes COPY and LZMA2 only.
import lzma, struct, zlib


class Refused(Exception):
    pass


class Rd:
    def __init__(self, data):
        self.d, self.p = bytes(data), 0

    def read(self, n):
        if self.p + n > len(self.d):
            raise Refused("header record runs past its end")
        self.p += n
        return self.d[self.p - n : self.p]

    def byte(self):
        return self.read(1)[0]

    def num(self):
        first, mask, val = self.byte(), 0x80, 0
        for i in range(8):
            if not first & mask:
                return val | (first & (mask - 1)) << (8 * i)
            val |= self.byte() << (8 * i)
            mask >>= 1
        return val

    def bits(self, n):
        raw = self.read((n + 7) // 8)
        return [bool(raw[i // 8] & (0x80 >> (i % 8))) for i in range(n)]

    def boollist(self, n):
        return [True] * n if self.byte() else self.bits(n)


def _expect(r, what, tid):
    t = r.byte()
    if t != tid:
        raise Refused(f"{what}: id {tid:#x} expected, {t:#x} found")


def _streams(r):
    """StreamsInfo -> (packpos, packsizes, folders[{coders, unpack, crc}], counts, sizes, crcs)"""
    packpos, packsizes, folders, t = 0, [], [], r.byte()
    if t == 0x06:
        packpos, n = r.num(), r.num()
        _expect(r, "PackInfo", 0x09)
        packsizes = [r.num() for _ in range(n)]
        t = r.byte()
        if t == 0x0A:
            for d in r.boollist(n):
                if d:
                    r.read(4)
            t = r.byte()
        if t != 0:
            raise Refused("PackInfo: END expected")
        t = r.byte()
    if t == 0x07:
        _expect(r, "UnpackInfo", 0x0B)
        nf = r.num()
        _expect(r, "UnpackInfo external", 0x00)
        for _ in range(nf):
            coders = []
            for _ in range(r.num()):
                flag = r.byte()
                if flag & 0x10:
                    raise Refused("complex coder")
                cid = r.read(flag & 15)
                coders.append((cid, r.read(r.num()) if flag & 0x20 else None))
            pairs = [(r.num(), r.num()) for _ in range(len(coders) - 1)]
            folders.append({"coders": coders, "pairs": pairs, "crc": None})
        _expect(r, "UnpackInfo", 0x0C)
        for f in folders:
            f["unpack"] = [r.num() for _ in f["coders"]]
        t = r.byte()
        if t == 0x0A:
            for f, d in zip(folders, r.boollist(nf)):
                f["crc"] = struct.unpack("<L", r.read(4))[0] if d else None
            t = r.byte()
        if t != 0:
            raise Refused("UnpackInfo: END expected")
        t = r.byte()
    counts = [1] * len(folders)
    sizes = [[f["unpack"][-1]] for f in folders]
    crcs = [[f["crc"]] for f in folders]
    if t == 0x08:
        t = r.byte()
        if t == 0x0D:
            counts = [r.num() for _ in folders]
            t = r.byte()
        sizes = [[f["unpack"][-1]] if c == 1 else [] for f, c in zip(folders, counts)]
        if t == 0x09:
            for i, (f, c) in enumerate(zip(folders, counts)):
                if c:
                    s = [r.num() for _ in range(c - 1)]
                    sizes[i] = s + [f["unpack"][-1] - sum(s)]
            t = r.byte()
        known = [c == 1 and f["crc"] is not None for f, c in zip(folders, counts)]
        crcs = [[f["crc"]] if k else [None] * c for f, c, k in zip(folders, counts, known)]
        if t == 0x0A:
            d = r.boollist(sum(c for c, k in zip(counts, known) if not k))
            vals = iter([struct.unpack("<L", r.read(4))[0] if x else None for x in d])
            crcs = [[f["crc"]] if k else [next(vals) for _ in range(c)] for f, c, k in zip(folders, counts, known)]
            t = r.byte()
        if t != 0:
            raise Refused("SubStreamsInfo: END expected")
        t = r.byte()
    if t != 0:
        raise Refused("StreamsInfo: END expected")
    if len(packsizes) != len(folders):
        raise Refused("number of packed streams and of folders differ")
    return packpos, packsizes, folders, counts, sizes, crcs


def _decode(folder, packed):
    data = packed
    for (cid, props), size in zip(folder["coders"], folder["unpack"]):  # a chain as py7zr writes it: coder 0 reads the packed stream
        if cid == b"\x21":
            dict_size = 0xFFFFFFFF if props[0] == 40 else (2 | (props[0] & 1)) << (props[0] // 2 + 11)
            data = lzma.decompress(data, lzma.FORMAT_RAW, filters=[{"id": lzma.FILTER_LZMA2, "dict_size": dict_size}])
        elif cid != b"\x00":
            raise Refused(f"coder {cid.hex()} is not known to this reader")
        if len(data) != size:
            raise Refused(f"a coder yields {len(data)} bytes, the header declares {size}")
    if folder["crc"] is not None and zlib.crc32(data) != folder["crc"]:
        raise Refused("folder CRC mismatch")
    return data


def read_7z(blob):
    """-> (members, properties): members are (name, content or None for a directory); properties maps a property id to its
    list of values (0x12 creation, 0x13 access, 0x14 modification time, 0x15 attributes).  Raises Refused."""
    if len(blob) < 32 or blob[:8] != b"7z\xbc\xaf\x27\x1c\x00\x04":
        raise Refused("no signature header")
    if zlib.crc32(blob[12:32]) != struct.unpack("<L", blob[8:12])[0]:
        raise Refused("the CRC of the start header does not match")
    ofs, size, crc = struct.unpack("<QQL", blob[12:32])
    if 32 + ofs + size > len(blob):
        raise Refused("the next header lies beyond the end of the file")
    if 32 + ofs + size < len(blob):
        raise Refused(f"{len(blob) - 32 - ofs - size} bytes lie behind the next header")
    head = blob[32 + ofs : 32 + ofs + size]
    if zlib.crc32(head) != crc:
        raise Refused("the CRC of the next header does not match")
    regions = []
    r = Rd(head)
    t = r.byte()
    if t == 0x17:
        packpos, packsizes, folders, _, _, _ = _streams(r)
        regions.append((packpos, packpos + packsizes[0]))
        r = Rd(_decode(folders[0], blob[32 + packpos : 32 + packpos + packsizes[0]]))
        t = r.byte()
    if t != 0x01:
        raise Refused("Header expected")
    contents, t = [], r.byte()
    if t == 0x04:
        packpos, packsizes, folders, counts, sizes, crcs = _streams(r)
        for f, psize, fsizes, fcrcs in zip(folders, packsizes, sizes, crcs):
            regions.append((packpos, packpos + psize))
            data = _decode(f, blob[32 + packpos : 32 + packpos + psize])
            packpos += psize
            for s, c in zip(fsizes, fcrcs):
                if c is not None and zlib.crc32(data[:s]) != c:
                    raise Refused("member CRC mismatch")
                contents.append(data[:s])
                data = data[s:]
        t = r.byte()
    names, empty, props = [], [], {}
    if t == 0x05:
        n = r.num()
        empty = [False] * n
        while True:
            t = r.byte()
            if t == 0:
                break
            body = Rd(r.read(r.num()))
            if t == 0x0E:
                empty = body.bits(n)
            elif t == 0x11:
                body.byte()
                names = body.d[1:].decode("utf-16-le").split("\0")[:-1]
            elif t in (0x12, 0x13, 0x14, 0x15):
                defined = body.boollist(n)
                body.byte()
                props[t] = [struct.unpack("<Q" if t != 0x15 else "<L", body.read(8 if t != 0x15 else 4))[0] if d else None for d in defined]
        t = r.byte()
    if t != 0:
        raise Refused("Header: END expected")
    position = 0
    for start, end in sorted(regions):  # the packed streams tile the area between the signature header and the next header
        if start != position:
            raise Refused(f"{start - position} unreferenced bytes at offset {32 + position}, before a packed stream")
        position = end
    if position != ofs:
        raise Refused(f"{ofs - position} unreferenced bytes between the packed streams and the next header")
    if len(names) != len(empty) or len(contents) != empty.count(False):
        raise Refused("numbers of names, members and streams do not agree")
    streams = iter(contents)
    return [(name, None if e else next(streams)) for name, e in zip(names, empty)], props
# ---------------------------------------------------------------------------------------------------------------------------


class BreakingSource(io.BufferedIOBase):
    """A source of 3 MiB that fails after its first MiB has been read."""

    def __init__(self):
        self.pos, self.reads = 0, 0

    def seekable(self):
        return True

    def tell(self):
        return self.pos

    def seek(self, offset, whence=0):
        self.pos = 3 << 20 if whence == 2 else offset
        return self.pos

    def read(self, n=-1):
        self.reads += 1
        if self.reads > 1:
            raise OSError("the source broke")
        return bytes(1 << 20)


def main():
    tmp = tempfile.mkdtemp()
    try:
        path = os.path.join(tmp, "a.7z")
        copy = [{"id": py7zr.FILTER_COPY}]
        with py7zr.SevenZipFile(path, "w", filters=copy) as z:
            z.writestr(b"one" * 100, "one")
        before = open(path, "rb").read()
        assert read_7z(before)[0] == [("one", b"one" * 100)]
        # an append session that cannot be completed: py7zr puts the archive back as it was (that is its documented answer)
        try:
            with py7zr.SevenZipFile(path, "a", filters=copy) as z:
                z.writestr(b"two", "two")
                try:
                    z.writef(BreakingSource(), "broken")
                except OSError:
                    pass
        except py7zr.exceptions.ArchiveError as e:
            print(f"  close() reported: {e}")
        after = open(path, "rb").read()
        print(f"  archive before the session: {len(before)} bytes, after it: {len(after)} bytes")
        try:
            members, _ = read_7z(after)
        except Refused as e:
            print(f"FAIL: the archive that the failed append session wrote back is not well-formed: {e}")
            return 1
        if members != [("one", b"one" * 100)]:
            print(f"FAIL: members after the failed session: {[n for n, _ in members]}")
            return 1
        print("PASS")
        return 0
    finally:
        shutil.rmtree(tmp)


if __name__ == "__main__":
    sys.exit(main())
