"""C02: a tree with a relative link whose text passes through ANOTHER link that sorts (and so is extracted) later cannot be extracted.

    src/a/b/c/        directory
    src/a/x           regular file
    src/k -> a/b/c    link to a directory inside the tree
    src/j -> k/../../x  link to a file inside the tree (through k: a/b/c/../../x == a/x)

Both links are relative and their targets exist inside the tree.  writeall stores j before k (sorted listdir); on extraction
j's containment check runs while k does not exist yet, so realpath() treats 'k' as a plain name, 'k/../../x' leaves the target
directory textually, and extractall raises Bad7zFile - although the finished tree would be entirely inside the target directory.
"""
import os
import shutil
import sys
import tempfile

sys.path.insert(0, os.getcwd())
import py7zr  # noqa: E402


def main() -> int:
    here = os.getcwd()
    tmp = tempfile.mkdtemp(prefix="he02_k1_")
    try:
        src = os.path.join(tmp, "src")
        os.makedirs(os.path.join(src, "a", "b", "c"))
        with open(os.path.join(src, "a", "x"), "w") as f:
            f.write("hello")
        os.symlink("a/b/c", os.path.join(src, "k"))
        os.symlink("k/../../x", os.path.join(src, "j"))
        # the premise: j leads to a file inside the tree
        real = os.path.realpath(os.path.join(src, "j"))
        assert real == os.path.realpath(os.path.join(src, "a", "x")), real
        assert open(os.path.join(src, "j")).read() == "hello"

        arc = os.path.join(tmp, "t.7z")
        dst = os.path.join(tmp, "dst")
        os.mkdir(dst)
        os.chdir(src)
        with py7zr.SevenZipFile(arc, "w") as z:
            z.writeall(".")
        os.chdir(here)
        try:
            with py7zr.SevenZipFile(arc, "r") as z:
                names = z.getnames()
                z.extractall(dst)
        except Exception as e:
            print(f"FAIL: extractall of a tree whose links all stay inside it raised {type(e).__name__}: {e}")
            print(f"      members in archive order: {names}; left in the target: {sorted(os.listdir(dst))}")
            return 1
        problems = []
        for link, text in (("j", "k/../../x"), ("k", "a/b/c")):
            p = os.path.join(dst, link)
            if not os.path.islink(p) or os.readlink(p) != text:
                problems.append(f"{link}: expected link to {text!r}")
        if not problems and open(os.path.join(dst, "j")).read() != "hello":
            problems.append("j does not lead to the content of a/x")
        if problems:
            print("FAIL: " + "; ".join(problems))
            return 1
        print("PASS: both links were re-created with their texts")
        return 0
    finally:
        os.chdir(here)
        shutil.rmtree(tmp, ignore_errors=True)


if __name__ == "__main__":
    sys.exit(main())
