"""C04: the packed-stream CRC of an encoded header is read but never compared.
An encoded header is a packed stream described by PackInfo (+ optional packed-stream CRC) and a
folder (+ optional folder CRC). Header._read only compares the folder CRC "when defined"; when the
writer protected the header stream with the PackInfo CRC instead, nothing is verified, and a single
flipped bit inside the header stream yields a successful extraction under a different member name
(or of no members at all), and testzip() certifies the archive."""
import io
import os
import struct
import sys
import zlib

sys.path.insert(0, os.getcwd())
import py7zr  # noqa: E402


def crc(b):
    return zlib.crc32(b) & 0xFFFFFFFF


def build(members):
    """Reference writer. One solid Copy folder, per-file CRCs; the header is stored as an encoded
    header (Copy coder) whose packed stream is protected by a PackInfo CRC. All numbers < 0x80."""
    datas = [d for _, d in members]
    n = len(datas)
    body = b"".join(datas)
    h = b"\x01\x04"
    h += b"\x06\x00\x01\x09" + bytes([len(body)]) + b"\x00"
    h += b"\x07\x0b\x01\x00" + b"\x01\x01\x00" + b"\x0c" + bytes([len(body)]) + b"\x00"
    h += b"\x08\x0d" + bytes([n]) + b"\x09" + bytes(len(d) for d in datas[:-1])
    h += b"\x0a\x01" + b"".join(struct.pack("<L", crc(d)) for d in datas) + b"\x00"
    h += b"\x00"
    names = b"\x00" + b"".join(nm.encode("utf-16-le") + b"\x00\x00" for nm, _ in members)
    h += b"\x05" + bytes([n]) + b"\x11" + bytes([len(names)]) + names + b"\x00"
    h += b"\x00"
    name_off = 32 + len(body) + h.index(names) + 1  # file offset of the first name character
    ms_off = 32 + len(body) + 1  # file offset of the kMainStreamsInfo id
    # encoded header: PackInfo(packpos=len(body), 1 stream, size, CRC defined) + folder(Copy) without folder CRC
    e = b"\x17"
    e += b"\x06" + bytes([len(body)]) + b"\x01\x09" + bytes([len(h)]) + b"\x0a\x01" + struct.pack("<L", crc(h)) + b"\x00"
    e += b"\x07\x0b\x01\x00" + b"\x01\x01\x00" + b"\x0c" + bytes([len(h)]) + b"\x00"
    e += b"\x00"
    packed = body + h
    sh = struct.pack("<QQL", len(packed), len(e), crc(e))
    return b"7z\xbc\xaf\x27\x1c\x00\x04" + struct.pack("<L", crc(sh)) + sh + packed + e, name_off, ms_off


class Fac(py7zr.io.WriterFactory):
    def __init__(self):
        self.p = {}

    def create(self, filename):
        self.p[filename] = py7zr.io.Py7zBytesIO(filename, 1 << 30)
        return self.p[filename]


def read(data):
    fac = Fac()
    with py7zr.SevenZipFile(io.BytesIO(data), "r") as z:
        z.extractall(factory=fac)
    with py7zr.SevenZipFile(io.BytesIO(data), "r") as z:
        tz = z.testzip()
    return {k: v._buffer.getvalue() for k, v in fac.p.items()}, tz


def main() -> int:
    print("py7zr from", py7zr.__file__)
    members = [("a.txt", b"alpha " * 6), ("b.txt", b"beta " * 5)]
    pristine = dict(members)
    arc, name_off, ms_off = build(members)
    got, tz = read(arc)
    assert got == pristine and tz is None, (got, tz)
    problems = []
    for label, off, mask in (("name character", name_off, 0x10), ("kMainStreamsInfo id", ms_off, 0x04)):
        bad = bytearray(arc)
        bad[off] ^= mask
        try:
            got, tz = read(bytes(bad))
        except Exception as e:
            print("flip in %s -> %s %s (detected)" % (label, type(e).__name__, e))
            continue
        print("flip in %s (file offset %d) -> extractall succeeded, members %r, testzip() -> %r" % (label, off, sorted(got), tz))
        if got != pristine:
            problems.append("one flipped bit in the %s: success with members %r instead of %r, testzip() -> %r"
                            % (label, sorted(got), sorted(pristine), tz))
    if problems:
        print("FAIL: " + "; ".join(problems))
        return 1
    print("PASS")
    return 0


if __name__ == "__main__":
    sys.exit(main())
