"""C02: the target text of a relative symbolic link is not stored/restored as it is: it is passed through
pathlib on the way in (Worker._find_link_target: pathlib.Path(linkname).as_posix()) and again on the way out
(Worker._extract_single: pathlib.Path(dst)), which drops a leading './', a trailing '/', '/./' and doubled
slashes. os.readlink() of the extracted link differs from the source: './f' -> 'f', 'e/' -> 'e',
'..//g' -> '../g', '../d/./f' -> '../d/f'."""
import os
import pathlib
import shutil
import sys
import tempfile

sys.path.insert(0, os.getcwd())
import py7zr  # noqa: E402

LINKS = {
    "d/l1": "./f",  # sideways, to a file
    "d/l2": "e/",  # sideways, to a directory (shell completion style)
    "d/l3": "..//g",  # upward but inside
    "d/l4": "../d/./f",
    "d/l5": "./e/.",
    "d/plain": "e/../f",  # control: no '.' component or doubled slash, must (and does) round trip
}


def build(src: pathlib.Path) -> None:
    (src / "d" / "e").mkdir(parents=True)
    (src / "d" / "f").write_bytes(b"f\n")
    (src / "g").write_bytes(b"g\n")
    for name, text in LINKS.items():
        os.symlink(text, src / name)
        assert os.path.exists(src / name), name  # every target exists inside the tree


def check(src, out, label, problems):
    for name, text in LINKS.items():
        p = out / name
        if not p.is_symlink():
            problems.append(f"{label}: {name} is not a link after extraction")
            continue
        got = os.readlink(p)
        if got != os.readlink(src / name):
            problems.append(f"{label}: {name}: source link text {text!r}, extracted link text {got!r}")


def main() -> int:
    work = pathlib.Path(tempfile.mkdtemp(prefix="hd02_2_"))
    cwd = os.getcwd()
    problems = []
    try:
        src = work / "src"
        build(src)
        os.chdir(work)
        for pw in (None, "secret"):
            arc = work / f"t_{pw}.7z"
            with py7zr.SevenZipFile(arc, "w", password=pw) as z:
                z.writeall("src", arcname="top")
            with py7zr.SevenZipFile(arc, "r", password=pw) as z:
                z.extractall(work / f"out_{pw}")
            check(src, work / f"out_{pw}" / "top", f"writeall/extractall password={pw!r}", problems)
        os.chdir(src)
        py7zr.pack_7zarchive(str(work / "p"), ".")
        os.chdir(work)
        py7zr.unpack_7zarchive(str(work / "p.7z"), str(work / "outp"))
        check(src, work / "outp", "pack_7zarchive/unpack_7zarchive", problems)
    finally:
        os.chdir(cwd)
        shutil.rmtree(work, ignore_errors=True)
    if problems:
        print("FAIL: symbolic links do not come back with identical targets:")
        for p in problems:
            print("   ", p)
        return 1
    print("PASS")
    return 0


if __name__ == "__main__":
    sys.exit(main())
