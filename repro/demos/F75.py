"""C16: writestr/writef accept names whose backslashes the 7z name field (and py7zr's own reader) treats as
separators, so the closed archive lists absolute and root-climbing member names."""
import io
import os
import sys

sys.path.insert(0, os.getcwd())  # import the py7zr of the tree we are run from
import py7zr  # noqa: E402


def stays_inside(name: str) -> bool:
    """independent verdict on a listed member name: relative, and '..' never climbs above the root"""
    if name.startswith(("/", "\\")):
        return False
    depth = 0
    for part in name.replace("\\", "/").split("/"):
        if part in ("", "."):
            continue
        if part == "..":
            depth -= 1
            if depth < 0:
                return False
        else:
            depth += 1
    return True


CANDIDATES = ["\\abs.txt", "\\\\server\\share\\f.txt", "..\\..\\evil.txt", "a\\..\\..\\b.txt", "ok\\..\\fine.txt"]
problems = []
for use_writef in (False, True):
    for name in CANDIDATES:
        buf = io.BytesIO()
        accepted = True
        with py7zr.SevenZipFile(buf, "w") as z:
            z.writestr(b"keep", "keep.txt")
            try:
                if use_writef:
                    z.writef(io.BytesIO(b"data"), name)
                else:
                    z.writestr(b"data", name)
            except ValueError:
                accepted = False  # a rejection is a correct answer for the bad names
        buf.seek(0)
        with py7zr.SevenZipFile(buf, "r") as z:
            listed = z.getnames()
        if not accepted:
            if listed != ["keep.txt"]:
                problems.append(f"{name!r} rejected but archive changed: {listed}")
            continue
        for n in listed:
            if not stays_inside(n):
                api = "writef" if use_writef else "writestr"
                problems.append(f"{api}({name!r}) was accepted; the closed archive lists {n!r}")

if problems:
    print("FAIL: names accepted by the gate come out of the archive absolute / above the root:")
    for p in problems:
        print("  ", p)
    sys.exit(1)
print("PASS")
