"""C08: SevenZipFile(path, 'a') treats every Bad7zFile raised while parsing the existing archive as "this is not
a 7z file yet" and starts a NEW archive over it.  A conforming archive that py7zr's header parser rejects - here
one with an anti-item (kAnti property, written by 7-Zip's update mode) - is silently replaced: no exception, all
old members gone."""
import io
import os
import shutil
import struct
import sys
import tempfile
import zlib

sys.path.insert(0, os.getcwd())
import py7zr  # noqa: E402


def crc(b):
    return zlib.crc32(b) & 0xFFFFFFFF


def build_with_anti_item():
    body = b"hello"
    h = io.BytesIO()
    h.write(b"\x01\x04\x06\x00\x01\x09\x05\x00")  # kHeader kMainStreamsInfo kPackInfo pos=0 n=1 kSize 5 kEnd
    h.write(b"\x07\x0b\x01\x00\x01\x01\x00\x0c\x05\x00")  # kUnpackInfo: one Copy folder of 5 bytes
    h.write(b"\x08\x0a\x01" + struct.pack("<L", crc(body)) + b"\x00\x00")  # kSubStreamsInfo kCRC
    h.write(b"\x05\x02")  # kFilesInfo, 2 entries
    h.write(b"\x0e\x01\x40")  # kEmptyStream: entry 1
    h.write(b"\x10\x01\x80")  # kAnti: entry 1 is an anti-item
    nb = b"".join(x.encode("utf-16-le") + b"\x00\x00" for x in ["keep.txt", "deleted.txt"])
    h.write(b"\x11" + bytes([len(nb) + 1]) + b"\x00" + nb)
    h.write(b"\x00\x00")
    hdr = h.getvalue()
    start = struct.pack("<QQL", len(body), len(hdr), crc(hdr))
    return b"7z\xbc\xaf\x27\x1c\x00\x04" + struct.pack("<L", crc(start)) + start + body + hdr


def main():
    print("py7zr from", py7zr.__file__)
    td = tempfile.mkdtemp()
    try:
        path = os.path.join(td, "base.7z")
        raw = build_with_anti_item()
        with open(path, "wb") as f:
            f.write(raw)
        raised = None
        try:
            with py7zr.SevenZipFile(path, "a") as z:
                z.writestr(b"appended", "new.txt")
        except Exception as e:  # noqa  (refusing loudly and leaving the file alone would be acceptable)
            raised = e
        with open(path, "rb") as f:
            now = f.read()
        if raised is not None and now == raw:
            print("PASS (append refused with %r, archive untouched)" % raised)
            return 0
        try:
            with py7zr.SevenZipFile(path, "r") as z:
                names = z.getnames()
        except Exception as e:  # noqa
            names = "unreadable: %r" % e
        if isinstance(names, list) and names[:1] == ["keep.txt"] and "new.txt" in names:
            print("PASS")
            return 0
        print("FAIL: mode 'a' on an existing archive with an anti-item silently started a new archive over it")
        print("   - exception seen by the caller:", repr(raised))
        print("   - members before: ['keep.txt', 'deleted.txt' (anti-item)]; members after:", names)
        print("   - the 5 data bytes of keep.txt are still at offset 32:", now[32:37] == b"hello")
        return 1
    finally:
        shutil.rmtree(td, ignore_errors=True)


if __name__ == "__main__":
    sys.exit(main())
