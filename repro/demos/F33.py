"""C06 demo 2: a solid folder coded as <branch filter> + LZMA / BZip2 cannot be extracted when a member
ends in the middle of the filter's work unit.

Layout (what `7z a -m0=ARM -m1=LZMA` or `-m0=BCJ -m1=BZip2` produce): one folder, two coders
[compressor, filter] bound as filter.in <- compressor.out, two or more members (solid).
The ARM/PPC/SPARC filters work on 4-byte words; py7zr decodes them with the 'bcj' module behind a
decoder that honours max_length.  When the first member is 4k+1 bytes long the filter keeps one byte
back, the following two calls each deliver one more byte to the filter and produce no output, and
Worker.decompress() gives up after two such calls ("Unexpected end of data") although the compressor
stage still holds the rest of the folder.

The member data below contains none of the opcodes the filters rewrite (0xEB at offset 3 of a word for
ARM, 0xE8/0xE9 for x86), so the filtered stream is identical to the plain data and the reference
writer only needs the stdlib.
"""
import bz2, io, lzma, os, struct, sys, zlib

sys.path.insert(0, os.getcwd())
import py7zr  # noqa: E402
from py7zr.io import BytesIOFactory  # noqa: E402


def num(v):
    if v < 0x80:
        return bytes([v])
    for n in range(1, 8):
        if v < (1 << (7 * n + 7)):
            return bytes([((0xFF << (8 - n)) & 0xFF) | (v >> (8 * n))]) + (v & ((1 << (8 * n)) - 1)).to_bytes(n, "little")
    return b"\xff" + v.to_bytes(8, "little")


def crc(b):
    return zlib.crc32(b) & 0xFFFFFFFF


def build(members, comp_id, comp_props, packed, filter_id):
    raw = b"".join(d for _, d in members)
    h = bytearray([0x01, 0x04])
    h += bytes([0x06]) + num(0) + num(1) + bytes([0x09]) + num(len(packed)) + bytes([0x00])
    h += bytes([0x07, 0x0B]) + num(1) + b"\x00"
    h += num(2)  # two coders, listed the way 7-Zip does: compressor first, filter second
    h += bytes([len(comp_id) | (0x20 if comp_props is not None else 0)]) + comp_id
    if comp_props is not None:
        h += num(len(comp_props)) + comp_props
    h += bytes([len(filter_id)]) + filter_id
    h += num(1) + num(0)  # bind pair: in-stream 1 (filter) <- out-stream 0 (compressor)
    h += bytes([0x0C]) + num(len(raw)) + num(len(raw)) + bytes([0x00])  # unpack sizes of both coders
    h += bytes([0x08, 0x0D]) + num(len(members)) + bytes([0x09])
    for _, d in members[:-1]:
        h += num(len(d))
    h += bytes([0x0A, 0x01]) + b"".join(struct.pack("<L", crc(d)) for _, d in members) + bytes([0x00, 0x00])
    h += bytes([0x05]) + num(len(members))
    names = b"\x00" + b"".join(n.encode("utf-16-le") + b"\x00\x00" for n, _ in members)
    h += bytes([0x11]) + num(len(names)) + names
    attrs = b"\x01\x00" + struct.pack("<L", 0x20) * len(members)
    h += bytes([0x15]) + num(len(attrs)) + attrs + bytes([0x00, 0x00])
    h = bytes(h)
    start = struct.pack("<QQL", len(packed), len(h), crc(h))
    return b"7z\xbc\xaf\x27\x1c\x00\x04" + struct.pack("<L", crc(start)) + start + packed + h


def lzma1(raw):
    f = {"id": lzma.FILTER_LZMA1, "dict_size": 1 << 16}
    return b"\x03\x01\x01", lzma._encode_filter_properties(f), lzma.compress(raw, lzma.FORMAT_RAW, filters=[f])


def bzip2(raw):
    return b"\x04\x02\x02", None, bz2.compress(raw)


def identity(filter_id, raw):
    """The member data is chosen so that the filter leaves it unchanged; cross-check with the bcj module if present."""
    try:
        import bcj
    except ImportError:
        return True
    enc = {ARM: bcj.ARMEncoder, PPC: bcj.PPCEncoder, SPARC: bcj.SparcEncoder, X86: bcj.BCJEncoder}[filter_id]()
    return enc.encode(raw) + enc.flush() == raw


ARM, PPC, SPARC, X86 = b"\x03\x03\x05\x01", b"\x03\x03\x02\x05", b"\x03\x03\x08\x05", b"\x03\x03\x01\x03"


def main():
    print("py7zr from", py7zr.__file__)
    cases = [
        ("ARM + LZMA, members of 5 and 17 bytes", ARM, lzma1, [("a.bin", b"hello"), ("b.bin", b"the second member")]),
        ("PPC + BZip2, members of 9 and 8 bytes", PPC, bzip2, [("a.bin", b"123456789"), ("b.bin", b"abcdefgh")]),
        ("SPARC + LZMA, members of 4097 and 21 bytes", SPARC, lzma1, [("a.bin", b"ab" * 2048 + b"c"), ("b.bin", b"twenty-one bytes here")]),
        ("BCJ(x86) + LZMA, members of 1 and 21 bytes", X86, lzma1, [("a.bin", b"A"), ("b.bin", b"twenty-one bytes here")]),
        # control: first member is a multiple of the word size
        ("control: ARM + LZMA, members of 8 and 17 bytes", ARM, lzma1, [("a.bin", b"hellohel"), ("b.bin", b"the second member")]),
    ]
    failed = []
    for title, filt, comp, members in cases:
        raw = b"".join(d for _, d in members)
        assert identity(filt, raw), "reference data must not contain convertible branch opcodes"
        cid, cprops, packed = comp(raw)
        blob = build(members, cid, cprops, packed, filt)
        try:
            with py7zr.SevenZipFile(io.BytesIO(blob)) as z:
                fac = BytesIOFactory(1 << 20)
                z.extractall(factory=fac)
            got = {}
            for k, v in fac.products.items():
                v.seek(0)
                got[k] = v.read()
            if got != dict(members):
                failed.append("%s: extracted bytes differ: %r" % (title, got))
            else:
                print("  ok  :", title)
        except Exception as e:  # noqa
            failed.append("%s: %s: %s" % (title, type(e).__name__, e))
    if failed:
        print("FAIL: valid solid folders with a branch filter behind LZMA/BZip2 are not extracted")
        for f in failed:
            print("  -", f)
        return 1
    print("PASS")
    return 0


if __name__ == "__main__":
    sys.exit(main())
