"""C09: with recursive=True a target is matched as a raw string prefix, so a name that is NOT in the
archive (and is not even a directory of it) selects unrelated members instead of being ignored."""
import os
import sys

sys.path.insert(0, os.getcwd())
import shutil
import tempfile

import py7zr
from py7zr.io import BytesIOFactory

MEMBERS = [("alpha/x.txt", b"x" * 3000), ("alphabet.txt", b"y" * 70000), ("beta.bin", b"z" * 10), ("gamma", b"g" * 5)]


def tree(d):
    res = set()
    for root, dirs, files in os.walk(d):
        for n in dirs:
            res.add(os.path.relpath(os.path.join(root, n), d) + "/")
        for n in files:
            res.add(os.path.relpath(os.path.join(root, n), d))
    return res


def main():
    tmp = tempfile.mkdtemp()
    problems = []
    try:
        arc = os.path.join(tmp, "t.7z")
        with py7zr.SevenZipFile(arc, "w") as z:
            for name, data in MEMBERS:
                z.writestr(data, name)
        with py7zr.SevenZipFile(arc) as z:
            names = z.namelist()
        assert names == [m[0] for m in MEMBERS], names
        # 'al', 'b' and 'nope/' are not member names (and no member lies beneath al/, b/ or nope/): they must be ignored
        cases = [
            (["alpha/x.txt", "al", "nope/"], {"alpha/", "alpha/x.txt"}),
            ({"b", "nope"}, set()),
            (["gam"], set()),
        ]
        for targets, expected in cases:
            out = os.path.join(tmp, "out")
            with py7zr.SevenZipFile(arc) as z:
                z.extract(path=out, targets=targets, recursive=True)
            got = tree(out)
            shutil.rmtree(out)
            if got != expected:
                problems.append(f"directory output, targets={targets!r}: created {sorted(got)}, expected {sorted(expected)}")
            fac = BytesIOFactory(1 << 30)
            with py7zr.SevenZipFile(arc) as z:
                z.extract(targets=targets, recursive=True, factory=fac)
            gotf = set(fac.products.keys())
            expf = {e for e in expected if not e.endswith("/")}
            if gotf != expf:
                problems.append(f"factory output, targets={targets!r}: delivered {sorted(gotf)}, expected {sorted(expf)}")
    finally:
        shutil.rmtree(tmp, ignore_errors=True)
    if problems:
        print("FAIL: names that are not in the archive are not ignored by extract(recursive=True):")
        for p in problems:
            print("  " + p)
        return 1
    print("PASS")
    return 0


if __name__ == "__main__":
    sys.exit(main())
