"""C01 demo 3: a branch (BCJ) filter in front of a non-native codec loses the last instruction when the codec
delivers its output in pieces and a piece ends 1..3 bytes before the end of the folder.

Reading chain: [codec decoder, BCJ decoder(size=folder size)].  SevenZipDecompressor._decompress() passes the
caller's max_length (what the *member* still needs) to the first stage, and also feeds the BCJ stage whatever
one packed block produced.  The pybcj decoders treat "fewer than 5 (x86) / 4 (ARM, PPC, SPARC) / ... bytes to go"
as "this is the tail, flush it unconverted".  So if the bytes that have arrived stop 1..3 bytes short of the end,
the last CALL/BL instruction - which the encoder did convert - is flushed unconverted -> wrong bytes.

Triggers shown (all default settings, no patching):
 a) solid folder, [X86, BZIP2]: members of 4,102,13,3,5 bytes (the per-member max_length cuts the BZip2 output at 126 of 127)
 b) single 16-byte member, [ARM, PPMD]: the PPMd decoder hands out 15 bytes first (it wants one more input byte)
 c) single member of 1 MiB + 1 bytes, [X86, COPY]: the 1 MiB read block ends one byte before the end
 d) solid folder, [X86, LZMA] (the "LZMA + BCJ" chain of the documentation, read as LZMA decoder + pybcj): members of 17,26,35,5 bytes
"""
import io
import sys

import py7zr
from py7zr import FILTER_ARM, FILTER_BZIP2, FILTER_COPY, FILTER_LZMA, FILTER_PPMD, FILTER_X86


def roundtrip(filters, members):
    bio = io.BytesIO()
    with py7zr.SevenZipFile(bio, "w", filters=filters) as z:
        for name, data in members:
            z.writestr(data, name)
    bio.seek(0)
    with py7zr.SevenZipFile(bio, "r") as z:
        names = z.getnames()
        fac = py7zr.io.BytesIOFactory(1 << 30)
        z.extractall(factory=fac)
    out = {}
    for k, v in fac.products.items():
        v.seek(0)
        out[k] = v.read()
    if names != [m[0] for m in members]:
        return "names differ: %r" % (names,)
    for n, d in members:
        if out.get(n) != d:
            return "content of %r differs" % n
    return None


def attempt(label, filters, members):
    try:
        r = roundtrip(filters, members)
    except Exception as e:  # noqa
        r = "%s: %s" % (type(e).__name__, e)
    print("%-46s %s" % (label, "ok" if r is None else r))
    return r


def x86_code(n):
    # call rel32 repeated: e8 10 00 00 00
    return (b"\xe8\x10\x00\x00\x00" * (n // 5 + 1))[:n]


def arm_code(n):
    # bl #imm repeated: 10 00 00 eb
    return (b"\x10\x00\x00\xeb" * (n // 4 + 1))[:n]


def main():
    print("py7zr from", py7zr.__file__)
    failures = []
    x86_bzip2 = [{"id": FILTER_X86}, {"id": FILTER_BZIP2}]
    arm_ppmd = [{"id": FILTER_ARM}, {"id": FILTER_PPMD, "order": 6, "mem": 24}]
    x86_copy = [{"id": FILTER_X86}, {"id": FILTER_COPY}]
    sizes = [4, 102, 13, 3, 5]
    solid = [("m%d.o" % i, x86_code(n)) for i, n in enumerate(sizes)]
    # controls
    attempt("control X86+BZIP2, one member of 127 bytes", x86_bzip2, [("m.o", x86_code(127))])
    attempt("control BZIP2 alone, 5 members", [{"id": FILTER_BZIP2}], solid)
    attempt("control X86+COPY, 1 MiB + 2", x86_copy, [("big.o", bytes((1 << 20) - 3) + b"\xe8\x10\x00\x00\x00")])
    for label, filters, members in [
        ("a) X86+BZIP2, members 4,102,13,3,5 bytes", x86_bzip2, solid),
        ("b) ARM+PPMD, one 16-byte member", arm_ppmd, [("f.o", arm_code(16))]),
        ("c) X86+COPY, one member of 1 MiB + 1 bytes", x86_copy, [("big.o", bytes((1 << 20) - 4) + b"\xe8\x10\x00\x00\x00")]),
        ("d) X86+LZMA, members 17,26,35,5 bytes", [{"id": FILTER_X86}, {"id": FILTER_LZMA}],
         [("o%d.o" % i, x86_code(n)) for i, n in enumerate([17, 26, 35, 5])]),
    ]:
        r = attempt(label, filters, members)
        if r is not None:
            failures.append(label)
    if failures:
        print("FAIL: BCJ filter chains do not round-trip: the tail of the folder is flushed by the BCJ decoder before it is complete")
        return 1
    print("PASS")
    return 0


if __name__ == "__main__":
    sys.exit(main())
