"""close() of a write session that was marked _broken raises before it closes the file:
the handle stays open for ever (every further close() raises again), and inside a
`with` block the ArchiveError raised by __exit__ replaces the caller's own exception."""
import os
import sys

sys.path.insert(0, os.getcwd())
import io
import shutil
import tempfile

import py7zr


class FailingSource(io.BytesIO):
    """a source that fails after part of it has been read (I/O error on the medium)"""

    def read(self, n=-1):
        if self.tell() >= 2000:
            raise OSError("simulated I/O error in the source")
        return super().read(1000)


def main():
    problems = []
    d = tempfile.mkdtemp()
    try:
        p = os.path.join(d, "a.7z")
        caught = None
        z = None
        try:
            with py7zr.SevenZipFile(p, "w") as z:
                z.writestr(b"ok", "ok.txt")
                z.writef(FailingSource(os.urandom(100000)), "bad.bin")
        except BaseException as e:  # noqa
            caught = e
        if not isinstance(caught, OSError):
            problems.append(
                "the with block let %r escape instead of the OSError of the failing source "
                "(callers that handle OSError no longer see it)" % (caught,)
            )
        if not z.fp.closed:
            problems.append("after close() (called by __exit__) the archive file handle is still open")
            try:
                z.close()
            except Exception as e:  # noqa
                if not z.fp.closed:
                    problems.append("a second explicit close() raises %s again and still leaves the handle open" % type(e).__name__)
            try:
                z.fp.close()
            except Exception:
                pass
    finally:
        shutil.rmtree(d, ignore_errors=True)
    if problems:
        print("FAIL: " + "; ".join(problems))
        return 1
    print("PASS: the source's exception reaches the caller and the archive handle is closed")
    return 0


if __name__ == "__main__":
    sys.exit(main())
