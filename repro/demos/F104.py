"""C10: archiveinfo() must describe the archive that is open.

archiveinfo() takes the size (ArchiveInfo.size / .stat) from os.stat(self.filename).  self.filename is only a label:
 (a) for a stream it is the stream's `name` attribute - a member opened from a zip (zipfile.ZipExtFile), a tar member,
     or a BytesIO that was given a name carry a name that is not the path of the archive;
 (b) for an archive opened by a relative path it is that relative text, which names another file (or nothing) once the
     working directory has changed (the open handle itself was made immune to chdir by an earlier fix).
The summary then reports the size of whatever file happens to have that name, or raises FileNotFoundError.
"""
import io
import os
import shutil
import sys
import tempfile
import zipfile

sys.path.insert(0, os.getcwd())
import py7zr  # noqa: E402

problems = []
start = os.getcwd()
tmp = tempfile.mkdtemp(prefix="c10_ai_")
try:
    os.chdir(tmp)
    payload = os.urandom(5000)
    with py7zr.SevenZipFile("in.7z", "w") as z:
        z.writestr(payload, "a.bin")
    real_size = os.path.getsize("in.7z")

    # (a1) the archive is a member of a zip file: the stream is seekable and has .name == "inner.7z"
    with zipfile.ZipFile("outer.zip", "w") as zf:
        zf.write("in.7z", "inner.7z")
    with zipfile.ZipFile("outer.zip") as zf, zf.open("inner.7z") as stream:
        with py7zr.SevenZipFile(stream) as z:
            assert z.getnames() == ["a.bin"]
            try:
                got = z.archiveinfo().size
                if got != real_size:
                    problems.append(f"zip member stream: archiveinfo().size == {got}, the archive has {real_size} bytes")
            except OSError as e:
                problems.append(f"zip member stream: archiveinfo() raised {e!r}")

    # (a2) same stream while an unrelated file of that name lies in the working directory: a wrong answer, silently
    with open("inner.7z", "wb") as f:
        f.write(b"x" * 10)
    with zipfile.ZipFile("outer.zip") as zf, zf.open("inner.7z") as stream:
        with py7zr.SevenZipFile(stream) as z:
            got = z.archiveinfo().size
            if got != real_size:
                problems.append(f"zip member stream + unrelated file of the same name: size == {got}, expected {real_size}")

    # (b) opened by a relative name, then the working directory changes
    os.mkdir("elsewhere")
    with open(os.path.join("elsewhere", "in.7z"), "wb") as f:
        f.write(b"y" * 33)
    with py7zr.SevenZipFile("in.7z") as z:
        os.chdir("elsewhere")
        try:
            got = z.archiveinfo().size
            if got != real_size:
                problems.append(f"relative name after chdir: archiveinfo().size == {got}, the archive has {real_size} bytes")
        except OSError as e:
            problems.append(f"relative name after chdir: archiveinfo() raised {e!r}")
        finally:
            os.chdir(tmp)
finally:
    os.chdir(start)
    shutil.rmtree(tmp, ignore_errors=True)

if problems:
    print("FAIL: archiveinfo() describes a file other than the open archive")
    for p in problems:
        print("  -", p)
    sys.exit(1)
print("PASS")
