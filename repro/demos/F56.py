"""C10: names of 65536 or more UTF-16 code units are silently cut and the names after them shift.

py7zr's own writer stores a long member name in full (writestr()/writef() accept it; the format has
no limit), but read_utf16() stops after MAX_LENGTH = 65536 code units without looking for the
terminator and without an error.  The listing then shows a truncated first name, and the *next*
member gets the rest of it (or the empty string) as its name - the real name of the second member
is never listed, getinfo() cannot find it, and nothing is raised.  32768 non-BMP characters
(2 code units each) are enough.
"""
import io
import sys

import py7zr
from py7zr.io import BytesIOFactory


def roundtrip(long_name):
    buf = io.BytesIO()
    with py7zr.SevenZipFile(buf, "w") as z:
        z.writestr(b"first", long_name)
        z.writestr(b"second", "second.txt")
    buf.seek(0)
    with py7zr.SevenZipFile(buf, "r") as z:
        names = z.getnames()
        listed = [f.filename for f in z.list()]
        try:
            z.getinfo("second.txt")
            found = True
        except KeyError:
            found = False
    return names, listed, found


def main():
    problems = []
    cases = {
        "65535 units (control)": "d/" + "n" * 65533,
        "65536 units": "d/" + "n" * 65534,
        "70000 units": "d/" + "n" * 69998,
        "32768 non-BMP chars": "\U0001F600" * 32768,
    }
    for label, name in cases.items():
        try:
            names, listed, found = roundtrip(name)
        except py7zr.exceptions.ArchiveError as e:
            # refusing loudly would be acceptable
            print(f"  ({label}: refused with {e!r})")
            continue
        if names != listed:
            problems.append(f"{label}: getnames and list disagree")
        if names != [name, "second.txt"] or not found:
            problems.append(
                f"{label}: wrote names of length [{len(name)}, 10]; listing has lengths {[len(n) for n in names]}, "
                f"second name {names[1][:12]!r}{'...' if len(names[1]) > 12 else ''}, getinfo('second.txt') found={found}"
            )
    if problems:
        print("FAIL: the listing does not show the stored names")
        for p in problems:
            print("  -", p)
        return 1
    print("PASS")
    return 0


if __name__ == "__main__":
    sys.exit(main())
