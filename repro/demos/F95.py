"""C15: the type gate of write() (sources that are neither link, directory nor regular file are rejected with
ValueError before anything is registered) is bypassed with dereference=True.

write(fifo) raises ValueError('Unsupported file type'). write(link -> fifo) on an archive opened with
dereference=True passes _make_file_info (the link branch only tells 'directory' from 'anything else' and
takes everything else for a regular file), the member is registered and Worker.write opens the FIFO for
reading: the call blocks for ever instead of raising, and when somebody opens the other end the special file
is stored as a regular member. The exception that the sibling path delivers never reaches the caller.
"""
import os
import shutil
import sys
import tempfile
import threading

import py7zr


def main():
    tmp = tempfile.mkdtemp(prefix="c15f")
    try:
        fifo = os.path.join(tmp, "pipe")
        os.mkfifo(fifo)
        link = os.path.join(tmp, "link")
        os.symlink("pipe", link)
        arc = os.path.join(tmp, "t.7z")

        # reference behaviour: the special file itself is rejected at once
        with py7zr.SevenZipFile(arc, "w") as z:
            try:
                z.write(fifo, "pipe")
                print("FAIL: write(fifo) was accepted")
                return 1
            except ValueError:
                pass

        result = {}
        z = py7zr.SevenZipFile(arc, "w", dereference=True)
        z.writestr(b"before", "before.txt")

        def call():
            try:
                z.write(link, "link")
                result["outcome"] = "accepted"
            except Exception as e:  # the correct outcome: rejected like the FIFO itself
                result["outcome"] = "raised %s: %s" % (type(e).__name__, e)

        t = threading.Thread(target=call, daemon=True)
        t.start()
        t.join(5)
        hung = t.is_alive()
        if hung:
            # let the call go on: open and close the writing end, the reader sees end of file
            fd = os.open(fifo, os.O_WRONLY | os.O_NONBLOCK)
            os.close(fd)
            t.join(20)
        z.writestr(b"after", "after.txt")
        z.close()
        with py7zr.SevenZipFile(arc, "r") as r:
            names = r.getnames()
        if hung or result.get("outcome") == "accepted":
            print(
                "FAIL: write(link -> FIFO) with dereference=True %s (%s); members after close: %r - "
                "write(fifo) itself raises ValueError('Unsupported file type')"
                % ("blocked for more than 5 s instead of raising" if hung else "did not raise", result.get("outcome"), names)
            )
            return 1
        if names != ["before.txt", "after.txt"]:
            print("FAIL: members %r" % names)
            return 1
        print("PASS: the special file behind the link was rejected (%s)" % result["outcome"])
        return 0
    finally:
        shutil.rmtree(tmp, ignore_errors=True)


if __name__ == "__main__":
    sys.exit(main())
