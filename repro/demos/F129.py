"""C07 (histories with a failed append session): when an append session cannot be completed, py7zr writes back the header the
archive had when it was opened (_restore_header_at_open) - but in the header mode and under the password of the session that
FAILED.  A public archive comes back with a 7zAES-encrypted header under a password no successful session ever set (a reader
that knows the archive's real history cannot even list it), and an archive whose names were encrypted comes back with its
names in the clear."""
import io
import lzma
import os
import struct
import sys
import zlib

sys.path.insert(0, os.getcwd())
import py7zr  # noqa: E402

AES = b"\x06\xf1\x07\x01"


class Rd:
    def __init__(self, b):
        self.b, self.p = b, 0

    def take(self, n):
        assert self.p + n <= len(self.b), "truncated"
        r = self.b[self.p : self.p + n]
        self.p += n
        return r

    def byte(self):
        return self.take(1)[0]

    def num(self):
        first, mask, value = self.byte(), 0x80, 0
        for i in range(8):
            if not first & mask:
                return value | ((first & (mask - 1)) << (8 * i))
            value |= self.byte() << (8 * i)
            mask >>= 1
        return value


def header_view(raw):
    """Independent look at the raw bytes: (methods of the header folder or None for a plain header, member names or None when
    the header cannot be decoded without a password)."""
    assert raw[:6] == b"7z\xbc\xaf\x27\x1c"
    scrc, ofs, size, hcrc = struct.unpack("<LQQL", raw[8:32])
    assert zlib.crc32(raw[12:32]) == scrc, "start header CRC"
    hdr = raw[32 + ofs : 32 + ofs + size]
    assert zlib.crc32(hdr) == hcrc and 32 + ofs + size == len(raw), "next header"
    methods = None
    if hdr[0] == 0x17:
        r = Rd(hdr[1:])
        assert r.byte() == 0x06
        ppos, n = r.num(), r.num()
        assert n == 1 and r.byte() == 0x09
        psize = r.num()
        assert r.take(3) == b"\x00\x07\x0b" and r.num() == 1 and r.byte() == 0
        methods = []
        for _ in range(r.num()):
            flag = r.byte()
            mid = r.take(flag & 0x0F)
            props = r.take(r.num()) if flag & 0x20 else None
            methods.append((mid, props))
        if any(m == AES for m, _ in methods):
            return methods, None
        assert [m for m, _ in methods] == [b"\x21"], methods
        bits = methods[0][1][0]
        d = lzma.LZMADecompressor(lzma.FORMAT_RAW, filters=[{"id": lzma.FILTER_LZMA2, "dict_size": (2 | (bits & 1)) << (bits // 2 + 11)}])
        hdr = d.decompress(raw[32 + ppos : 32 + ppos + psize])
    # the decoded header: the caller looks for the UTF-16 text of the names in it
    return methods, hdr


class Failing(io.BufferedIOBase):
    """a source of 3 MiB that fails after its first MiB has been read"""

    def __init__(self):
        self.n, self.pos = 3 << 20, 0

    def seekable(self):
        return True

    def tell(self):
        return self.pos

    def seek(self, o, w=0):
        self.pos = o if w == 0 else (self.n + o if w == 2 else self.pos + o)
        return self.pos

    def read(self, k=-1):
        if self.pos >= 1 << 20:
            raise OSError("source failed")
        k = min(k if k >= 0 else self.n, self.n - self.pos)
        self.pos += k
        return b"q" * k


def main():
    assert py7zr.__file__.startswith(os.getcwd()), py7zr.__file__
    problems = []

    # 1. a public archive; an append session with a password and header encryption fails
    bio = io.BytesIO()
    with py7zr.SevenZipFile(bio, "w") as z:
        z.writestr(b"public data", "public.txt")
    methods, hdr = header_view(bio.getvalue())
    assert hdr is not None and "public.txt".encode("utf-16-le") in hdr
    bio.seek(0)
    try:
        with py7zr.SevenZipFile(bio, "a", password="never-committed", header_encryption=True) as z:
            z.writef(Failing(), "big.bin")
    except OSError as e:
        print("1: the append session failed as arranged:", e)
    else:
        raise AssertionError("the session should have failed")
    methods, hdr = header_view(bio.getvalue())
    if hdr is None:
        problems.append(
            "public archive + failed session(password, header_encryption): the archive now has a 7zAES-encrypted header "
            f"(header folder methods {[m.hex() for m, _ in methods]}); without the failed session's password nothing can be listed"
        )
        try:
            with py7zr.SevenZipFile(io.BytesIO(bio.getvalue())) as z:
                z.getnames()
        except py7zr.PasswordRequired:
            problems.append("  (py7zr itself: opening it the way it could be opened before raises PasswordRequired)")
    elif "public.txt".encode("utf-16-le") not in hdr:
        problems.append("public archive + failed session: member name lost")

    # 2. an archive with encrypted names; a session that switches header encryption off fails
    bio = io.BytesIO()
    with py7zr.SevenZipFile(bio, "w", password="pw", header_encryption=True) as z:
        z.writestr(b"x", "secret-name.txt")
    methods, hdr = header_view(bio.getvalue())
    assert hdr is None, "header should be encrypted"
    bio.seek(0)
    try:
        with py7zr.SevenZipFile(bio, "a", password="pw") as z:
            z.set_encrypted_header(False)
            z.writef(Failing(), "big.bin")
    except OSError as e:
        print("2: the append session failed as arranged:", e)
    else:
        raise AssertionError("the session should have failed")
    methods, hdr = header_view(bio.getvalue())
    if hdr is not None:
        seen = "secret-name.txt".encode("utf-16-le") in hdr
        problems.append(
            "archive with encrypted header + failed session(set_encrypted_header(False)): the header is no longer encrypted"
            + (", the member name 'secret-name.txt' can be read without the password" if seen else "")
        )

    if problems:
        print("FAIL: a failed append session does not leave the archive it found:")
        for p in problems:
            print("  -", p)
        return 1
    print("PASS")
    return 0


if __name__ == "__main__":
    sys.exit(main())
