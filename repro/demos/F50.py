"""mode 'x' (exclusive creation) must produce a valid archive."""
import os, sys, tempfile
sys.path.insert(0, os.getcwd())
import py7zr
print("py7zr from", py7zr.__file__)
d = tempfile.mkdtemp()
p = os.path.join(d, "new.7z")
with py7zr.SevenZipFile(p, "x") as z:
    z.writestr(b"hello world", "a.txt")
try:
    with py7zr.SevenZipFile(p) as z:
        names = z.getnames()
    ok = names == ["a.txt"]
    print("PASS" if ok else f"FAIL: archive created with mode 'x' lists {names}")
    sys.exit(0 if ok else 1)
except Exception as e:
    print(f"FAIL: archive created with mode 'x' cannot be opened: {type(e).__name__}: {e}")
    sys.exit(1)
