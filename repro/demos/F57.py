"""C10: getinfo() cannot find a listed member whose stored name ends with a slash.

A reference writer (bytes built here, COPY coder, plain header) stores the directory
entry as "d0/" - a legal name that some non-7-Zip writers produce, and one that
SevenZipFile.extract() already caters for (it strips the trailing slash of member names
when matching targets).  namelist()/list()/files report "d0/", extraction creates the
directory, but getinfo("d0/") and getinfo("d0") both raise KeyError.
"""
import io
import struct
import sys
import zlib

import py7zr


def u64(v):
    assert v < 0x80
    return bytes([v])


def bits(v):
    out = bytearray((len(v) + 7) // 8)
    for i, b in enumerate(v):
        if b:
            out[i // 8] |= 0x80 >> (i % 8)
    return bytes(out)


def build(members):
    """members: list of (name, kind, data, attr); kind in 'file', 'dir'. One COPY folder, one stream per file."""
    datas = [d for n, k, d, a in members if k == "file"]
    packed = b"".join(datas)
    h = b"\x01"
    if datas:
        h += b"\x04"
        h += b"\x06" + u64(0) + u64(len(datas)) + b"\x09" + b"".join(u64(len(d)) for d in datas) + b"\x00"
        h += b"\x07\x0b" + u64(len(datas)) + b"\x00" + b"".join(b"\x01\x01\x00" for _ in datas)
        h += b"\x0c" + b"".join(u64(len(d)) for d in datas) + b"\x00"
        h += b"\x08\x0a\x01" + b"".join(struct.pack("<L", zlib.crc32(d)) for d in datas) + b"\x00"
        h += b"\x00"
    h += b"\x05" + u64(len(members))
    es = [k != "file" for n, k, d, a in members]
    if any(es):
        b = bits(es)
        h += b"\x0e" + u64(len(b)) + b
    nb = b"\x00" + b"".join(n.encode("utf-16-le") + b"\x00\x00" for n, k, d, a in members)
    h += b"\x11" + u64(len(nb)) + nb
    ab = b"\x01\x00" + b"".join(struct.pack("<L", a) for n, k, d, a in members)
    h += b"\x15" + u64(len(ab)) + ab
    h += b"\x00\x00"
    start = struct.pack("<QQL", len(packed), len(h), zlib.crc32(h))
    return b"7z\xbc\xaf\x27\x1c\x00\x04" + struct.pack("<L", zlib.crc32(start)) + start + packed + h


def main():
    arc = build([("d0/", "dir", b"", 0x10), ("d0/a.txt", "file", b"hello", 0x20)])
    problems = []
    with py7zr.SevenZipFile(io.BytesIO(arc), "r") as z:
        names = z.namelist()
        if names != ["d0/", "d0/a.txt"]:
            print("unexpected listing", names)
        if [f.filename for f in z.list()] != names or z.getnames() != names:
            problems.append("listing interfaces disagree on the names")
        for listed in names:
            for query in {listed, listed.rstrip("/"), listed.rstrip("/") + "/"}:
                try:
                    info = z.getinfo(query)
                except KeyError as e:
                    problems.append(f"namelist() has {listed!r} but getinfo({query!r}) raised KeyError: {e}")
                else:
                    if info.filename != listed:
                        problems.append(f"getinfo({query!r}) returned {info.filename!r}")
        import tempfile, os
        with tempfile.TemporaryDirectory() as tmp:
            z.extractall(tmp)
            if not os.path.isdir(os.path.join(tmp, "d0")) or not os.path.isfile(os.path.join(tmp, "d0", "a.txt")):
                print("unexpected: extraction did not create d0/ and d0/a.txt")
        try:
            z.getinfo("nothing-like-this")
            problems.append("getinfo of an absent name did not raise KeyError")
        except KeyError:
            pass
    if problems:
        print("FAIL: getinfo does not find every listed name")
        for p in problems:
            print("  -", p)
        return 1
    print("PASS")
    return 0


if __name__ == "__main__":
    sys.exit(main())
