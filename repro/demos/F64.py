"""C11: extracting with a WRONG password must not deliver bytes that differ from the original.

An archive whose only protection is the ciphertext (Copy+7zAES, or 7zAES alone) is extracted into a
directory with a wrong password.  extractall() does raise CrcError - but only after the wrong-key
garbage has been written under the member's own name, and the garbage file stays there.  A correct copy
of the member that was already in the directory (from an earlier extraction with the right password) is
replaced by the garbage.
"""
import os
import shutil
import sys
import tempfile

import py7zr
from py7zr import FILTER_COPY, FILTER_CRYPTO_AES256_SHA256

CONTENT = b"TOP-SECRET-PLAINTEXT-0123456789-abcdefghijklmnopqrstuvwxyz\n" * 4
NAME = "secret_report.txt"
CHAINS = {
    "Copy+7zAES": [{"id": FILTER_COPY}, {"id": FILTER_CRYPTO_AES256_SHA256}],
    "7zAES alone": [{"id": FILTER_CRYPTO_AES256_SHA256}],
}


def main() -> int:
    problems = []
    tmp = tempfile.mkdtemp(prefix="c11_wrongpw_")
    try:
        for label, filters in CHAINS.items():
            arc = os.path.join(tmp, label.replace("+", "_").replace(" ", "_") + ".7z")
            with py7zr.SevenZipFile(arc, "w", password="right-pässw\U0001F600rd", filters=filters) as z:
                z.writestr(CONTENT, NAME)

            # (a) fresh output directory
            fresh = os.path.join(tmp, "fresh_" + os.path.basename(arc))
            raised = None
            try:
                with py7zr.SevenZipFile(arc, password="wrong-password") as z:
                    z.extractall(fresh)
            except Exception as e:  # an error is what the property asks for
                raised = type(e).__name__
            if raised is None:
                problems.append(f"{label}: wrong password raised no error")
            target = os.path.join(fresh, NAME)
            if os.path.exists(target):
                got = open(target, "rb").read()
                if got is not None and got != CONTENT:  # a removed file is 'nothing delivered'; wrong bytes under the name are not
                    problems.append(
                        f"{label}: after {raised} the output directory holds {NAME!r} with {len(got)} bytes of "
                        f"wrong-key garbage (starts {got[:12]!r})"
                    )

            # (b) directory that already holds the correct file
            again = os.path.join(tmp, "again_" + os.path.basename(arc))
            with py7zr.SevenZipFile(arc, password="right-pässw\U0001F600rd") as z:
                z.extractall(again)
            assert open(os.path.join(again, NAME), "rb").read() == CONTENT
            try:
                with py7zr.SevenZipFile(arc, password="Right-pässw\U0001F600rd") as z:  # case-changed
                    z.extractall(again)
            except Exception as e:
                raised = type(e).__name__
            got = open(os.path.join(again, NAME), "rb").read() if os.path.exists(os.path.join(again, NAME)) else None
            if got is not None and got != CONTENT:  # a removed file is 'nothing delivered'; wrong bytes under the name are not
                problems.append(
                    f"{label}: the correct copy of {NAME!r} was replaced by "
                    f"{'nothing' if got is None else str(len(got)) + ' bytes of garbage'} ({raised})"
                )
    finally:
        shutil.rmtree(tmp, ignore_errors=True)
    if problems:
        print("FAIL: bytes that differ from the original are delivered with a wrong password")
        for p in problems:
            print("  -", p)
        return 1
    print("PASS: a wrong password delivers nothing and leaves existing files alone")
    return 0


if __name__ == "__main__":
    sys.exit(main())
