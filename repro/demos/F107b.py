"""C16: write() stores absolute source paths as relative names with the leading separators removed.
An absolute source path whose spelling starts with '/./' + '/' (or a relative one like './/.//f') names an existing
file inside the scratch tree, but write() refuses it with ValueError instead of storing it under a relative name:
_sanitize_archive_arcname strips './' and then '/' only once, and check_archive_path strips './' again and finds '/'."""
import io
import os
import shutil
import sys
import tempfile

import py7zr

top = os.path.realpath(tempfile.mkdtemp())
old = os.getcwd()
problems = []
try:
    os.makedirs(os.path.join(top, "s", "a"))
    with open(os.path.join(top, "s", "a", "f"), "w") as fh:
        fh.write("x")
    os.chdir(os.path.join(top, "s"))
    rel = top.lstrip("/") + "/s/a/f"
    cases = [
        # (source spelling, expected member name)
        (top + "/s/a/f", rel),  # control
        ("//" + top + "/s/a/f", rel),  # control: several leading separators
        ("/./" + top + "/s/a/f", rel),  # '/.' + absolute path: still the same absolute path
        ("/./" + top + "/./s//a/f", rel),
        ("a/f", "a/f"),  # control
        ("./a/f", "a/f"),  # control
        (".//a/f", "a/f"),  # control (accepted today)
        (".//.//a/f", "a/f"),
        ("./././/.//a/f", "a/f"),
    ]
    for src, expected in cases:
        assert os.path.samefile(src, os.path.join(top, "s", "a", "f")), src
        buf = io.BytesIO()
        z = py7zr.SevenZipFile(buf, "w")
        try:
            z.write(src)
        except Exception as e:
            problems.append("write(%r) raised %s: %s" % (src.replace(top, "<tmp>"), type(e).__name__, str(e).replace(top, "<tmp>")))
            z.close()
            continue
        z.close()
        buf.seek(0)
        with py7zr.SevenZipFile(buf) as r:
            names = r.getnames()
        if names != [expected]:
            problems.append("write(%r) stored %r, expected %r" % (src.replace(top, "<tmp>"), names, [expected]))
finally:
    os.chdir(old)
    shutil.rmtree(top)

if problems:
    print("FAIL: write() does not store an existing source inside the tree under a relative name:")
    for p in problems:
        print("  " + p)
    sys.exit(1)
print("PASS: every spelling of the source was stored under its relative name")
