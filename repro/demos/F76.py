"""C15: writef() with a stream whose position lies behind its end half-registers a member and poisons the archive.

_writef() computes size = end - tell().  For a seekable binary stream that has been positioned past its end
(f.seek(n) with n > size is legal) the size is negative, and the `else` branch registers the member in
header.files_info.files / emptyfiles / self.files with emptystream=False, without calling Worker.archive:
no exception, no data, and Worker.current_file_index stays behind.  The next write call then archives the stale
entry instead of its own (the rejected source is 'retried' behind the caller's back, the new member's data is
never read), close() succeeds, and the archive cannot be opened (IndexError) - all members of the session are lost.
Correct behaviour: reject the argument (ValueError) before any state change, or store an empty member.
"""
import os
import shutil
import sys
import tempfile

import py7zr


def main():
    tmp = tempfile.mkdtemp(prefix="c15_3_")
    problems = []
    try:
        src = os.path.join(tmp, "s.bin")
        with open(src, "wb") as f:
            f.write(b"abc")
        arc = os.path.join(tmp, "x.7z")
        model = {}
        z = py7zr.SevenZipFile(arc, "w")
        z.writestr(b"first", "first.txt")
        model["first.txt"] = b"first"
        with open(src, "rb") as bio:
            bio.seek(10)  # behind the end: nothing left to read
            try:
                z.writef(bio, "odd.bin")
                model["odd.bin"] = b""  # accepted: then it has to be an empty member
                outcome = "returned normally"
            except Exception as e:
                outcome = f"raised {e!r}"  # rejected: fine, archive must be unaffected
            print("writef with a stream positioned behind its end", outcome)
            try:
                z.writestr(b"last", "last.txt")
                model["last.txt"] = b"last"
            except Exception as e:
                problems.append(f"the next write call failed: {e!r}")
            try:
                z.close()
            except Exception as e:
                problems.append(f"close() raised {e!r}")
        try:
            with py7zr.SevenZipFile(arc, "r") as r:
                names = r.getnames()
                fac = py7zr.io.BytesIOFactory(1 << 20)
                r.extractall(factory=fac)
                got = {}
                for k, v in fac.products.items():
                    v.seek(0)
                    got[k] = v.read()
            if sorted(names) != sorted(model):
                problems.append(f"members {names}, expected {sorted(model)}")
            for k, v in model.items():
                if got.get(k) != v:
                    problems.append(f"member {k!r}: got {got.get(k)!r}, expected {v!r}")
        except Exception as e:
            problems.append(f"the closed archive cannot be read: {e!r} (expected members {sorted(model)})")
    finally:
        shutil.rmtree(tmp, ignore_errors=True)
    if problems:
        print("FAIL: a writef() call that archives nothing leaves a half-registered member behind")
        for p in problems:
            print("  " + p)
        return 1
    print("PASS")
    return 0


if __name__ == "__main__":
    sys.exit(main())
