"""C12: a read-mode session must not change the archive file.

An archive that holds a symbolic-link member whose name equals the archive's own file name is extracted into the
directory the archive lies in.  The guard "would be written over the archive that is being read" exempts link members
(as_link), and the worker then does `fileish.unlink(); fileish.symlink_to(...)` on the archive's own path: the archive
file is removed from the file system and a symbolic link stands in its place.
"""
import hashlib
import os
import shutil
import sys
import tempfile

sys.path.insert(0, os.getcwd())
import py7zr  # noqa: E402


def sha(p):
    with open(p, "rb") as f:
        return hashlib.sha256(f.read()).hexdigest()


def main():
    d = tempfile.mkdtemp()
    cwd = os.getcwd()
    try:
        src = os.path.join(d, "src")
        os.mkdir(src)
        os.symlink("x.txt", os.path.join(src, "a.7z"))  # a link that happens to be named like the archive
        with open(os.path.join(src, "x.txt"), "w") as f:
            f.write("hello")
        dst = os.path.join(d, "dst")
        os.mkdir(dst)
        arc = os.path.join(dst, "a.7z")
        os.chdir(src)
        try:
            with py7zr.SevenZipFile(arc, "w") as z:
                z.write("a.7z")
                z.write("x.txt")
        finally:
            os.chdir(cwd)
        before = sha(arc)
        outcome = "extractall returned"
        try:
            with py7zr.SevenZipFile(arc, "r") as z:
                z.extractall(dst)
        except Exception as e:  # a refusal is fine: the property only demands that the archive is left alone
            outcome = "extractall raised %r" % (e,)
        problems = []
        if os.path.islink(arc):
            problems.append("the archive path is now a symbolic link to %r" % os.readlink(arc))
        try:
            after = sha(arc)
        except OSError as e:
            after = "unreadable: %r" % (e,)
        if after != before:
            problems.append("content behind the archive name changed (sha256 %s -> %s)" % (before[:12], after[:12]))
        if problems:
            print("FAIL: read-mode session (%s) replaced the archive file: %s" % (outcome, "; ".join(problems)))
            return 1
        print("PASS: archive untouched (%s)" % outcome)
        return 0
    finally:
        os.chdir(cwd)
        shutil.rmtree(d, ignore_errors=True)


if __name__ == "__main__":
    sys.exit(main())
