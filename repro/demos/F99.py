"""A wrong password still leaves garbage under the member's name when the digest is the FOLDER CRC.

0c7b069: "a member whose CRC does not match is removed from disk before the error is raised" (Copy+7zAES, where only the
CRC notices a wrong key).  The removal sits behind the member CRC comparison in Worker._extract_single.  When the folder
itself carries a CRC (UnpackInfo digest; SubStreamsInfo then has none for a single-stream folder - the layout c19654d and
3c680a6 deal with) Worker.decompress() raises CrcError for the folder as soon as the folder is finished, i.e. from inside
the `with fileish.open('wb')` block and before the member comparison: the removal is never reached and the decrypted
garbage stays in the target directory under the member's name.

The archive is written by py7zr itself; only the place of the digest is changed (folder CRC instead of substream CRC).
"""
import io
import os
import shutil
import sys
import tempfile

sys.path.insert(0, os.getcwd())  # run as: cd /tmp/rt/REVIEW3 && /venv/bin/python demo.py
import py7zr  # noqa: E402
import py7zr.archiveinfo as ai  # noqa: E402
from py7zr.helpers import calculate_crc32  # noqa: E402

data = os.urandom(5000)
buf = io.BytesIO()
z = py7zr.SevenZipFile(
    buf, "w", password="right", filters=[{"id": py7zr.FILTER_COPY}, {"id": py7zr.FILTER_CRYPTO_AES256_SHA256}]
)
z.writestr(data, "s.bin")
# put the digest where a writer that uses folder CRCs puts it: into UnpackInfo, none in SubStreamsInfo
folder = z.header.main_streams.unpackinfo.folders[0]
folder.digestdefined = True
folder.crc = calculate_crc32(data)
z.header.main_streams.substreamsinfo.digestsdefined = [False]
orig_write = ai.UnpackInfo.write
ai.UnpackInfo.write = lambda self, file, write_crcs=False, **kw: orig_write(self, file, write_crcs=True)
try:
    z.close()
finally:
    ai.UnpackInfo.write = orig_write

base = tempfile.mkdtemp(prefix="r3_fcrc_")
rc = 0
try:
    # sanity: the archive is good
    buf.seek(0)
    good = os.path.join(base, "good")
    with py7zr.SevenZipFile(buf, "r", password="right") as a:
        assert a.header.main_streams.unpackinfo.folders[0].crc == calculate_crc32(data)
        a.extractall(good)
    assert open(os.path.join(good, "s.bin"), "rb").read() == data
    # wrong password
    buf.seek(0)
    out = os.path.join(base, "out")
    err = None
    with py7zr.SevenZipFile(buf, "r", password="wrong") as a:
        try:
            a.extractall(out)
        except py7zr.exceptions.CrcError as e:
            err = e
    left = sorted(os.listdir(out)) if os.path.isdir(out) else []
    if err is None:
        print("FAIL: a wrong password was not noticed")
        rc = 1
    elif left:
        size = os.path.getsize(os.path.join(out, left[0]))
        print("FAIL: CrcError was raised for the wrong password, but the garbage was left on disk:", left, f"({size} bytes)")
        rc = 1
    else:
        print("PASS")
finally:
    shutil.rmtree(base, ignore_errors=True)
sys.exit(rc)
