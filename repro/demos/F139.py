"""C19: 't' and 'x' must both exit non-zero for an archive whose data is damaged.

The archive below (built byte by byte, Copy method) protects its data with the CRC of the packed stream only (PackInfo digests;
no folder or member CRC) - a legal layout.  't' verifies that CRC (library test()), 'x' never looks at it: it writes the damaged
bytes under the member's name and exits 0."""
import os
import shutil
import struct
import subprocess
import sys
import tempfile
import zlib

sys.path.insert(0, os.getcwd())
import py7zr  # noqa: E402

ROOT = os.path.dirname(os.path.dirname(os.path.abspath(py7zr.__file__)))


def cli(args, cwd):
    env = dict(os.environ, PYTHONPATH=ROOT)
    p = subprocess.run([sys.executable, "-m", "py7zr"] + args, cwd=cwd, env=env, capture_output=True, text=True, timeout=50)
    return p.returncode, p.stdout + p.stderr


def crc(b):
    return zlib.crc32(b) & 0xFFFFFFFF


def build(data: bytes) -> bytes:
    assert len(data) < 0x80
    n = bytes([len(data)])
    pack_info = b"\x06" + b"\x00" + b"\x01" + b"\x09" + n + b"\x0a\x01" + struct.pack("<L", crc(data)) + b"\x00"
    folder = b"\x01" + b"\x01" + b"\x00"  # one coder, id size 1, Copy
    unpack_info = b"\x07" + b"\x0b" + b"\x01" + b"\x00" + folder + b"\x0c" + n + b"\x00"
    name = "a.txt".encode("utf-16-le") + b"\x00\x00"
    files = b"\x05" + b"\x01" + b"\x11" + bytes([len(name) + 1]) + b"\x00" + name + b"\x00"
    header = b"\x01" + b"\x04" + pack_info + unpack_info + b"\x00" + files + b"\x00"
    start = struct.pack("<QQL", len(data), len(header), crc(header))
    return b"7z\xbc\xaf\x27\x1c" + b"\x00\x04" + struct.pack("<L", crc(start)) + start + data + header


def main():
    top = tempfile.mkdtemp()
    try:
        data = b"The quick brown fox jumps over the lazy dog. " * 2
        good = build(data)
        bad = bytearray(good)
        bad[32 + 10] ^= 0x55  # one byte of the packed stream
        with open(os.path.join(top, "good.7z"), "wb") as f:
            f.write(good)
        with open(os.path.join(top, "bad.7z"), "wb") as f:
            f.write(bytes(bad))
        # the undamaged archive is fine for both
        rc_t0, out_t0 = cli(["t", "good.7z"], top)
        rc_x0, out_x0 = cli(["x", "good.7z", "out_good"], top)
        if rc_t0 != 0 or rc_x0 != 0 or open(os.path.join(top, "out_good", "a.txt"), "rb").read() != data:
            print("FAIL: set-up: the undamaged archive is not accepted: t=%d x=%d\n%s\n%s" % (rc_t0, rc_x0, out_t0, out_x0))
            return 1
        rc_t, out_t = cli(["t", "bad.7z"], top)
        rc_x, out_x = cli(["x", "bad.7z", "out_bad"], top)
        p = os.path.join(top, "out_bad", "a.txt")
        left = open(p, "rb").read() if os.path.exists(p) else None
        if rc_t == 0:
            print("FAIL: 't' exits 0 for the damaged archive")
            return 1
        if rc_x == 0:
            print(
                "FAIL: one data byte is damaged and the packed-stream CRC says so: 't' exits %d (%r) but 'x' exits 0 and "
                "leaves a.txt with %s content" % (rc_t, out_t.strip().splitlines()[-1], "WRONG" if left != data else "right")
            )
            return 1
        print("PASS")
        return 0
    finally:
        shutil.rmtree(top, ignore_errors=True)


if __name__ == "__main__":
    sys.exit(main())
