#!/usr/bin/env python
"""C05 demo 8 (history): extractall(callback=...) twice on one SevenZipFile starts two reporter threads that read
the same queue; close() posts ONE sentinel and joins the *second* thread without a timeout.  The first
thread takes the sentinel, the second never ends, and close() (or leaving the `with` block) blocks forever
on a perfectly valid archive.

Run as:  cd <worktree> && python demo.py
"""
import os
import shutil
import subprocess
import sys
import tempfile

sys.path.insert(0, os.getcwd())

WATCHDOG = 12

CHILD = r"""
import sys, os, time
sys.path.insert(0, os.getcwd())
import py7zr

class CB(py7zr.callbacks.ExtractCallback):
    def report_start_preparation(self): pass
    def report_start(self, processing_file_path, processing_bytes): pass
    def report_update(self, decompressed_bytes): pass
    def report_end(self, processing_file_path, wrote_bytes): pass
    def report_warning(self, message): pass
    def report_postprocess(self): pass

mode, d = sys.argv[1], sys.argv[2]
p = os.path.join(d, "a.7z")
with py7zr.SevenZipFile(p, "w") as z:
    z.writestr(b"hello", "a.txt")
z = py7zr.SevenZipFile(p, "r")
z.extractall(os.path.join(d, "o1"), callback=CB())
if mode == "twice":
    z.reset()
    z.extractall(os.path.join(d, "o2"), callback=CB())
print("extracted", flush=True)
t0 = time.time()
z.close()
print("close() returned after %.2f s" % (time.time() - t0), flush=True)
"""


def run(mode):
    scratch = tempfile.mkdtemp()
    p = subprocess.Popen([sys.executable, "-c", CHILD, mode, scratch], stdout=subprocess.PIPE, stderr=subprocess.PIPE, text=True)
    try:
        out, err = p.communicate(timeout=WATCHDOG)
        return out.strip().replace("\n", "; ") or ("exit status %d: %s" % (p.returncode, err.strip()[-200:])), False
    except subprocess.TimeoutExpired:
        p.kill()
        out, err = p.communicate()
        return out.strip().replace("\n", "; "), True
    finally:
        shutil.rmtree(scratch, ignore_errors=True)


def main():
    import py7zr

    print("py7zr from", py7zr.__file__)
    out, hung = run("once")
    print("extractall(callback) ; close            ->", out, "(HUNG)" if hung else "")
    if hung or "close() returned" not in out:
        print("FAIL: reference history does not work, demo is not meaningful")
        return 1
    out, hung = run("twice")
    print("extractall(cb) ; reset ; extractall(cb) ; close ->", out, "(NO ANSWER within %d s)" % WATCHDOG if hung else "")
    if hung:
        print("FAIL: close() never returns after two extractions with a callback (second reporter thread is joined but never gets the sentinel)")
        return 1
    print("PASS: close() returned in bounded time")
    return 0


if __name__ == "__main__":
    sys.exit(main())
