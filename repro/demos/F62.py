"""C04: test() certifies (returns True) an archive whose members do not extract.
PackInfo may carry packed-stream CRCs for only some streams (the digest vector is a
"defined" bit vector). SevenZipFile.test() checks the streams that have one and then returns
True, so damage in a packed stream without a CRC is certified as good although extractall()
and testzip() on the same bytes report it."""
import io
import os
import struct
import sys
import zlib

sys.path.insert(0, os.getcwd())
import py7zr  # noqa: E402


def crc(b):
    return zlib.crc32(b) & 0xFFFFFFFF


def bits(v):
    o = bytearray((len(v) + 7) // 8)
    for i, b in enumerate(v):
        if b:
            o[i // 8] |= 0x80 >> (i % 8)
    return bytes(o)


def build(members, pack_crc_defined):
    """Reference writer: one Copy folder per member, per-file CRCs in SubStreamsInfo,
    packed-stream CRCs only where pack_crc_defined[i] is True. All numbers < 0x80."""
    datas = [d for _, d in members]
    n = len(datas)
    h = b"\x01\x04"
    # PackInfo: packpos 0, n streams, sizes, partially defined CRCs
    h += b"\x06\x00" + bytes([n]) + b"\x09" + bytes(len(d) for d in datas)
    h += b"\x0a\x00" + bits(pack_crc_defined)
    h += b"".join(struct.pack("<L", crc(d)) for d, df in zip(datas, pack_crc_defined) if df)
    h += b"\x00"
    # UnpackInfo: n folders, each a single Copy coder
    h += b"\x07\x0b" + bytes([n]) + b"\x00" + b"\x01\x01\x00" * n
    h += b"\x0c" + bytes(len(d) for d in datas) + b"\x00"
    # SubStreamsInfo: one stream per folder, every per-file CRC defined
    h += b"\x08\x0a\x01" + b"".join(struct.pack("<L", crc(d)) for d in datas) + b"\x00"
    h += b"\x00"
    # FilesInfo: names only
    names = b"\x00" + b"".join(nm.encode("utf-16-le") + b"\x00\x00" for nm, _ in members)
    h += b"\x05" + bytes([n]) + b"\x11" + bytes([len(names)]) + names + b"\x00"
    h += b"\x00"
    body = b"".join(datas)
    sh = struct.pack("<QQL", len(body), len(h), crc(h))
    return b"7z\xbc\xaf\x27\x1c\x00\x04" + struct.pack("<L", crc(sh)) + sh + body + h


class Fac(py7zr.io.WriterFactory):
    def __init__(self):
        self.p = {}

    def create(self, filename):
        self.p[filename] = py7zr.io.Py7zBytesIO(filename, 1 << 30)
        return self.p[filename]


def extract(data):
    fac = Fac()
    with py7zr.SevenZipFile(io.BytesIO(data), "r") as z:
        z.extractall(factory=fac)
    return {k: v._buffer.getvalue() for k, v in fac.p.items()}


def main() -> int:
    print("py7zr from", py7zr.__file__)
    members = [("a.txt", b"alpha " * 10), ("b.txt", b"beta " * 12), ("c.txt", b"gamma " * 9)]
    pristine = dict(members)
    arc = build(members, [True, False, True])
    # intact archive: everything agrees
    assert extract(arc) == pristine
    with py7zr.SevenZipFile(io.BytesIO(arc), "r") as z:
        assert z.test() in (True, None) and z.testzip() is None  # None: not every packed stream has a CRC to test against
    # damage: one bit inside the packed stream of b.txt (the stream without a packed CRC)
    pos = 32 + len(members[0][1]) + 5
    bad = bytearray(arc)
    bad[pos] ^= 0x04
    bad = bytes(bad)
    try:
        got = extract(bad)
        ext = "ok" if got == pristine else "DIFFERENT CONTENT"
    except Exception as e:
        ext = "%s%r" % (type(e).__name__, e.args)
    with py7zr.SevenZipFile(io.BytesIO(bad), "r") as z:
        tz = z.testzip()
    with py7zr.SevenZipFile(io.BytesIO(bad), "r") as z:
        t = z.test()
    print("damaged archive: extractall ->", ext, "| testzip() ->", repr(tz), "| test() ->", repr(t))
    if t is True and ext != "ok":
        print("FAIL: test() returned True (archive certified as good) although b.txt does not extract to its original bytes")
        return 1
    print("PASS")
    return 0


if __name__ == "__main__":
    sys.exit(main())
