"""C08/C15: a KeyboardInterrupt (any BaseException) raised by the source while write()/writef() archives it, inside a with block:
the member stayed registered, close() committed a header with more members than streams and the archive (with the members it had
before an append session) could no longer be opened."""
import io, os, sys, tempfile
sys.path.insert(0, os.getcwd())
import py7zr
import py7zr.io


class Interrupting(io.BufferedIOBase):
    def __init__(self, when): self.n = 0; self.when = when; self.pos = 0
    def readable(self): return True
    def seekable(self): return True
    def tell(self): return self.pos
    def seek(self, off, whence=0):
        self.pos = off if whence == 0 else (self.pos + off if whence == 1 else 10_000_000 + off)
        return self.pos
    def read(self, size=-1):
        self.n += 1
        if self.n >= self.when:
            raise KeyboardInterrupt()
        return b"x" * 1000


def main():
    d = tempfile.mkdtemp()
    arc = os.path.join(d, "a.7z")
    with py7zr.SevenZipFile(arc, "w") as z:
        z.writestr(b"old content", "old.txt")
    for when in (1, 3):
        try:
            with py7zr.SevenZipFile(arc, "a") as z:
                z.writef(Interrupting(when), "new.bin")
        except KeyboardInterrupt:
            pass
        except Exception as e:
            print("note: the with block raised", repr(e))
        try:
            with py7zr.SevenZipFile(arc, "r") as z:
                names = z.getnames()
                f = py7zr.io.BytesIOFactory(1000)
                z.extract(targets=["old.txt"], factory=f)
                data = f.get("old.txt").read()
        except Exception as e:
            print(f"FAIL: after an interrupted append (interrupt at read #{when}) the archive cannot be read any more: {e!r}")
            return 1
        if names != ["old.txt"] or data != b"old content":
            print("FAIL: members after the interrupted append:", names, data)
            return 1
    print("PASS: the archive still holds exactly the old member")
    return 0


sys.exit(main())
