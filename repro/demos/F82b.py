"""C18: `py7zr x --verbose` on an archive whose members are all empty kills the reporter at the first end event.

CliExtractCallback.report_end() computes total_bytes / archive_total; archive_total is the archive's uncompressed size,
0 for an archive of empty files and directories.  The ZeroDivisionError is raised inside the reporter thread, which
dies: a traceback is printed, no later member gets its start/end reported, and the command still exits with 0.
"""
import os
import sys

sys.path.insert(0, os.getcwd())
import shutil
import subprocess
import tempfile

import py7zr

NAMES = ["e1.txt", "e2.txt", "e3.txt"]


def main():
    d = tempfile.mkdtemp()
    try:
        src = os.path.join(d, "src")
        os.mkdir(src)
        for n in NAMES:
            open(os.path.join(src, n), "wb").close()
        arc = os.path.join(d, "a.7z")
        with py7zr.SevenZipFile(arc, "w") as z:
            for n in NAMES:
                z.write(os.path.join(src, n), n)
        out = os.path.join(d, "o")
        env = dict(os.environ, PYTHONPATH=os.getcwd(), COLUMNS="80")
        p = subprocess.run(
            [sys.executable, "-m", "py7zr", "x", "--verbose", arc, out], capture_output=True, env=env, timeout=50
        )
        err = p.stderr.decode("utf-8", "replace")
        listed = [n for n in NAMES if ("- " + n) in err]
        print("exit code %d, extracted %s, listed %s" % (p.returncode, sorted(os.listdir(out)), listed))
        if "ZeroDivisionError" in err or listed != NAMES:
            for line in err.splitlines():
                if "Error" in line:
                    print("stderr:", line.strip())
            print(
                "FAIL: the reporter thread died in the command's own handler at the first end event (0 bytes / 0 bytes): "
                "%d of %d members were reported" % (len(listed), len(NAMES))
            )
            return 1
        print("PASS")
        return 0
    finally:
        shutil.rmtree(d, ignore_errors=True)


if __name__ == "__main__":
    sys.exit(main())
