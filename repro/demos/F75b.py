"""C16: write()/writeall() with default arguments store a source file whose (POSIX-legal) name starts with a
backslash verbatim; _sanitize_archive_arcname strips only '/' (os.sep) and drive prefixes, while the 7z name
field - and py7zr's own reader - treat '\\' as a separator.  The closed archive lists an absolute member."""
import os
import shutil
import sys
import tempfile

sys.path.insert(0, os.getcwd())  # import the py7zr of the tree we are run from
import py7zr  # noqa: E402

if os.sep != "/":
    print("PASS (POSIX-only scenario: a backslash cannot occur in a file name here)")
    sys.exit(0)


def is_absolute_member(name: str) -> bool:
    return name.startswith(("/", "\\")) or (len(name) >= 2 and name[1] == ":" and name[0].isalpha())


problems = []
start = os.getcwd()
scratch = tempfile.mkdtemp(prefix="c16_")
try:
    tree = os.path.join(scratch, "tree")
    os.mkdir(tree)
    for fname in ("plain.txt", "\\abs.txt", "c:\\windows.txt"):
        with open(os.path.join(tree, fname), "wb") as f:
            f.write(b"data")
    os.chdir(tree)

    # relative source path, arcname None
    a1 = os.path.join(scratch, "w.7z")
    with py7zr.SevenZipFile(a1, "w") as z:
        z.write("plain.txt")
        z.write("\\abs.txt")
        z.write("c:\\windows.txt")
    with py7zr.SevenZipFile(a1, "r") as z:
        for n in z.getnames():
            if is_absolute_member(n):
                problems.append(f"write(): closed archive lists {n!r}")

    # writeall of the scratch tree, arcname None
    a2 = os.path.join(scratch, "wa.7z")
    with py7zr.SevenZipFile(a2, "w") as z:
        z.writeall(".")
    with py7zr.SevenZipFile(a2, "r") as z:
        for n in z.getnames():
            if is_absolute_member(n):
                problems.append(f"writeall('.'): closed archive lists {n!r}")
finally:
    os.chdir(start)
    shutil.rmtree(scratch, ignore_errors=True)

if problems:
    print("FAIL: archives written with default arguments contain absolute member names:")
    for p in problems:
        print("  ", p)
    sys.exit(1)
print("PASS")
