"""C08: a base archive (reference writer) with a SOLID folder - two members in one folder - that is protected by a
folder CRC (UnpackInfo kCRC) and carries no per-member CRCs (SubStreamsInfo without kCRC: legal, the folder digest
covers both members).  An append re-serialises the header without any folder CRC (UnpackInfo.write is called with
write_crcs=False for the main header) and the digest table of the substreams has nothing for these members, so the
only integrity information of the old members disappears from the archive.

Observable consequence shown here: one flipped byte in an old member is detected (CrcError) before the append and
is delivered silently as the member's content after the append.

(The repair c19654d 'folder CRCs were lost when SubStreamsInfo carries no digest record' hands the folder CRC down
only when the folder holds exactly one substream.)"""
import io
import os
import shutil
import struct
import sys
import tempfile
import zlib

sys.path.insert(0, os.getcwd())
import py7zr  # noqa: E402
from py7zr.io import Py7zIO, WriterFactory  # noqa: E402


def crc(b):
    return zlib.crc32(b) & 0xFFFFFFFF


A = b"member a: " + b"0123456789" * 5
B = b"member b: " + b"abcdefghij" * 3


def build():
    """one Copy folder holding A and B (solid), folder CRC defined, SubStreamsInfo = NumUnpackStream + Size only"""
    body = A + B
    h = io.BytesIO()
    h.write(b"\x01\x04")
    h.write(b"\x06\x00\x01\x09" + bytes([len(body)]) + b"\x00")  # kPackInfo: packpos 0, 1 stream, kSize
    h.write(b"\x07\x0b\x01\x00" + b"\x01\x01\x00")  # kUnpackInfo, kFolder: 1 folder, 1 coder: Copy
    h.write(b"\x0c" + bytes([len(body)]))  # kCodersUnpackSize
    h.write(b"\x0a\x01" + struct.pack("<L", crc(body)) + b"\x00")  # kCRC of the folder, all defined
    h.write(b"\x08\x0d\x02\x09" + bytes([len(A)]) + b"\x00")  # kSubStreamsInfo: 2 streams, size of the first; no kCRC
    h.write(b"\x00")
    h.write(b"\x05\x02")
    nb = b"".join(x.encode("utf-16-le") + b"\x00\x00" for x in ("a.txt", "b.txt"))
    h.write(b"\x11" + bytes([len(nb) + 1]) + b"\x00" + nb)
    h.write(b"\x00\x00")
    hdr = h.getvalue()
    start = struct.pack("<QQL", len(body), len(hdr), crc(hdr))
    return b"7z\xbc\xaf\x27\x1c\x00\x04" + struct.pack("<L", crc(start)) + start + body + hdr


class Buf(Py7zIO):
    def __init__(self):
        self.b = io.BytesIO()

    def write(self, s):
        return self.b.write(s)

    def read(self, size=None):
        return b""

    def seek(self, offset, whence=0):
        return 0

    def flush(self):
        pass

    def size(self):
        return len(self.b.getvalue())


class Fac(WriterFactory):
    def __init__(self):
        self.d = {}

    def create(self, filename):
        self.d[filename] = Buf()
        return self.d[filename]


def content(path):
    with py7zr.SevenZipFile(path, "r") as z:
        fac = Fac()
        z.extractall(factory=fac)
        return {k: v.b.getvalue() for k, v in fac.d.items()}


def digests(path):
    """(folder CRCs, member CRCs) as the archive declares them"""
    with py7zr.SevenZipFile(path, "r") as z:
        folders = z.header.main_streams.unpackinfo.folders
        return [f.crc if f.digestdefined else None for f in folders], [f.crc32 for f in z.files]


def damaged_copy(path):
    """the same archive with one bit flipped inside member a.txt (packed data starts at offset 32, Copy coder)"""
    raw = bytearray(open(path, "rb").read())
    raw[32 + 15] ^= 0x01
    bad = path + ".damaged"
    with open(bad, "wb") as f:
        f.write(raw)
    return bad


def damage_outcome(path):
    try:
        got = content(damaged_copy(path))
    except Exception as e:  # noqa
        return "detected", type(e).__name__
    return ("delivered" if got.get("a.txt") != A else "intact"), got.get("a.txt")


def main():
    print("py7zr from", py7zr.__file__)
    problems = []
    td = tempfile.mkdtemp()
    try:
        path = os.path.join(td, "base.7z")
        with open(path, "wb") as f:
            f.write(build())
        assert content(path) == {"a.txt": A, "b.txt": B}
        fcrc0, mcrc0 = digests(path)
        assert fcrc0 == [crc(A + B)] and mcrc0 == [None, None], (fcrc0, mcrc0)
        before = damage_outcome(path)
        assert before[0] == "detected", before  # the folder CRC catches the flipped bit
        with py7zr.SevenZipFile(path, "a", filters=[{"id": py7zr.FILTER_COPY}]) as z:
            z.writestr(b"appended", "new.txt")
        got = content(path)
        if got != {"a.txt": A, "b.txt": B, "new.txt": b"appended"}:
            problems.append(f"content after the append: {got}")
        fcrc1, mcrc1 = digests(path)
        if fcrc1[0] != fcrc0[0] and (mcrc1[0] is None or mcrc1[1] is None):
            problems.append(
                f"digests protecting a.txt/b.txt before the append: folder CRC {fcrc0[0]:#010x}; after: folder CRC "
                f"{fcrc1[0]}, member CRCs {mcrc1[:2]} - the old members have lost their only digest"
            )
        after = damage_outcome(path)
        if after[0] != "detected":
            problems.append(
                f"a flipped bit in a.txt: before the append -> {before[1]} raised; after the append -> extracted "
                f"without any error as {after[1][:24]!r}..."
            )
    finally:
        shutil.rmtree(td, ignore_errors=True)
    if problems:
        print("FAIL: an append drops the folder CRC of a solid folder, the only digest of its members")
        for p in problems:
            print("   -", p)
        return 1
    print("PASS")
    return 0


if __name__ == "__main__":
    sys.exit(main())
