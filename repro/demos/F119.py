"""C11: with a WRONG password and a chain in which a DECODER (not a CRC) trips over the wrong-key garbage - the default
LZMA2+7zAES, Deflate/BZip2/Zstd/Brotli/PPMd+7zAES - extraction raises LZMAError / zlib.error / DecompressionError ... and
leaves the output file behind: a correct copy that already lay at the member's path is destroyed (truncated to nothing),
a fresh directory gets an empty file under the member's name, and sometimes the file holds decoded garbage.
Only CrcError is cleaned up after (Worker._extract_single: 'except CrcError')."""
import base64
import io
import os
import sys
import tempfile

sys.path.insert(0, os.getcwd())
import py7zr  # noqa: E402

PASSWORD = "correct horse"
WRONG = "Correct horse"  # case-changed
NAME = "vault_notes.txt"
CONTENT = b"Attack at dawn! The password to the vault is swordfish. " * 40

# an archive made by py7zr itself with SevenZipFile(bio, "w", password="correct horse").writestr(CONTENT, "vault_notes.txt"):
# with this IV the garbage that "Correct horse" decrypts to starts like an uncompressed LZMA2 chunk
FIXED_ARCHIVE = base64.b64decode(
    "N3q8ryccAAS2Dvlz0AAAAAAAAAAbAAAAAAAAAC9W2vbcDWZgVqU/uYr/VSvOs5BnHQSMIIj6A+qkK8MRkQn26cc9kZI71dq37tFj+QGddssnOoPc0WScwS8Qro6Lug9EzyUlfmglndS9iPFVtUuFv+AAfAB4XQAAgTMHrg/SwbJcp8Dan335RlUelCZfDrOpRhdxmc+3IULudEnwnIVudeAKP3G/OwAgcyP1/NcF388PvbPJkHC+sjHF2dkCAQlHHGcamKSfyDhdDwABBPQABykCopAHesMynJHs+6XmG7S5D6nnIB+1OHSvR4QHGTgAFwZQAQmAgAAHCwEAASEhARgMfQoBtCoalAAA"
)


def state_of(path):
    if not os.path.lexists(path):
        return "absent"
    data = open(path, "rb").read()
    if data == CONTENT:
        return "the original content"
    return "an EMPTY file" if not data else "%d bytes that differ from the original" % len(data)


def try_wrong(archive_bytes, out):
    try:
        with py7zr.SevenZipFile(io.BytesIO(archive_bytes), "r", password=WRONG) as z:
            z.extractall(out)
        return "returned normally"
    except Exception as e:
        return "raised " + type(e).__name__


def main():
    problems = []
    bio = io.BytesIO()
    with py7zr.SevenZipFile(bio, "w", password=PASSWORD) as z:  # default filters: LZMA2 + 7zAES
        z.writestr(CONTENT, NAME)
    fresh = bio.getvalue()
    with tempfile.TemporaryDirectory() as td:
        for label, raw in (("fresh archive", fresh), ("fixed archive", FIXED_ARCHIVE)):
            good = os.path.join(td, "good_" + label[:5])
            with py7zr.SevenZipFile(io.BytesIO(raw), "r", password=PASSWORD) as z:
                z.extractall(good)
            if state_of(os.path.join(good, NAME)) != "the original content":
                print("demo broken: right password does not round trip", label)
                return 2
            # (a) into a new directory
            out = os.path.join(td, "new_" + label[:5])
            outcome = try_wrong(raw, out)
            st = state_of(os.path.join(out, NAME))
            if outcome == "returned normally" or st not in ("absent", "the original content"):
                problems.append("%s, new directory: extractall() %s; %s is left with %s" % (label, outcome, NAME, st))
            # (b) over a correct copy from an earlier extraction
            outcome = try_wrong(raw, good)
            st = state_of(os.path.join(good, NAME))
            if outcome == "returned normally" or st not in ("absent", "the original content"):
                problems.append("%s, over an existing correct copy: extractall() %s; %s now holds %s" % (label, outcome, NAME, st))
    if problems:
        print("FAIL: a wrong password leaves content that is not the original under the member's name")
        for p in problems:
            print("  -", p)
        return 1
    print("PASS")
    return 0


if __name__ == "__main__":
    sys.exit(main())
