"""C15: a writeall() call that fails part-way is not undone - the part of the tree it had already archived stays.

writeall() walks the tree and calls write() per entry. When one entry cannot be archived (here: a dangling symbolic
link, for which write() raises OSError; an unreadable file, a vanished file or an undecodable name do the same) the
exception reaches the caller, but the entries archived before it remain registered. After close the archive holds
members that no successful call wrote: it differs from the archive of the same session without the failed call.
"""
import os
import shutil
import sys
import tempfile

import py7zr


def names_and_data(arc):
    with py7zr.SevenZipFile(arc, "r") as z:
        names = z.getnames()
        bad = z.testzip()
    return names, bad


def main():
    tmp = tempfile.mkdtemp(prefix="c15w")
    try:
        tree = os.path.join(tmp, "tree")
        os.makedirs(os.path.join(tree, "sub"))
        with open(os.path.join(tree, "a.txt"), "wb") as fh:
            fh.write(b"a" * 1000)
        os.symlink("does-not-exist", os.path.join(tree, "m_dangling"))  # cannot be archived: write() raises OSError
        with open(os.path.join(tree, "sub", "z.txt"), "wb") as fh:
            fh.write(b"z" * 1000)
        arc = os.path.join(tmp, "t.7z")
        raised = None
        with py7zr.SevenZipFile(arc, "w") as z:
            z.writestr(b"before", "before.txt")  # successful call
            try:
                z.writeall(tree, "tree")  # the failing call
            except Exception as e:
                raised = e
            z.writestr(b"after", "after.txt")  # successful call
        names, bad = names_and_data(arc)
        expected = ["before.txt", "after.txt"]  # the model: successful calls only
        if raised is None:
            print("FAIL: writeall() of a tree with an entry that cannot be archived did not raise; members: %r" % names)
            return 1
        if bad is not None:
            print("FAIL: testzip() reports %r" % bad)
            return 1
        if names != expected:
            extra = [n for n in names if n not in expected]
            print(
                "FAIL: writeall() raised %s(%s) but left %r in the archive; members %r, expected %r"
                % (type(raised).__name__, raised, extra, names, expected)
            )
            return 1
        print("PASS: the failed writeall() left nothing behind")
        return 0
    finally:
        shutil.rmtree(tmp, ignore_errors=True)


if __name__ == "__main__":
    sys.exit(main())
