"""C13: two members of different folders whose paths lead to one file through a symbolic link that already
exists in the destination directory ('lib -> lib64' ...) are written by two workers at the same time: what is
left at that file depends on the schedule.  The check that sends such archives down the sequential path
compares the TEXT of the output paths only.

Run as:  cd /tmp/rt/HD13 && /venv/bin/python demo.py
"""
import os
import shutil
import sys
import tempfile
import threading

sys.path.insert(0, os.getcwd())
import py7zr  # noqa: E402
from py7zr.py7zr import Worker  # noqa: E402

SIZE = 50000
FIRST = b"1" * SIZE  # member 'lib/f', folder 0
SECOND = b"2" * SIZE  # member 'lib64/f', folder 1 (later in archive order: it is the one a sequential extraction leaves)


def make_dest(d, name):
    out = os.path.join(d, name)
    os.makedirs(os.path.join(out, "lib64"))
    os.symlink("lib64", os.path.join(out, "lib"))  # stays inside the destination: a legal, common layout
    return out


def scheduled(order):
    """A scheduler for the harness: worker tasks are held at their first output write and released in the given order."""
    original = Worker.decompress
    turn = threading.Condition()
    state = {"next": 0}

    def gated(self, fp, folder, fq, size, compressed_size, src_end, q=None, filename=None):
        if filename in order:
            with turn:
                turn.wait_for(lambda: order[state["next"]] == filename, timeout=5)
            try:
                return original(self, fp, folder, fq, size, compressed_size, src_end, q, filename=filename)
            finally:
                fq.flush()
                with turn:
                    state["next"] += 1
                    turn.notify_all()
        return original(self, fp, folder, fq, size, compressed_size, src_end, q, filename=filename)

    return original, gated


def main():
    print("py7zr from", py7zr.__file__)
    d = tempfile.mkdtemp()
    try:
        arc = os.path.join(d, "a.7z")
        with py7zr.SevenZipFile(arc, "w", filters=[{"id": py7zr.FILTER_COPY}]) as z:
            z.writestr(FIRST, "lib/f")
        with py7zr.SevenZipFile(arc, "a", filters=[{"id": py7zr.FILTER_COPY}]) as z:
            z.writestr(SECOND, "lib64/f")
        with py7zr.SevenZipFile(arc) as z:
            assert z.header.main_streams.unpackinfo.numfolders == 2
            assert z.getnames() == ["lib/f", "lib64/f"]
        results = {}
        # sequential path (archive given as a file object)
        out = make_dest(d, "seq")
        with open(arc, "rb") as fh, py7zr.SevenZipFile(fh) as z:
            z.extractall(out)
        results["sequential"] = open(os.path.join(out, "lib64", "f"), "rb").read()
        # thread-parallel path under two schedules of the output writes
        for label, order in (("threads, folder 0 writes first", ["lib/f", "lib64/f"]), ("threads, folder 1 writes first", ["lib64/f", "lib/f"])):
            out = make_dest(d, "thr" + order[0].replace("/", "_"))
            original, gated = scheduled(order)
            Worker.decompress = gated
            try:
                with py7zr.SevenZipFile(arc) as z:
                    z.extractall(out)
            finally:
                Worker.decompress = original
            results[label] = open(os.path.join(out, "lib64", "f"), "rb").read()

        def show(b):
            return {FIRST: "content of member lib/f", SECOND: "content of member lib64/f"}.get(b, "a mixture (%d bytes)" % len(b))

        for k, v in results.items():
            print("%-32s -> lib64/f holds the %s" % (k, show(v)))
    finally:
        shutil.rmtree(d, ignore_errors=True)
    if len(set(results.values())) != 1:
        print("FAIL: the file both members lead to (destination has lib -> lib64) depends on the schedule of the workers")
        return 1
    print("PASS")
    return 0


if __name__ == "__main__":
    sys.exit(main())
