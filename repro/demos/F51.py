"""C03: extractall() into the current directory (path=None) creates directories OUTSIDE it.

A single member named '../evil/sub/../../<name of cwd>/f.txt' is lexically inside the
current directory, so get_sanitized_output_path() accepts it - but for path=None it hands
back the un-canonicalised spelling.  mkdir(parents=True) on that spelling then creates
'../evil' and '../evil/sub' next to the destination before stepping back in through '..'.
"""
import io
import os
import shutil
import struct
import sys
import tempfile
import zlib

sys.path.insert(0, os.getcwd())
import py7zr  # noqa: E402


def num(v):
    assert v < 0x80
    return bytes([v])


def build(entries):
    """Minimal 7z writer: COPY codec, one solid folder. entries = [(name, kind, data)], kind in file/dir."""
    streams = [d for _, _, d in entries if d]
    packed = b"".join(streams)
    h = b"\x01"
    if streams:
        h += b"\x04" + b"\x06" + num(0) + num(1) + b"\x09" + num(len(packed)) + b"\x00"
        h += b"\x07\x0b" + num(1) + b"\x00" + num(1) + b"\x01\x00" + b"\x0c" + num(len(packed)) + b"\x00"
        h += b"\x08\x0d" + num(len(streams))
        if len(streams) > 1:
            h += b"\x09" + b"".join(num(len(d)) for d in streams[:-1])
        h += b"\x0a\x01" + b"".join(struct.pack("<L", zlib.crc32(d)) for d in streams) + b"\x00\x00"
    h += b"\x05" + num(len(entries))
    empty = [not d for _, _, d in entries]
    if any(empty):
        def bits(bs):
            out = bytearray((len(bs) + 7) // 8)
            for i, b in enumerate(bs):
                if b:
                    out[i // 8] |= 0x80 >> (i % 8)
            return bytes(out)
        bv = bits(empty)
        h += b"\x0e" + num(len(bv)) + bv
        ef = [k != "dir" for _, k, d in entries if not d]
        if any(ef):
            bv = bits(ef)
            h += b"\x0f" + num(len(bv)) + bv
    names = b"".join(n.encode("utf-16-le") + b"\x00\x00" for n, _, _ in entries)
    assert len(names) + 1 < 0x80
    h += b"\x11" + num(len(names) + 1) + b"\x00" + names
    attrs = b"".join(struct.pack("<L", 0x10 if k == "dir" else 0x20) for _, k, _ in entries)
    h += b"\x15" + num(len(attrs) + 2) + b"\x01\x00" + attrs
    h += b"\x00\x00"
    start = struct.pack("<QQL", len(packed), len(h), zlib.crc32(h))
    return b"7z\xbc\xaf\x27\x1c\x00\x04" + struct.pack("<L", zlib.crc32(start)) + start + packed + h


def tree(root, skip):
    out = set()
    for r, ds, fs in os.walk(root):
        if r == skip:
            ds[:] = []
            continue
        for n in ds + fs:
            out.add(os.path.join(r, n))
    return out


def main():
    assert os.path.dirname(py7zr.__file__).startswith(os.getcwd()), py7zr.__file__
    problems = []
    old = os.getcwd()
    for label, entries in (
        ("file member", [("../evil/sub/../../jail/f.txt", "file", b"DATA")]),
        ("empty file member", [("../evil2/../jail/e.txt", "file", b"")]),
        ("directory member", [("../evil3/../jail/d", "dir", b"")]),
    ):
        root = os.path.realpath(tempfile.mkdtemp(prefix="c03_"))
        try:
            jail = os.path.join(root, "jail")
            os.mkdir(jail)
            before = tree(root, jail)
            os.chdir(jail)
            outcome = "completed"
            try:
                with py7zr.SevenZipFile(io.BytesIO(build(entries))) as z:
                    z.extractall()  # path=None: the current directory is the destination
            except Exception as e:  # raising is fine, escaping is not
                outcome = "raised %r" % (e,)
            finally:
                os.chdir(old)
            created = sorted(tree(root, jail) - before)
            if created:
                problems.append("%s %r: extraction %s and created outside the destination: %s"
                                % (label, entries[0][0], outcome, [os.path.relpath(c, root) for c in created]))
        finally:
            os.chdir(old)
            shutil.rmtree(root, ignore_errors=True)
    if problems:
        print("FAIL: extractall() with path=None created directories outside the current directory")
        for p in problems:
            print("  -", p)
        return 1
    print("PASS: nothing was created outside the destination")
    return 0


if __name__ == "__main__":
    sys.exit(main())
