"""C16: writestr/writef must accept every name that stays inside the archive root.
Names that begin with './' followed by an empty component ('.//a', '././/a', './/', '.\\/a' ...) are relative and
stay inside (they resolve to 'a' or to the root), yet the gate refuses them with ValueError."""
import io
import itertools
import sys

import py7zr


def oracle_accepts(name: str) -> bool:
    """independent definition: reject iff absolute (leading separator, or a drive prefix on the first real component)
    or the depth goes negative while '..' is resolved lexically against a virtual root"""
    if name.startswith("/"):
        return False
    depth = 0
    first = True
    for comp in name.split("/"):
        if comp in ("", "."):
            continue
        if first and len(comp) >= 2 and comp[1] == ":" and comp[0].isalpha():
            return False
        first = False
        if comp == "..":
            depth -= 1
            if depth < 0:
                return False
        else:
            depth += 1
    return True


alphabet = ["a", "b", "..", ".", "", "c:"]
names = set()
for k in range(1, 5):
    for comps in itertools.product(alphabet, repeat=k):
        for lead in ("", "/", "//"):
            for trail in ("", "/"):
                names.add(lead + "/".join(comps) + trail)

wrong_reject = []
wrong_accept = []
for name in sorted(names, key=lambda s: (len(s), s)):
    for call in ("writestr", "writef"):
        z = py7zr.SevenZipFile(io.BytesIO(), "w")
        try:
            if call == "writestr":
                z.writestr(b"x", name)
            else:
                z.writef(io.BytesIO(b"x"), name)
            accepted = True
        except ValueError:
            accepted = False
        listed = z.getnames()
        z.close()
        if accepted != oracle_accepts(name):
            (wrong_reject if not accepted else wrong_accept).append((call, name, listed))

if wrong_accept or wrong_reject:
    print("FAIL: %d (call, name) pairs judged differently from the independent definition" % (len(wrong_accept) + len(wrong_reject)))
    if wrong_reject:
        print("  refused with ValueError although the name is relative and stays inside (%d), e.g.:" % len(wrong_reject))
        for call, name, _ in wrong_reject[:10]:
            print("    %s(..., %r)" % (call, name))
    if wrong_accept:
        print("  accepted although absolute or climbing (%d), e.g.:" % len(wrong_accept))
        for call, name, listed in wrong_accept[:10]:
            print("    %s(..., %r) -> %r" % (call, name, listed))
    sys.exit(1)
print("PASS: %d names judged like the independent definition by writestr and writef" % len(names))
