"""C06: a ZStandard folder whose packed stream consists of more than one frame (legal Zstandard, RFC 8878 section 3.1: frames may be
concatenated, skippable frames are skipped; the multi-threaded 7-Zip-zstd builds wrote exactly this) is not read: EOFError."""
import io
import os
import struct
import sys
import zlib

sys.path.insert(0, os.getcwd())
import py7zr  # noqa: E402
from py7zr.io import BytesIOFactory  # noqa: E402

import pyzstd  # a dependency of py7zr itself


def u64(v):
    if v < 0x80:
        return bytes([v])
    for n in range(1, 8):
        if v < (1 << (8 * n + (7 - n))):
            return bytes([((0xFF << (8 - n)) & 0xFF) | (v >> (8 * n))]) + (v & ((1 << (8 * n)) - 1)).to_bytes(n, "little")
    return b"\xff" + v.to_bytes(8, "little")


def crc(b):
    return zlib.crc32(b) & 0xFFFFFFFF


def archive(packed, members):
    plain_len = sum(len(m) for m in members)
    coder = u64(1) + bytes([4 | 0x20]) + b"\x04\xf7\x11\x01" + u64(3) + bytes([1, 5, 3])
    h = bytearray(b"\x01\x04")
    h += b"\x06" + u64(0) + u64(1) + b"\x09" + u64(len(packed)) + b"\x00"
    h += b"\x07\x0b" + u64(1) + b"\x00" + coder + b"\x0c" + u64(plain_len) + b"\x00"
    h += b"\x08\x0d" + u64(len(members)) + b"\x09" + b"".join(u64(len(m)) for m in members[:-1])
    h += b"\x0a\x01" + b"".join(struct.pack("<L", crc(m)) for m in members) + b"\x00\x00"
    names = b"\x00" + b"".join(("m%d" % i).encode("utf-16LE") + b"\x00\x00" for i in range(len(members)))
    h += b"\x05" + u64(len(members)) + b"\x11" + u64(len(names)) + names + b"\x00\x00"
    h = bytes(h)
    start = struct.pack("<QQL", len(packed), len(h), crc(h))
    return b"7z\xbc\xaf\x27\x1c\x00\x04" + struct.pack("<L", crc(start)) + start + packed + h


def read(blob, members):
    with py7zr.SevenZipFile(io.BytesIO(blob)) as z:
        fac = BytesIOFactory(1 << 24)
        z.extractall(factory=fac)
        if all(fac.products["m%d" % i].read() == m for i, m in enumerate(members)):
            return None
        return "wrong bytes"


def main():
    members = [b"first member " * 700, bytes(range(256)) * 30, b"third"]
    plain = b"".join(members)
    cut = 6000
    frames = [pyzstd.compress(plain[:cut], 3), pyzstd.compress(plain[cut:], 3)]
    layouts = [
        ("one frame (control)", pyzstd.compress(plain, 3)),
        ("two concatenated frames", b"".join(frames)),
        ("frames behind skippable frames (zstdmt)", b"".join(struct.pack("<LLL", 0x184D2A50, 4, len(f)) + f for f in frames)),
    ]
    bad = []
    for label, packed in layouts:
        # the packed stream is valid Zstandard: the library decodes it to the folder's content
        assert pyzstd.EndlessZstdDecompressor().decompress(packed) == plain
        try:
            res = read(archive(packed, members), members)
        except Exception as e:
            res = "%s: %s" % (type(e).__name__, str(e)[:80])
        print("  %-42s %s" % (label, "ok" if res is None else res))
        if res is not None:
            bad.append(label)
    if bad:
        print("FAIL: a valid ZStandard folder is not read when its packed stream has more than one frame")
        return 1
    print("PASS")
    return 0


if __name__ == "__main__":
    sys.exit(main())
