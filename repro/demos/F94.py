"""C06: a MainStreamsInfo record that holds no PackInfo/UnpackInfo (legal: every part of StreamsInfo is optional) makes
SevenZipFile() fail.  Writers that always emit the MainStreamsInfo record produce this for an archive that holds only
directories and empty files (Apache Commons Compress' SevenZOutputFile writes  04 08 00 00 :
kMainStreamsInfo, kSubStreamsInfo, kEnd, kEnd)."""
import io
import os
import struct
import sys
import tempfile
import zlib

sys.path.insert(0, os.getcwd())
import py7zr  # noqa: E402
from py7zr.io import BytesIOFactory  # noqa: E402


def u64(v):
    assert v < 0x80
    return bytes([v])


def bitvec(bools):
    out = bytearray((len(bools) + 7) // 8)
    for i, b in enumerate(bools):
        if b:
            out[i // 8] |= 0x80 >> (i % 8)
    return bytes(out)


def archive(main_streams_info: bytes) -> bytes:
    """two members without data: directory 'd' and empty file 'd/e.txt'"""
    names = ["d", "d/e.txt"]
    ft = 132000000000000000
    h = b"\x01"  # kHeader
    h += main_streams_info
    h += b"\x05" + u64(2)  # kFilesInfo, 2 files
    h += b"\x0e" + u64(1) + bitvec([True, True])  # kEmptyStream: both
    h += b"\x0f" + u64(1) + bitvec([False, True])  # kEmptyFile: the second empty stream is a file
    nm = b"\x00" + b"".join(n.encode("utf-16-le") + b"\x00\x00" for n in names)
    h += b"\x11" + u64(len(nm)) + nm  # kNames
    tm = b"\x01\x00" + struct.pack("<QQ", ft, ft + 10000000)
    h += b"\x14" + u64(len(tm)) + tm  # kMTime
    at = b"\x01\x00" + struct.pack("<LL", 0x10, 0x20)
    h += b"\x15" + u64(len(at)) + at  # kWinAttributes
    h += b"\x00"  # end of FilesInfo
    h += b"\x00"  # end of Header
    start = struct.pack("<QQL", 0, len(h), zlib.crc32(h))
    return b"7z\xbc\xaf\x27\x1c\x00\x04" + struct.pack("<L", zlib.crc32(start)) + start + h


LAYOUTS = {
    "no MainStreamsInfo at all (7-Zip's choice)": b"",
    "MainStreamsInfo { SubStreamsInfo {} } (04 08 00 00, Commons Compress)": b"\x04\x08\x00\x00",
    "MainStreamsInfo { } (04 00)": b"\x04\x00",
    "MainStreamsInfo { PackInfo(0 streams) } (04 06 00 00 00 00)": b"\x04\x06\x00\x00\x00\x00",
    "MainStreamsInfo { UnpackInfo(0 folders) } (04 07 0b 00 00 0c 00 00)": b"\x04\x07\x0b\x00\x00\x0c\x00\x00",
}


def read(blob):
    with py7zr.SevenZipFile(io.BytesIO(blob)) as z:
        names = z.getnames()
        kinds = [f.is_directory for f in z.list()]
        fac = BytesIOFactory(1 << 20)
        z.extractall(factory=fac)
        got = {}
        for k, v in fac.products.items():
            v.seek(0)
            got[k] = v.read()
    with tempfile.TemporaryDirectory() as tmp:
        with py7zr.SevenZipFile(io.BytesIO(blob)) as z:
            z.extractall(tmp)
        disk = (os.path.isdir(os.path.join(tmp, "d")), os.path.isfile(os.path.join(tmp, "d", "e.txt")))
    return names, kinds, got, disk


def main():
    print("py7zr from", py7zr.__file__)
    expected = (["d", "d/e.txt"], [True, False], {"d/e.txt": b""}, (True, True))
    failures = []
    for label, msi in LAYOUTS.items():
        try:
            res = read(archive(msi))
        except Exception as e:  # noqa
            failures.append(f"{label}: {type(e).__name__}: {e}")
            continue
        if res != expected:
            failures.append(f"{label}: read as {res}")
    if failures:
        print("FAIL: the same two members (directory 'd', empty file 'd/e.txt') cannot be read when the header carries")
        print("      a MainStreamsInfo record without PackInfo/UnpackInfo:")
        for f in failures:
            print("   -", f)
        return 1
    print("PASS: every layout is read as directory 'd' + empty file 'd/e.txt'")
    return 0


if __name__ == "__main__":
    sys.exit(main())
