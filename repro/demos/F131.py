"""
c91833b: the identity test "would this member be written over the archive?" follows links (Path.exists + os.stat) and is
applied to every kind of member.  A symbolic-link member is never written THROUGH an existing link: the worker unlinks
what is there and calls symlink_to().  So a tree that holds the archive and a link to it ('latest' -> 'backup.7z') can
be extracted next to the archive once, but every further extraction (an update in place) is refused with Bad7zFile -
before the fix (and upstream) it simply replaced the link; the archive was never in danger.
"""
import os
import pathlib
import sys
import tempfile

sys.path.insert(0, os.getcwd())
import py7zr  # noqa: E402


def main() -> int:
    with tempfile.TemporaryDirectory() as td:
        work = pathlib.Path(td) / "work"
        work.mkdir()
        (work / "data.txt").write_text("hello")
        arc = work / "backup.7z"
        with py7zr.SevenZipFile(arc, "w") as z:
            os.symlink("backup.7z", work / "latest")  # a link to the newest backup, kept in the archived tree
            z.write(work / "data.txt", "data.txt")
            z.write(work / "latest", "latest")
        os.unlink(work / "latest")
        image = arc.read_bytes()
        for rnd in (1, 2):
            try:
                with py7zr.SevenZipFile(arc, "r") as z:
                    z.extractall(work)
            except py7zr.exceptions.Bad7zFile as e:
                print(f"FAIL: extraction round {rnd} into the archive's directory is refused: {e}")
                print("      the member is a symbolic link: extracting it replaces the link 'latest', it never opens what the")
                print("      link points to - the archive was not in danger (before c91833b both rounds succeeded)")
                return 1
            if os.readlink(work / "latest") != "backup.7z" or arc.read_bytes() != image:
                print("FAIL: link or archive damaged")
                return 1
        print("PASS: a link member that points to the archive is re-extracted; the archive is untouched")
        return 0


if __name__ == "__main__":
    sys.exit(main())
