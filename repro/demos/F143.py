"""e35b323: write() refuses the root name ('' / '.' / '/') for every symbolic link, also when the archive is written with
dereference=True and the link leads to a directory.  writeall(<link to a directory>, arcname='') with dereference=True - "put the
tree behind 'current' at the root of the archive" - worked upstream and before the fix (members '.', 'f.txt', 'sub', ...), and
raises ValueError now."""
import io
import os
import sys
import tempfile

sys.path.insert(0, os.getcwd())
import py7zr  # noqa: E402

problems = []
with tempfile.TemporaryDirectory() as d:
    src = os.path.join(d, "release-1.2")
    os.makedirs(os.path.join(src, "sub"))
    with open(os.path.join(src, "f.txt"), "w") as f:
        f.write("hi")
    with open(os.path.join(src, "sub", "g.txt"), "w") as f:
        f.write("ho")
    os.symlink("release-1.2", os.path.join(d, "current"))
    for arc in ("", ".", "/"):
        buf = io.BytesIO()
        try:
            with py7zr.SevenZipFile(buf, "w", dereference=True) as z:
                z.writeall(os.path.join(d, "current"), arcname=arc)
            buf.seek(0)
            out = tempfile.mkdtemp(dir=d)
            with py7zr.SevenZipFile(buf) as z:
                z.extractall(out)
            got = sorted(os.listdir(out))
            if got != ["f.txt", "sub"]:
                problems.append(f"arcname={arc!r}: extracted {got}")
        except Exception as e:
            problems.append(f"arcname={arc!r}: {type(e).__name__}: {e}")
    # the same directory given directly is accepted
    buf = io.BytesIO()
    with py7zr.SevenZipFile(buf, "w", dereference=True) as z:
        z.writeall(src, arcname="")

if problems:
    print("FAIL: with dereference=True a symbolic link to a directory cannot be archived as the root of the archive any more")
    for p in problems:
        print("   ", p)
    sys.exit(1)
print("PASS")
