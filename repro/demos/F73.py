"""C01 demo 4: AESDecompressor loses track of its sub-16-byte residue when a piece of packed data does not
complete an AES block - the archive (any chain ending in 7zAES) can then not be read back.

AESDecompressor.decompress() has three cases: "buffer+data is a multiple of 16", "otherwise" and "flush".  The
"otherwise" case computes nextpos = (len(buf)+len(data)) & ~15 and slices data[: nextpos - len(buf)].  When the
residue plus the new piece is still shorter than 16 bytes, nextpos is 0, the slice index is negative and the
code decrypts the (unaligned) residue -> ValueError("Data must be padded to 16 byte boundary in CBC mode").
(AESCompressor.compress has an explicit branch for this situation, the decompressor has not.)

Pieces are whatever fp.read() returns:
 a) multi-volume target: multivolumefile returns short reads at the end of a volume.  With a volume size of
    1 MiB + 5 the second volume is read as 1 MiB + 5 bytes -> a 5-byte piece arrives while 5 bytes are buffered.
 b) any target when the internal I/O block size is smaller than 16 (shown with the block size patched to 7).
"""
import io
import os
import random
import shutil
import sys
import tempfile
from unittest import mock

import multivolumefile
import py7zr
from py7zr import FILTER_COPY, FILTER_CRYPTO_AES256_SHA256, FILTER_LZMA2

PW = "secret"


def write(target, members, filters):
    with py7zr.SevenZipFile(target, "w", filters=filters, password=PW) as z:
        for name, data in members:
            z.writestr(data, name)


def read(target):
    with py7zr.SevenZipFile(target, "r", password=PW) as z:
        names = z.getnames()
        fac = py7zr.io.BytesIOFactory(1 << 30)
        z.extractall(factory=fac)
    out = {}
    for k, v in fac.products.items():
        v.seek(0)
        out[k] = v.read()
    return names, out


def verdict(members, fn):
    try:
        names, out = fn()
    except Exception as e:  # noqa
        return "%s: %s" % (type(e).__name__, e)
    if names != [m[0] for m in members] or any(out.get(n) != d for n, d in members):
        return "wrong names/content"
    return None


def main():
    print("py7zr from", py7zr.__file__)
    failures = []
    rnd = random.Random(1)
    big = [("blob.bin", rnd.randbytes(5 * (1 << 19))), ("tail.txt", b"the end\n")]  # 2.5 MiB, incompressible
    tmp = tempfile.mkdtemp(prefix="c01demo4_")
    try:
        for label, filters in [
            ("COPY+7zAES", [{"id": FILTER_COPY}, {"id": FILTER_CRYPTO_AES256_SHA256}]),
            ("LZMA2+7zAES", [{"id": FILTER_LZMA2, "preset": 1}, {"id": FILTER_CRYPTO_AES256_SHA256}]),
        ]:
            for volume in [(1 << 20) + 5, 1 << 20]:
                base = os.path.join(tmp, "%s_%d" % (label, volume), "arc.7z")
                os.makedirs(os.path.dirname(base))
                with multivolumefile.open(base, mode="wb", volume=volume) as t:
                    write(t, big, filters)

                def rd():
                    with multivolumefile.open(base, mode="rb") as t:
                        return read(t)

                r = verdict(big, rd)
                print("a) %-12s multi-volume, volume=%d -> %s" % (label, volume, r or "ok"))
                if r:
                    failures.append(("a", label, volume))
    finally:
        shutil.rmtree(tmp, ignore_errors=True)
    # b) small internal I/O block size
    small = [("a.txt", b"hello world, hello world"), ("b.txt", b"x" * 100)]
    for bs in [7, 15, 16, 17]:
        with mock.patch("py7zr.compressor.get_default_blocksize", lambda: bs):
            bio = io.BytesIO()
            r = verdict(small, lambda: (write(bio, small, None), bio.seek(0), read(bio))[2])
        print("b) default encrypted chain, BytesIO, block size %2d -> %s" % (bs, r or "ok"))
        if r:
            failures.append(("b", bs))
    if [f for f in failures if f[0] == "a"]:
        print("FAIL: encrypted archives do not round-trip when a packed piece leaves the AES residue below 16 bytes:", failures)
        return 1
    if failures:
        print("FAIL (patched block size only):", failures)
        return 1
    print("PASS")
    return 0


if __name__ == "__main__":
    sys.exit(main())
