"""C19: with 'c -v SIZE' and the archive placed inside the directory that is archived, the first volume of the archive
being written (out.7z.0001) is stored as one of its own members; without -v the same command leaves the archive out.
'c' followed by 'x' therefore does not reproduce the input tree."""
import os
import shutil
import subprocess
import sys
import tempfile

ROOT = os.getcwd()  # the worktree: `cd /tmp/rt/HD19 && python demo.py`
sys.path.insert(0, ROOT)
ENV = dict(os.environ, PYTHONPATH=ROOT)


def cli(*args, cwd):
    r = subprocess.run([sys.executable, "-m", "py7zr", *args], cwd=cwd, env=ENV, capture_output=True, text=True)
    return r.returncode, r.stdout, r.stderr


def names(listing):
    # the name column of the listing starts at a fixed offset; member lines carry the attribute column at 20..25
    return sorted(line[53:].strip() for line in listing.splitlines() if line[20:25] in ("....A", ".....", "D...."))


def make_tree(top):
    os.makedirs(os.path.join(top, "sub"))
    with open(os.path.join(top, "a.txt"), "w") as f:
        f.write("hello\n" * 20)
    with open(os.path.join(top, "sub", "b.bin"), "wb") as f:
        f.write(os.urandom(5000))


def main():
    work = tempfile.mkdtemp(prefix="hd19_2_")
    try:
        # sibling: no -v
        make_tree(os.path.join(work, "p"))
        rc, out, err = cli("c", "p/out.7z", "p", cwd=work)
        assert rc == 0, err
        rc, out, err = cli("l", "p/out.7z", cwd=work)
        plain = names(out)
        print("c p/out.7z p        ->", plain)

        make_tree(os.path.join(work, "t"))
        before = sorted(
            os.path.relpath(os.path.join(dp, n), work) for dp, dn, fn in os.walk(os.path.join(work, "t")) for n in dn + fn
        ) + ["t"]
        rc_c, out, err = cli("c", "-v", "2k", "t/out", "t", cwd=work)
        if rc_c != 0:
            print("FAIL: c -v exited", rc_c, err[-300:])
            return 1
        rc_l, out, err = cli("l", "t/out.7z.0001", cwd=work)
        if rc_l != 0:
            print("FAIL: l exited", rc_l, err[-300:])
            return 1
        listed = names(out)
        print("c -v 2k t/out t     ->", listed)
        extra = sorted(set(listed) - set(before))
        missing = sorted(set(before) - set(listed))
        # and what 'x' would make of it (the cli cannot extract volumes: through the library, as 'l' does)
        import multivolumefile
        import py7zr

        assert py7zr.__file__.startswith(ROOT), py7zr.__file__
        dest = os.path.join(work, "dest")
        with multivolumefile.MultiVolume(os.path.join(work, "t", "out.7z"), mode="rb", ext_digits=4) as mv:
            with py7zr.SevenZipFile(mv) as a:
                a.extractall(dest)
        after = sorted(
            os.path.relpath(os.path.join(dp, n), dest) for dp, dn, fn in os.walk(dest) for n in dn + fn
        )
        print("tree before 'c'     ->", sorted(before))
        print("tree after extract  ->", after)
    finally:
        shutil.rmtree(work, ignore_errors=True)
    if extra or missing or sorted(before) != after:
        print("FAIL: 'c -v' stored the archive it was writing as a member of itself: extra members %s" % extra)
        return 1
    print("PASS: the archive lists exactly the input tree")
    return 0


if __name__ == "__main__":
    sys.exit(main())
