"""C08: an append session whose filter chain cannot be set up (here: an AES filter given without a password; the same
happens for a chain in the wrong order such as [LZMA2, BCJ], a lone Delta filter, an unknown id, a bad preset ...) fails
in the first write call - and the close() that follows (the end of the with block) then destroys the archive: every
member of the earlier sessions is lost.

Correct behaviour: the mistake is reported and the archive still holds what it held before."""
import io
import os
import shutil
import sys
import tempfile

sys.path.insert(0, os.getcwd())
import py7zr  # noqa: E402
from py7zr.io import Py7zIO, WriterFactory  # noqa: E402


class Buf(Py7zIO):
    def __init__(self):
        self.b = io.BytesIO()

    def write(self, s):
        return self.b.write(s)

    def read(self, size=None):
        return b""

    def seek(self, offset, whence=0):
        return 0

    def flush(self):
        pass

    def size(self):
        return len(self.b.getvalue())


class Fac(WriterFactory):
    def __init__(self):
        self.d = {}

    def create(self, filename):
        self.d[filename] = Buf()
        return self.d[filename]


def content(path):
    with py7zr.SevenZipFile(path, "r") as z:
        fac = Fac()
        z.extractall(factory=fac)
        return z.getnames(), {k: v.b.getvalue() for k, v in fac.d.items()}


CHAINS = {
    "AES filter but no password": [{"id": py7zr.FILTER_LZMA2, "preset": 1}, {"id": py7zr.FILTER_CRYPTO_AES256_SHA256}],
    "branch filter behind the compressor": [{"id": py7zr.FILTER_LZMA2, "preset": 1}, {"id": py7zr.FILTER_X86}],
    "Delta alone": [{"id": py7zr.FILTER_DELTA}],
}


def main():
    print("py7zr from", py7zr.__file__)
    old = {"one.txt": b"first session " * 20, "two.txt": b"second member"}
    problems = []
    td = tempfile.mkdtemp()
    try:
        base = os.path.join(td, "base.7z")
        with py7zr.SevenZipFile(base, "w") as z:
            for k, v in old.items():
                z.writestr(v, k)
        assert content(base) == (list(old), old)
        for label, chain in CHAINS.items():
            path = os.path.join(td, "work.7z")
            shutil.copy(base, path)
            raised = None
            try:
                with py7zr.SevenZipFile(path, "a", filters=chain) as z:
                    z.writestr(b"appended", "new.txt")
            except Exception as e:  # noqa  the chain is unusable: an error is the expected outcome
                raised = e
            try:
                names, datas = content(path)
            except Exception as e:  # noqa
                problems.append(
                    f"{label}: the session raised {type(raised).__name__}({raised}) and the archive is gone: "
                    f"opening it now gives {type(e).__name__}({e})"
                )
                continue
            if names[:2] != list(old) or any(datas.get(k) != v for k, v in old.items()):
                problems.append(f"{label}: members of the first session changed: {names}")
    finally:
        shutil.rmtree(td, ignore_errors=True)
    if problems:
        print("FAIL: an append session with an unusable filter chain destroys the existing archive")
        for p in problems:
            print("   -", p)
        return 1
    print("PASS")
    return 0


if __name__ == "__main__":
    sys.exit(main())
