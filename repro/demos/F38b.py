"""C06 demo 1: a directory entry whose Attributes value is undefined is read as an (empty) regular file.

In the 7z format the kind of a member without data comes from the EmptyStream / EmptyFile vectors:
  EmptyStream=1, EmptyFile=0  -> directory
  EmptyStream=1, EmptyFile=1  -> empty file
The Attributes property is optional per member (it has a "defined" bit vector).  An independent writer may
leave the attribute of a directory undefined; 7-Zip still lists and extracts it as a directory (IsDir is
derived from the EmptyFile vector in 7zIn.cpp).  py7zr derives is_directory only from FILE_ATTRIBUTE_DIRECTORY.
"""
import io, os, struct, sys, tempfile, shutil, zlib

sys.path.insert(0, os.getcwd())
import py7zr  # noqa: E402
from py7zr.io import BytesIOFactory  # noqa: E402


def num(v):
    if v < 0x80:
        return bytes([v])
    for n in range(1, 8):
        if v < (1 << (7 * n + 7)):
            return bytes([((0xFF << (8 - n)) & 0xFF) | (v >> (8 * n))]) + (v & ((1 << (8 * n)) - 1)).to_bytes(n, "little")
    return b"\xff" + v.to_bytes(8, "little")


def bits(v):
    out = bytearray((len(v) + 7) // 8)
    for i, b in enumerate(v):
        if b:
            out[i // 8] |= 0x80 >> (i % 8)
    return bytes(out)


def crc(b):
    return zlib.crc32(b) & 0xFFFFFFFF


def build():
    # logical archive: file, directory (attribute undefined), empty file, file
    data1, data2 = b"hello world\n" * 3, b"second file\n"
    members = [("a.txt", "file", 0x20), ("emptydir", "dir", None), ("empty.txt", "empty", 0x20), ("b.txt", "file", 0x20)]
    packed = data1 + data2  # one folder, Copy coder, two substreams
    h = bytearray([0x01, 0x04])  # Header, MainStreamsInfo
    h += bytes([0x06]) + num(0) + num(1) + bytes([0x09]) + num(len(packed)) + bytes([0x00])  # PackInfo
    h += bytes([0x07, 0x0B]) + num(1) + b"\x00" + num(1) + bytes([0x01, 0x00])  # UnpackInfo: 1 folder, 1 coder: Copy
    h += bytes([0x0C]) + num(len(packed)) + bytes([0x00])  # CodersUnpackSize, End
    h += bytes([0x08, 0x0D]) + num(2) + bytes([0x09]) + num(len(data1))  # SubStreamsInfo: 2 streams, size of the first
    h += bytes([0x0A, 0x01]) + struct.pack("<LL", crc(data1), crc(data2)) + bytes([0x00])  # CRCs, End
    h += bytes([0x00])  # End of MainStreamsInfo
    h += bytes([0x05]) + num(len(members))  # FilesInfo
    es = bits([k != "file" for _, k, _ in members])
    h += bytes([0x0E]) + num(len(es)) + es  # EmptyStream: emptydir, empty.txt
    ef = bits([k == "empty" for _, k, _ in members if k != "file"])
    h += bytes([0x0F]) + num(len(ef)) + ef  # EmptyFile: only empty.txt -> emptydir is a directory
    names = b"\x00" + b"".join(n.encode("utf-16-le") + b"\x00\x00" for n, _, _ in members)
    h += bytes([0x11]) + num(len(names)) + names
    defined = [a is not None for _, _, a in members]
    attrs = b"\x00" + bits(defined) + b"\x00" + b"".join(struct.pack("<L", a) for _, _, a in members if a is not None)
    h += bytes([0x15]) + num(len(attrs)) + attrs  # Attributes: partially defined vector
    h += bytes([0x00, 0x00])  # End of FilesInfo, End of Header
    h = bytes(h)
    start = struct.pack("<QQL", len(packed), len(h), crc(h))
    return b"7z\xbc\xaf\x27\x1c\x00\x04" + struct.pack("<L", crc(start)) + start + packed + h


def main():
    print("py7zr from", py7zr.__file__)
    blob = build()
    problems = []
    with py7zr.SevenZipFile(io.BytesIO(blob)) as z:
        info = {fi.filename: fi for fi in z.list()}
        if z.getnames() != ["a.txt", "emptydir", "empty.txt", "b.txt"]:
            problems.append("names: %r" % z.getnames())
        if not info["emptydir"].is_directory:
            problems.append("list(): 'emptydir' (EmptyStream=1, EmptyFile=0) has is_directory=False")
        if info["empty.txt"].is_directory:
            problems.append("list(): 'empty.txt' is reported as directory")
        fac = BytesIOFactory(1 << 20)
        z.extractall(factory=fac)
        if "emptydir" in fac.products:
            problems.append("extractall(factory): a data object was created for the directory 'emptydir'")
    tmp = tempfile.mkdtemp(prefix="hc06_1_")
    try:
        with py7zr.SevenZipFile(io.BytesIO(blob)) as z:
            z.extractall(tmp)
        p = os.path.join(tmp, "emptydir")
        if not os.path.isdir(p):
            problems.append("extractall(path): 'emptydir' is not a directory on disk (regular file: %s)" % os.path.isfile(p))
        if not os.path.isfile(os.path.join(tmp, "empty.txt")):
            problems.append("extractall(path): 'empty.txt' is not a regular file")
    finally:
        shutil.rmtree(tmp, ignore_errors=True)
    if problems:
        print("FAIL: directory member without a defined attribute is not read as a directory")
        for p in problems:
            print("  -", p)
        return 1
    print("PASS")
    return 0


if __name__ == "__main__":
    sys.exit(main())
