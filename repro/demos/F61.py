"""C13: the output of the threaded extraction depends on the schedule when two members of different
folders are given the same output path.

_extract() renames a repeated member name to "<name>_<n>", but does not look whether that generated
name is the name of another member.  Archive (3 folders, 1 member each, built with py7zr's own append
mode):   folder0: "a" (A...)    folder1: "a" (B..., extracted as "a_0")    folder2: "a_0" (C...)
The workers of folder1 and folder2 both write <out>/a_0.  In the sequential path folder2 always wins;
in the threaded path whoever runs last wins.

The harness only serialises the worker threads in a chosen order (each permutation is a legal
interleaving of the worker threads); the package is not modified.
"""
import itertools
import os
import shutil
import sys
import tempfile
import threading

sys.path.insert(0, os.getcwd())
import py7zr  # noqa: E402
import py7zr.py7zr as impl  # noqa: E402

MEMBERS = [("a", b"A" * 30000), ("a", b"B" * 20000), ("a_0", b"C" * 40000)]


def build(arc):
    for i, (name, data) in enumerate(MEMBERS):
        with py7zr.SevenZipFile(arc, "w" if i == 0 else "a") as z:
            z.writestr(data, name)


def tree(p):
    res = {}
    for root, _dirs, files in os.walk(p):
        for f in files:
            fp = os.path.join(root, f)
            with open(fp, "rb") as fh:
                d = fh.read()
            res[os.path.relpath(fp, p)] = "%d x %s" % (len(d), "".join(sorted(chr(c) for c in set(d))))
    return res


class Scheduler:
    """lets the per-folder worker threads run one after the other, in the given folder order"""

    def __init__(self, starts, order):
        self.turn_of = {starts[folder]: n for n, folder in enumerate(order)}
        self.cond = threading.Condition()
        self.turn = 0

    def install(self):
        orig = impl.Worker.extract_single
        sched = self

        def gated(self, fp, files, path, src_start, src_end, q, exc_q=None, skip_notarget=True):
            if exc_q is None:  # not a worker thread (empty members, sequential path)
                return orig(self, fp, files, path, src_start, src_end, q, exc_q, skip_notarget)
            mine = sched.turn_of[src_start]
            with sched.cond:
                if not sched.cond.wait_for(lambda: sched.turn == mine, timeout=20):
                    raise RuntimeError("scheduler timeout")
            try:
                return orig(self, fp, files, path, src_start, src_end, q, exc_q, skip_notarget)
            finally:
                with sched.cond:
                    sched.turn += 1
                    sched.cond.notify_all()

        impl.Worker.extract_single = gated
        return orig


def main():
    print("py7zr from", py7zr.__file__)
    tmp = tempfile.mkdtemp(prefix="hc13_2_")
    try:
        arc = os.path.join(tmp, "dup.7z")
        build(arc)
        with py7zr.SevenZipFile(arc) as z:
            ms = z.header.main_streams
            assert ms.unpackinfo.numfolders == 3, ms.unpackinfo.numfolders
            assert z.getnames() == ["a", "a", "a_0"], z.getnames()
            base = z.afterheader + ms.packinfo.packpos
            starts = [base + p for p in ms.packinfo.packpositions[:3]]
        # reference: sequential path (archive given as a stream)
        out = os.path.join(tmp, "seq")
        with open(arc, "rb") as fh, py7zr.SevenZipFile(fh) as z:
            z.extractall(out)
        ref = tree(out)
        print("sequential        ->", ref)
        results = {}
        for order in itertools.permutations(range(3)):
            sched = Scheduler(starts, order)
            orig = sched.install()
            try:
                out = os.path.join(tmp, "thr_%d%d%d" % order)
                with py7zr.SevenZipFile(arc) as z:
                    z.extractall(out)
            finally:
                impl.Worker.extract_single = orig
            results[order] = tree(out)
            print("threads, order %s ->" % (order,), results[order])
    finally:
        shutil.rmtree(tmp, ignore_errors=True)
    differing = [o for o, t in results.items() if t != ref]
    if differing:
        print("FAIL: the extracted tree depends on the order in which the folder workers run;")
        print("      schedules %s differ from the sequential result (file a_0 is written by two workers)" % differing)
        return 1
    print("PASS")
    return 0


if __name__ == "__main__":
    sys.exit(main())
