"""C19: 'py7zr c arc.7z .' (archive created inside the directory it archives) packs the half-written archive into itself:
'c' followed by 'x' does not reproduce the input tree, there is an extra bogus member 'arc.7z'."""
import os
import shutil
import subprocess
import sys
import tempfile

WT = os.getcwd() if os.path.isdir(os.path.join(os.getcwd(), "py7zr")) else "/tmp/rt/HC19"
ENV = dict(os.environ, PYTHONPATH=WT)


def cli(*args, cwd):
    return subprocess.run([sys.executable, "-m", "py7zr", *args], cwd=cwd, env=ENV, capture_output=True, text=True, timeout=50)


def snapshot(root):
    res = {}
    for r, ds, fs in os.walk(root):
        for n in ds:
            res[os.path.relpath(os.path.join(r, n), root)] = None
        for n in fs:
            with open(os.path.join(r, n), "rb") as f:
                res[os.path.relpath(os.path.join(r, n), root)] = f.read()
    return res


def main():
    d = tempfile.mkdtemp()
    try:
        where = subprocess.run(
            [sys.executable, "-c", "import py7zr;print(py7zr.__file__)"], cwd=d, env=ENV, capture_output=True, text=True
        ).stdout.strip()
        assert where.startswith(WT), where
        problems = []
        for arcname in ("backup.7z", "backup"):  # archive name with and without .7z
            tree = os.path.join(d, "tree_" + arcname)
            os.makedirs(os.path.join(tree, "sub"))
            with open(os.path.join(tree, "a.txt"), "wb") as f:
                f.write(b"hello world\n" * 1000)
            with open(os.path.join(tree, "sub", "z.bin"), "wb") as f:
                f.write(os.urandom(5000))
            before = snapshot(tree)
            c = cli("c", arcname, ".", cwd=tree)  # the usual "archive this directory" call
            if c.returncode != 0:
                problems.append(f"c {arcname} . : exit {c.returncode}")
                continue
            out = os.path.join(d, "out_" + arcname)
            x = cli("x", os.path.join(tree, "backup.7z"), out, cwd=d)
            after = snapshot(out) if x.returncode == 0 else None
            if after != before:
                extra = sorted(set(after or {}) - set(before))
                missing = sorted(set(before) - set(after or {}))
                size = len(after[extra[0]]) if after and extra and after[extra[0]] is not None else None
                problems.append(
                    f"c {arcname} . ; x -> exit {x.returncode}; extra members {extra} (first is {size} bytes), missing {missing}"
                )
        if problems:
            print("FAIL: 'c' followed by 'x' does not reproduce the input tree (the archive being written was archived too):")
            for pr in problems:
                print("  -", pr)
            return 1
        print("PASS: the extracted tree equals the input tree")
        return 0
    finally:
        shutil.rmtree(d, ignore_errors=True)


if __name__ == "__main__":
    sys.exit(main())
