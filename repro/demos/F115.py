"""C09: in an archive with ONE folder, selecting a member that has no stream (an empty file) makes the worker decode every
unselected data member in front of it.  When that data cannot be decoded without more than the selection needs - the folder is
encrypted and no password was given, or it uses a method py7zr cannot decode - extract(targets=T) raises in the middle of the
extraction (output directory already created) instead of delivering the empty file.  The early password check of _extract()
has decided (correctly) that no password is needed for T, the same selection works when the archive has two folders, and
selecting the directory works too: sibling paths disagree.

The archives are built byte by byte (plain header, empty-stream/empty-file vectors as 7-Zip writes them)."""
import io
import os
import shutil
import struct
import sys
import tempfile
import zlib

sys.path.insert(0, os.getcwd())
import py7zr  # noqa: E402
from py7zr.compressor import AESCompressor  # noqa: E402
from py7zr.io import BytesIOFactory  # noqa: E402


def num(v):
    assert v < 0x4000
    return bytes([v]) if v < 0x80 else bytes([0x80 | (v >> 8), v & 0xFF])


def bits(bl):
    out = bytearray((len(bl) + 7) // 8)
    for i, b in enumerate(bl):
        if b:
            out[i // 8] |= 0x80 >> (i % 8)
    return bytes(out)


def crc(b):
    return zlib.crc32(b) & 0xFFFFFFFF


def build(folders, files):
    """folders: [(method_id, props, packed, [member bytes...])]; files: [(name, kind)] kind f=data, e=empty file, d=directory"""
    body = b"".join(f[2] for f in folders)
    h = io.BytesIO()
    h.write(b"\x01\x04")
    h.write(b"\x06" + num(0) + num(len(folders)) + b"\x09" + b"".join(num(len(f[2])) for f in folders) + b"\x00")
    h.write(b"\x07\x0b" + num(len(folders)) + b"\x00")
    for mid, props, packed, members in folders:
        h.write(b"\x01" + bytes([len(mid) | (0x20 if props is not None else 0)]) + mid)
        if props is not None:
            h.write(num(len(props)) + props)
    h.write(b"\x0c" + b"".join(num(sum(len(m) for m in f[3])) for f in folders) + b"\x00")
    h.write(b"\x08\x0d" + b"".join(num(len(f[3])) for f in folders))
    h.write(b"\x09" + b"".join(num(len(m)) for f in folders for m in f[3][:-1]))
    allm = [m for f in folders for m in f[3]]
    h.write(b"\x0a\x01" + b"".join(struct.pack("<L", crc(m)) for m in allm) + b"\x00")
    h.write(b"\x00")
    h.write(b"\x05" + num(len(files)))
    empty = [k != "f" for _, k in files]
    v = bits(empty)
    h.write(b"\x0e" + num(len(v)) + v)
    v = bits([k == "e" for _, k in files if k != "f"])
    h.write(b"\x0f" + num(len(v)) + v)
    names = b"".join(n.encode("utf-16le") + b"\x00\x00" for n, _ in files)
    h.write(b"\x11" + num(len(names) + 1) + b"\x00" + names)
    attrs = b"\x01\x00" + b"".join(struct.pack("<L", 0x10 if k == "d" else 0x20) for _, k in files)
    h.write(b"\x15" + num(len(attrs)) + attrs)
    h.write(b"\x00\x00")
    hdr = h.getvalue()
    start = struct.pack("<QQL", len(body), len(hdr), crc(hdr))
    return b"7z\xbc\xaf\x27\x1c\x00\x04" + struct.pack("<L", crc(start)) + start + body + hdr


def aes_folder(members):
    c = AESCompressor("secret")
    packed = c.compress(b"".join(members)) + c.flush()
    return (b"\x06\xf1\x07\x01", c.encode_filter_properties(), packed, members)


def lz4_folder(members):  # a method this reader has no decoder for; the bytes are never needed for the selection below
    return (b"\x04\xf7\x11\x04", None, b"".join(members), members)


def snapshot(root):
    res = {}
    for dp, dn, fn in os.walk(root):
        for n in dn:
            res[os.path.relpath(os.path.join(dp, n), root) + "/"] = None
        for n in fn:
            p = os.path.join(dp, n)
            with open(p, "rb") as f:
                res[os.path.relpath(p, root)] = f.read()
    return res


def main():
    A, B = os.urandom(1000), os.urandom(500)
    files = [("a.bin", "f"), ("b.bin", "f"), ("marker.empty", "e"), ("emptydir", "d")]
    failures = []
    tmp = tempfile.mkdtemp()
    try:
        one = build([aes_folder([A, B])], files)
        two = build([aes_folder([A]), aes_folder([B])], files)
        # the archives are good: with the password everything comes out
        for blob in (one, two):
            fac = BytesIOFactory(1 << 20)
            with py7zr.SevenZipFile(io.BytesIO(blob), password="secret") as z:
                z.extractall(factory=fac)
            assert {k: v._buffer.getvalue() for k, v in fac.products.items()} == {"a.bin": A, "b.bin": B, "marker.empty": b""}
        cases = [
            ("encrypted, one folder, no password", one),
            ("encrypted, two folders, no password", two),
            ("undecodable method (LZ4), one folder", build([lz4_folder([A, B])], files)),
            ("undecodable method (LZ4), two folders", build([lz4_folder([A]), lz4_folder([B])], files)),
        ]
        for i, (label, blob) in enumerate(cases):
            for T, expected in ((["marker.empty"], {"marker.empty": b""}), (["marker.empty", "emptydir/"], {"marker.empty": b"", "emptydir/": None})):
                out = os.path.join(tmp, "out%d_%d" % (i, len(T)))
                try:
                    with py7zr.SevenZipFile(io.BytesIO(blob)) as z:
                        z.extract(out, targets=T)
                    got = snapshot(out)
                    if got != expected:
                        failures.append("%s: targets=%r created %r" % (label, T, sorted(got)))
                except Exception as e:
                    failures.append(
                        "%s: targets=%r raised %s after creating the output directory (%s)"
                        % (label, T, type(e).__name__, "exists, holds %r" % os.listdir(out) if os.path.exists(out) else "absent")
                    )
                fac = BytesIOFactory(1 << 20)
                try:
                    with py7zr.SevenZipFile(io.BytesIO(blob)) as z:
                        z.extract(targets=set(T), factory=fac)
                    if set(fac.products) != {"marker.empty"}:
                        failures.append("%s: factory, targets=%r produced %r" % (label, T, sorted(fac.products)))
                except Exception as e:
                    failures.append("%s: factory, targets=%r raised %s" % (label, T, type(e).__name__))
    finally:
        shutil.rmtree(tmp, ignore_errors=True)
    if failures:
        print("FAIL: a selected empty file is not delivered when the (unselected) data in front of it in the same single folder")
        print("      cannot be decoded, although the selection needs no data at all; with two folders the same selection works:")
        for f in failures:
            print("  " + f)
        return 1
    print("PASS")
    return 0


if __name__ == "__main__":
    sys.exit(main())
