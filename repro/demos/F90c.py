"""C15: a write call that is rejected in an append session destroys the archive that was there before.

The coder chain given to SevenZipFile(..., 'a', filters=/password=) is only built by the first write call
(Header.initialize). When that fails (unknown/unsupported chain, an encryption filter without a password, a
password that is not a str, ...) the write call raises - fine - but Header.initialize has already set
_initialized = True without having created the new folder. close() then voids the start header and calls
flush_archive() on the last folder of the OLD archive, which has no compressor: AssertionError, no header is
written, and the members the archive held before the session are lost.
"""
import os
import shutil
import sys
import tempfile

import py7zr

OLD = {"old/one.txt": b"first old member " * 50, "old/two.txt": b"second old member"}


def read_members(arc):
    with py7zr.SevenZipFile(arc, "r") as z:
        names = z.getnames()
        bad = z.testzip()
    out = tempfile.mkdtemp(prefix="c15x")
    try:
        with py7zr.SevenZipFile(arc, "r") as z:
            z.extractall(out)
        got = {}
        for n in names:
            with open(os.path.join(out, n), "rb") as fh:
                got[n] = fh.read()
    finally:
        shutil.rmtree(out, ignore_errors=True)
    return got, bad


def scenario(tmp, label, kwargs, later_good_write):
    arc = os.path.join(tmp, "t.7z")
    if os.path.exists(arc):
        os.unlink(arc)
    with py7zr.SevenZipFile(arc, "w") as z:
        for n, d in OLD.items():
            z.writestr(d, n)
    seen = []
    try:
        z = py7zr.SevenZipFile(arc, "a", **kwargs)
    except Exception as e:  # rejected at open: nothing has been touched, that is a correct outcome
        seen.append("open raised %s" % type(e).__name__)
        z = None
    if z is not None:
        try:
            z.writestr(b"new data", "new.txt")  # the failing call (its coder chain is rejected)
            seen.append("write accepted")
        except Exception as e:
            seen.append("write raised %s" % type(e).__name__)
        if later_good_write:
            try:
                z.writestr(b"more", "more.txt")
                seen.append("2nd write accepted")
            except Exception as e:
                seen.append("2nd write raised %s" % type(e).__name__)
        try:
            z.close()
            seen.append("close ok")
        except Exception as e:
            seen.append("close raised %s" % type(e).__name__)
    try:
        got, bad = read_members(arc)
    except Exception as e:
        return "%s: %s; afterwards the archive cannot be opened: %r" % (label, ", ".join(seen), e)
    for n, d in OLD.items():
        if got.get(n) != d or bad is not None:
            return "%s: %s; old member %r is missing or damaged" % (label, ", ".join(seen), n)
    return None


def main():
    tmp = tempfile.mkdtemp(prefix="c15d")
    problems = []
    try:
        cases = [
            ("encryption filter without a password", {"filters": [{"id": py7zr.FILTER_LZMA2, "preset": 6}, {"id": py7zr.FILTER_CRYPTO_AES256_SHA256}]}),
            ("password given as bytes", {"password": b"secret"}),
            ("unsupported filter combination", {"filters": [{"id": py7zr.FILTER_LZMA2}, {"id": py7zr.FILTER_X86}]}),
            ("invalid preset", {"filters": [{"id": py7zr.FILTER_LZMA2, "preset": 99}]}),
        ]
        for label, kw in cases:
            for later in (False, True):
                r = scenario(tmp, label + (" + a further write" if later else ""), kw, later)
                if r:
                    problems.append(r)
    finally:
        shutil.rmtree(tmp, ignore_errors=True)
    if problems:
        print("FAIL: a rejected write call in an append session destroyed the existing archive")
        for p in problems:
            print("  -", p)
        return 1
    print("PASS: the old members survive a rejected write call")
    return 0


if __name__ == "__main__":
    sys.exit(main())
