"""C08: opening an archive with mode 'a' and header_encryption=True (or calling set_encrypted_header(True)) without
giving a password destroys the archive in close() - even when the session writes nothing at all: the start header
is voided, then the header encoder fails on the missing password, and the file is left without a valid start header.

Correct behaviour: the impossible request is refused (or the header is written unencrypted) and the members of the
earlier sessions are still there."""
import io
import os
import shutil
import sys
import tempfile

sys.path.insert(0, os.getcwd())
import py7zr  # noqa: E402
from py7zr.io import Py7zIO, WriterFactory  # noqa: E402


class Buf(Py7zIO):
    def __init__(self):
        self.b = io.BytesIO()

    def write(self, s):
        return self.b.write(s)

    def read(self, size=None):
        return b""

    def seek(self, offset, whence=0):
        return 0

    def flush(self):
        pass

    def size(self):
        return len(self.b.getvalue())


class Fac(WriterFactory):
    def __init__(self):
        self.d = {}

    def create(self, filename):
        self.d[filename] = Buf()
        return self.d[filename]


def content(path):
    with py7zr.SevenZipFile(path, "r") as z:
        fac = Fac()
        z.extractall(factory=fac)
        return z.getnames(), {k: v.b.getvalue() for k, v in fac.d.items()}


def session_kw(path):
    """header_encryption given to the constructor, one member appended"""
    with py7zr.SevenZipFile(path, "a", header_encryption=True) as z:
        z.writestr(b"appended", "new.txt")


def session_kw_nothing(path):
    """header_encryption given to the constructor, nothing appended"""
    with py7zr.SevenZipFile(path, "a", header_encryption=True):
        pass


def session_setter(path):
    """set_encrypted_header(True), nothing appended"""
    with py7zr.SevenZipFile(path, "a") as z:
        z.set_encrypted_header(True)


def main():
    print("py7zr from", py7zr.__file__)
    old = {"one.txt": b"first session " * 20, "two.txt": b"second member"}
    problems = []
    td = tempfile.mkdtemp()
    try:
        base = os.path.join(td, "base.7z")
        with py7zr.SevenZipFile(base, "w") as z:
            for k, v in old.items():
                z.writestr(v, k)
        assert content(base) == (list(old), old)
        for session in (session_kw, session_kw_nothing, session_setter):
            path = os.path.join(td, "work.7z")
            shutil.copy(base, path)
            raised = None
            try:
                session(path)
            except Exception as e:  # noqa  refusing the request is an acceptable outcome
                raised = e
            try:
                names, datas = content(path)
            except Exception as e:  # noqa
                problems.append(
                    f"{session.__doc__}: the session raised {type(raised).__name__}({raised}); the archive is gone, "
                    f"opening it now gives {type(e).__name__}({e})"
                )
                continue
            if names[:2] != list(old) or any(datas.get(k) != v for k, v in old.items()):
                problems.append(f"{session.__doc__}: members of the first session changed: {names}")
    finally:
        shutil.rmtree(td, ignore_errors=True)
    if problems:
        print("FAIL: mode 'a' with header encryption but no password destroys the existing archive")
        for p in problems:
            print("   -", p)
        return 1
    print("PASS")
    return 0


if __name__ == "__main__":
    sys.exit(main())
