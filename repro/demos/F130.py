"""C07: a BCJ filter given with liblzma's documented 'start_offset' option is used by the encoder, but the 7z coder record of a
branch filter has no place for it (py7zr writes the coder without properties).  The archive that results declares CRCs and
content that no reader - an independent one, or py7zr itself - can reproduce."""
import io
import lzma
import os
import struct
import sys
import zlib

sys.path.insert(0, os.getcwd())
import py7zr  # noqa: E402


class Rd:
    def __init__(self, b):
        self.b, self.p = b, 0

    def take(self, n):
        assert self.p + n <= len(self.b), "truncated header"
        r = self.b[self.p : self.p + n]
        self.p += n
        return r

    def byte(self):
        return self.take(1)[0]

    def num(self):
        first, mask, value = self.byte(), 0x80, 0
        for i in range(8):
            if not first & mask:
                return value | ((first & (mask - 1)) << (8 * i))
            value |= self.byte() << (8 * i)
            mask >>= 1
        return value


def independent_read(raw):
    """Minimal reader for what this demo writes: plain header, one folder of simple coders, substream CRCs all defined."""
    assert raw[:6] == b"7z\xbc\xaf\x27\x1c"
    ofs, size, hcrc = struct.unpack("<QQL", raw[12:32])
    hdr = raw[32 + ofs : 32 + ofs + size]
    assert zlib.crc32(hdr) == hcrc
    r = Rd(hdr)
    assert r.take(3) == b"\x01\x04\x06"
    packpos, nstreams = r.num(), r.num()
    assert nstreams == 1 and r.byte() == 0x09
    packsize = r.num()
    assert r.take(3) == b"\x00\x07\x0b" and r.num() == 1 and r.byte() == 0
    coders = []
    for _ in range(r.num()):
        flag = r.byte()
        assert flag & 0xD0 == 0, "simple coders only"
        mid = r.take(flag & 0x0F)
        props = r.take(r.num()) if flag & 0x20 else None
        coders.append((mid, props))
    for _ in range(len(coders) - 1):
        r.num(), r.num()
    assert r.byte() == 0x0C
    usizes = [r.num() for _ in coders]
    assert r.take(2) == b"\x00\x08"
    t = r.byte()
    n = 1
    sizes = []
    if t == 0x0D:
        n = r.num()
        t = r.byte()
    if t == 0x09:
        sizes = [r.num() for _ in range(n - 1)]
        t = r.byte()
    sizes.append(usizes[-1] - sum(sizes))
    assert t == 0x0A and r.byte() == 1
    crcs = [struct.unpack("<L", r.take(4))[0] for _ in range(n)]
    # the chain exactly as the header declares it (py7zr lists the coder nearest to the packed stream first)
    names = {b"\x21": lzma.FILTER_LZMA2, b"\x03\x03\x01\x03": lzma.FILTER_X86, b"\x03\x03\x05\x01": lzma.FILTER_ARM}
    filters = []
    for mid, props in reversed(coders):
        if mid == b"\x21":
            bits = props[0]
            filters.append({"id": lzma.FILTER_LZMA2, "dict_size": (2 | (bits & 1)) << (bits // 2 + 11)})
        else:
            # a branch filter coder: its record carries no properties, so it starts at offset 0
            assert props is None, "unexpected coder properties"
            filters.append({"id": names[mid]})
    packed = raw[32 + packpos : 32 + packpos + packsize]
    data = lzma.LZMADecompressor(lzma.FORMAT_RAW, filters=filters).decompress(packed)
    out, o = [], 0
    for s, c in zip(sizes, crcs):
        out.append((data[o : o + s], c))
        o += s
    return out


def main():
    assert py7zr.__file__.startswith(os.getcwd()), py7zr.__file__
    payload = b"\xe8\x01\x02\x03\x00\x90\x55\x8b\xec" * 2000  # x86 CALLs with convertible displacements
    problems = []
    for label, fid in (("FILTER_X86", py7zr.FILTER_X86), ("FILTER_ARM", py7zr.FILTER_ARM)):
        data = payload if fid == py7zr.FILTER_X86 else b"\x01\x02\x03\xeb" * 4000  # ARM BL instructions
        filters = [{"id": fid, "start_offset": 4096}, {"id": py7zr.FILTER_LZMA2, "preset": 1}]
        bio = io.BytesIO()
        try:
            with py7zr.SevenZipFile(bio, "w", filters=filters) as z:
                z.set_encoded_header_mode(False)
                z.writestr(data, "prog.bin")
        except (ValueError, py7zr.UnsupportedCompressionMethodError) as e:
            print(f"{label}: the option is refused loudly ({type(e).__name__}: {e}) - fine")
            continue
        members = independent_read(bio.getvalue())
        got, declared = members[0]
        if got != data or zlib.crc32(got) != declared:
            problems.append(
                f"{label}+start_offset: independent reader decodes {len(got)} bytes with CRC {zlib.crc32(got):08x}, "
                f"header declares CRC {declared:08x}; content equals the source: {got == data}"
            )
        bio.seek(0)
        with py7zr.SevenZipFile(bio, "r") as z:
            bad = z.testzip()
        if bad is not None:
            problems.append(f"{label}+start_offset: py7zr's own testzip() reports member {bad!r} of the archive it just wrote as bad")
    if problems:
        print("FAIL: the archive written with a BCJ 'start_offset' cannot be read back by anyone:")
        for p in problems:
            print("  -", p)
        return 1
    print("PASS")
    return 0


if __name__ == "__main__":
    sys.exit(main())
