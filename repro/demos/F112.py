"""C01: a multi-volume target with small volumes cannot take a member of a few dozen kilobytes.

SevenZipFile writes each compressed block (up to the 1 MiB I/O block) to the caller's stream with ONE write() call.
multivolumefile.MultiVolume.write() recurses once per volume the block crosses, so a block that spans about a
thousand volumes ends in RecursionError.  With 64-byte volumes (the smallest the property allows) that is any member
of about 62 KB of poorly compressible data under Copy/ZStandard/...; with 1 KiB volumes any member around 1 MB.
The command line front end got a wrapper for this ('c -v SIZE'); the library path did not.
"""
import os
import random
import shutil
import sys
import tempfile

sys.path.insert(0, os.getcwd())

import multivolumefile  # noqa: E402

import py7zr  # noqa: E402
from py7zr.io import BytesIOFactory  # noqa: E402


def roundtrip(tmp, volume, size, filters):
    base = os.path.join(tmp, "v%d_%d.7z" % (volume, size))
    data = random.Random(size).randbytes(size)
    with multivolumefile.open(base, "wb", volume=volume) as mv:
        with py7zr.SevenZipFile(mv, "w", filters=filters) as z:
            z.writestr(data, "dir/member.bin")
    with multivolumefile.open(base, "rb") as mv:
        with py7zr.SevenZipFile(mv, "r") as z:
            assert z.getnames() == ["dir/member.bin"], z.getnames()
            fac = BytesIOFactory(1 << 30)
            z.extractall(factory=fac)
    return fac.products["dir/member.bin"].read() == data


def main():
    tmp = tempfile.mkdtemp(prefix="c01_mv_")
    problems = []
    try:
        cases = [
            (64, 20000, [{"id": py7zr.FILTER_COPY}]),  # control: 313 volumes in one write
            (64, 70000, [{"id": py7zr.FILTER_COPY}]),  # 1094 volumes in one write
            (64, 70000, None),  # control: the default chain hands its output over in smaller pieces here
            (1024, 1200000, [{"id": py7zr.FILTER_ZSTD, "level": 3}]),  # 1 MiB blocks into 1 KiB volumes
        ]
        for volume, size, filters in cases:
            try:
                ok = roundtrip(tmp, volume, size, filters)
                msg = "ok" if ok else "content differs"
            except RecursionError as e:
                ok, msg = False, "RecursionError: %s" % e
            except Exception as e:  # whatever the broken session turns into
                ok, msg = False, "%s: %s" % (type(e).__name__, e)
            print("volume=%d size=%d filters=%r -> %s" % (volume, size, filters, msg))
            if not ok:
                problems.append((volume, size, msg))
    finally:
        shutil.rmtree(tmp, ignore_errors=True)
    if problems:
        print("FAIL: members written to a multi-volume target are not stored/read back: %r" % (problems,))
        return 1
    print("PASS")
    return 0


if __name__ == "__main__":
    sys.exit(main())
