"""C02: SevenZipFile._writeall leaves out the entry of whichever directory happens to be the
process's current directory (`if not path.samefile("."): self.write(path, arcname)`).
The shortcut is meant for writeall("."), but it also fires when the tree is given by absolute
path and/or with an arcname: the directory then has no member of its own, so an empty directory
disappears and mode/mtime of a non-empty one are not reproduced."""
import os
import pathlib
import shutil
import stat
import sys
import tempfile

sys.path.insert(0, os.getcwd())
import py7zr  # noqa: E402

MT = 1234567890.5


def build(src: pathlib.Path) -> None:
    (src / "docs").mkdir(parents=True)
    (src / "docs" / "readme.txt").write_bytes(b"hello\n")
    (src / "spool").mkdir()  # empty directory
    os.chmod(src / "spool", 0o700)
    os.utime(src / "spool", (MT, MT))
    os.chmod(src, 0o750)
    os.utime(src, (MT, MT))


def check(label, src, out_root, problems):
    for rel in (".", "docs", "spool"):
        s = src / rel
        o = out_root / rel
        if not o.is_dir():
            problems.append(f"{label}: directory {rel!r} is missing after extraction")
            continue
        ss, os_ = os.lstat(s), os.lstat(o)
        if stat.S_IMODE(ss.st_mode) != stat.S_IMODE(os_.st_mode):
            problems.append(f"{label}: mode of {rel!r} is {oct(stat.S_IMODE(os_.st_mode))}, source has {oct(stat.S_IMODE(ss.st_mode))}")
        if abs(ss.st_mtime - os_.st_mtime) > 5e-6:
            problems.append(f"{label}: mtime of {rel!r} is {os_.st_mtime}, source has {ss.st_mtime}")


def main() -> int:
    work = pathlib.Path(tempfile.mkdtemp(prefix="hc02_3_"))
    cwd = os.getcwd()
    problems = []
    try:
        src = work / "src"
        build(src)

        # control: same call from an unrelated current directory reproduces the tree
        os.chdir(work)
        with py7zr.SevenZipFile(work / "c.7z", "w") as z:
            z.writeall(src, arcname="pkg")
        with py7zr.SevenZipFile(work / "c.7z", "r") as z:
            z.extractall(work / "out_c")
        control = []
        check("control", src, work / "out_c" / "pkg", control)
        if control:
            problems += control

        # case A: current directory is the tree root, tree stored under an arcname
        os.chdir(src)
        with py7zr.SevenZipFile(work / "a.7z", "w") as z:
            z.writeall(src, arcname="pkg")
        os.chdir(work)
        with py7zr.SevenZipFile(work / "a.7z", "r") as z:
            names_a = z.getnames()
            z.extractall(work / "out_a")
        if "pkg" not in names_a:
            problems.append(f"cwd=root: archive has no member for the root 'pkg': {names_a}")
        check("cwd=root", src, work / "out_a" / "pkg", problems)

        # case B: current directory is an (empty) directory inside the tree
        os.chdir(src / "spool")
        with py7zr.SevenZipFile(work / "b.7z", "w") as z:
            z.writeall(src, arcname="pkg")
        os.chdir(work)
        with py7zr.SevenZipFile(work / "b.7z", "r") as z:
            names_b = z.getnames()
            z.extractall(work / "out_b")
        if "pkg/spool" not in names_b:
            problems.append(f"cwd=spool: archive has no member 'pkg/spool': {names_b}")
        check("cwd=spool", src, work / "out_b" / "pkg", problems)
    finally:
        os.chdir(cwd)
        shutil.rmtree(work, ignore_errors=True)
    if problems:
        print("FAIL: the directory that is the current directory while archiving is not stored")
        for p in problems:
            print("  " + p)
        return 1
    print("PASS")
    return 0


if __name__ == "__main__":
    sys.exit(main())
