#!/usr/bin/env python
"""C05 demo 7: PPMd coder properties are handed to pyppmd unchecked.  With mem = 0xFFFFFFFF (or 0xFFFFFFDB, the
largest value 7-Zip itself accepts) the decoder tries to allocate 4 GiB for a 111-byte archive; in a process
whose address space is limited (RLIMIT_AS, container, 32-bit) the failed allocation makes the C extension
abort the interpreter ("double free or corruption", SIGABRT) instead of raising an exception.

Run as:  cd <worktree> && python demo.py
"""
import os
import resource
import struct
import subprocess
import sys
import tempfile
import zlib

sys.path.insert(0, os.getcwd())

MAGIC = b"7z\xbc\xaf\x27\x1c"
AS_LIMIT = 3 << 30  # sandbox: 3 GiB of address space, far more than a 111-byte archive can justify
WATCHDOG = 30


def u64(v):
    if v < 0x80:
        return bytes([v])
    for n in range(1, 8):
        if v < (1 << (8 * n + (7 - n))):
            return bytes([((0xFF << (8 - n)) & 0xFF) | (v >> (8 * n))]) + (v & ((1 << (8 * n)) - 1)).to_bytes(n, "little")
    return b"\xff" + v.to_bytes(8, "little")


def crc(b):
    return zlib.crc32(b) & 0xFFFFFFFF


def archive(order, mem, packed, unpack_size):
    props = struct.pack("<BL", order, mem)
    coder = b"\x23\x03\x04\x01" + u64(len(props)) + props
    pi = b"\x06\x00\x01\x09" + u64(len(packed)) + b"\x00"
    ui = b"\x07\x0b\x01\x00" + b"\x01" + coder + b"\x0c" + u64(unpack_size) + b"\x00"
    name = b"\x00" + "a".encode("utf-16le") + b"\x00\x00"
    hdr = b"\x01\x04" + pi + ui + b"\x00" + b"\x05\x01\x11" + u64(len(name)) + name + b"\x00" + b"\x00"
    start = struct.pack("<QQL", len(packed), len(hdr), crc(hdr))
    return MAGIC + b"\x00\x04" + struct.pack("<L", crc(start)) + start + packed + hdr


CHILD = r"""
import sys, os
sys.path.insert(0, os.getcwd())
import py7zr
try:
    with py7zr.SevenZipFile(sys.argv[1], "r") as z:
        print("testzip() returned", z.testzip())
except Exception as e:
    print("raised", type(e).__name__, str(e)[:80])
"""


def run(data):
    fd, path = tempfile.mkstemp(suffix=".7z")
    os.write(fd, data)
    os.close(fd)
    try:
        r = subprocess.run(
            [sys.executable, "-c", CHILD, path],
            capture_output=True,
            text=True,
            timeout=WATCHDOG,
            preexec_fn=lambda: resource.setrlimit(resource.RLIMIT_AS, (AS_LIMIT, AS_LIMIT)),
        )
        return r.returncode, r.stdout.strip(), r.stderr.strip()[-160:]
    except subprocess.TimeoutExpired:
        return None, "", "NO ANSWER within %d s" % WATCHDOG
    finally:
        os.unlink(path)


def main():
    import py7zr
    import pyppmd

    print("py7zr from", py7zr.__file__)
    payload = b"hello world, " * 20
    enc = pyppmd.Ppmd7Encoder(6, 1 << 24)
    packed = enc.encode(payload) + enc.flush()
    rc, out, err = run(archive(6, 1 << 24, packed, len(payload)))
    print("mem = 16 MiB: exit status %r, %s %s" % (rc, out, err))
    if rc != 0 or "returned None" not in out:
        print("FAIL: reference archive is not accepted, demo is not meaningful")
        return 1
    problems = []
    for mem in (0xFFFFFFDB, 0xFFFFFFFF):
        data = archive(6, mem, packed, len(payload))
        rc, out, err = run(data)
        print("mem = %#x (%d bytes): exit status %r, %s %s" % (mem, len(data), rc, out, err))
        if rc != 0:
            problems.append("mem=%#x: interpreter terminated with exit status %r (%s)" % (mem, rc, err))
    if problems:
        print("FAIL: an archive of about a hundred bytes kills the interpreter: " + "; ".join(problems))
        return 1
    print("PASS: absurd PPMd parameters are refused with an ordinary exception")
    return 0


if __name__ == "__main__":
    sys.exit(main())
