"""C10: a directory entry is listed (and extracted) as a regular file when its attribute word
lacks the Windows DIRECTORY bit.

In the 7z format a member is a directory exactly when it is in the EmptyStream vector and not in
the EmptyFile vector; the attribute word is optional metadata.  py7zr applies that rule only
when the member has no attribute word at all.  A reference-written archive whose directory entry
carries e.g. only the unix extension (0x8000 | S_IFDIR|0755 << 16) or attribute 0 is described
as is_directory=False, size 0 - although the very same archive contains a separate *empty file*
entry (EmptyFile bit set) next to it, so the listing cannot tell the two apart, and the stored
S_IFDIR type is ignored.  Extraction then creates a regular file where the archive has a directory.
"""
import io
import os
import stat
import struct
import sys
import tempfile
import zlib

import py7zr


def u64(v):
    assert v < 0x80
    return bytes([v])


def bits(v):
    out = bytearray((len(v) + 7) // 8)
    for i, b in enumerate(v):
        if b:
            out[i // 8] |= 0x80 >> (i % 8)
    return bytes(out)


def build(members):
    """members: (name, kind, data, attr or None); kind in file/dir/emptyfile. One COPY folder per file."""
    datas = [d for n, k, d, a in members if k == "file"]
    packed = b"".join(datas)
    h = b"\x01"
    if datas:
        h += b"\x04"
        h += b"\x06" + u64(0) + u64(len(datas)) + b"\x09" + b"".join(u64(len(d)) for d in datas) + b"\x00"
        h += b"\x07\x0b" + u64(len(datas)) + b"\x00" + b"".join(b"\x01\x01\x00" for _ in datas)
        h += b"\x0c" + b"".join(u64(len(d)) for d in datas) + b"\x00"
        h += b"\x08\x0a\x01" + b"".join(struct.pack("<L", zlib.crc32(d)) for d in datas) + b"\x00"
        h += b"\x00"
    h += b"\x05" + u64(len(members))
    es = [k != "file" for n, k, d, a in members]
    if any(es):
        b = bits(es)
        h += b"\x0e" + u64(len(b)) + b
        ef = [k == "emptyfile" for n, k, d, a in members if k != "file"]
        if any(ef):
            b = bits(ef)
            h += b"\x0f" + u64(len(b)) + b
    nb = b"\x00" + b"".join(n.encode("utf-16-le") + b"\x00\x00" for n, k, d, a in members)
    h += b"\x11" + u64(len(nb)) + nb
    defined = [a is not None for n, k, d, a in members]
    if any(defined):
        ab = (b"\x01" if all(defined) else b"\x00" + bits(defined)) + b"\x00"
        ab += b"".join(struct.pack("<L", a) for n, k, d, a in members if a is not None)
        h += b"\x15" + u64(len(ab)) + ab
    h += b"\x00\x00"
    start = struct.pack("<QQL", len(packed), len(h), zlib.crc32(h))
    return b"7z\xbc\xaf\x27\x1c\x00\x04" + struct.pack("<L", zlib.crc32(start)) + start + packed + h


UNIX_EXT = 0x8000


def main():
    problems = []
    variants = {
        "unix extension only (S_IFDIR|0755)": UNIX_EXT | ((stat.S_IFDIR | 0o755) << 16),
        "attribute word 0": 0,
        "ARCHIVE bit only": 0x20,
        "no attribute word (control)": None,
    }
    for label, dir_attr in variants.items():
        members = [
            ("docs", "dir", b"", dir_attr),  # EmptyStream=1, EmptyFile=0  -> directory
            ("empty.txt", "emptyfile", b"", 0x20),  # EmptyStream=1, EmptyFile=1  -> empty file
            ("data.bin", "file", b"payload", 0x20),
        ]
        arc = build(members)
        with py7zr.SevenZipFile(io.BytesIO(arc), "r") as z:
            flags = {f.filename: f.is_directory for f in z.list()}
            flags2 = {f.filename: f.is_directory for f in z.files}
            with tempfile.TemporaryDirectory() as tmp:
                z.extractall(tmp)
                made_dir = os.path.isdir(os.path.join(tmp, "docs"))
                made_file = os.path.isfile(os.path.join(tmp, "docs"))
        if flags != flags2:
            problems.append(f"{label}: list() and files disagree")
        if flags != {"docs": True, "empty.txt": False, "data.bin": False}:
            problems.append(
                f"{label}: the archive says docs is a directory (EmptyStream set, EmptyFile clear) "
                f"but the listing says is_directory={flags['docs']}"
                f" (extraction made a {'directory' if made_dir else 'regular file' if made_file else 'nothing'})"
            )
        elif not made_dir:
            problems.append(f"{label}: listed as directory but extraction did not create one")
    if problems:
        print("FAIL: directory flag of the listing contradicts the archive")
        for p in problems:
            print("  -", p)
        return 1
    print("PASS")
    return 0


if __name__ == "__main__":
    sys.exit(main())
