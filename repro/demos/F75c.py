"""C16: a name with a lone surrogate (what os.listdir()/os.fsdecode give for a non-UTF-8 file name) stays inside
the root and is accepted by writestr/writef, but it cannot be encoded into the header: close() raises
UnicodeEncodeError and the archive - including every member written before - is lost.  The name is neither
rejected with ValueError leaving the archive unchanged, nor accepted into a listable archive."""
import io
import os
import shutil
import sys
import tempfile

sys.path.insert(0, os.getcwd())  # import the py7zr of the tree we are run from
import py7zr  # noqa: E402

NAMES = ["caf\udce9.txt", "dir/\ud800/x", "\udfff"]
problems = []
scratch = tempfile.mkdtemp(prefix="c16_")
try:
    for i, name in enumerate(NAMES):
        for api in ("writestr", "writef"):
            target = os.path.join(scratch, f"t{i}_{api}.7z")
            z = py7zr.SevenZipFile(target, "w")
            z.writestr(b"keep", "keep.txt")
            verdict = "accepted"
            try:
                if api == "writestr":
                    z.writestr(b"data", name)
                else:
                    z.writef(io.BytesIO(b"data"), name)
            except ValueError:
                verdict = "rejected"
            try:
                z.close()
            except Exception as e:  # noqa
                problems.append(f"{api}({name!r}) {verdict}, then close() raised {type(e).__name__}: {e}")
                try:
                    z.fp.close()
                except Exception:
                    pass
            try:
                with py7zr.SevenZipFile(target, "r") as r:
                    listed = r.getnames()
            except Exception as e:  # noqa
                problems.append(f"{api}({name!r}) {verdict}: the result is not an archive any more ({type(e).__name__}: {e})")
                continue
            # a rejection must leave the archive as it was; an acceptance must yield one more listed member
            # (however the writer chooses to represent the unencodable character)
            ok = listed == ["keep.txt"] if verdict == "rejected" else (len(listed) == 2 and listed[0] == "keep.txt")
            if not ok:
                problems.append(f"{api}({name!r}) {verdict}: archive lists {listed!r}")
finally:
    shutil.rmtree(scratch, ignore_errors=True)

if problems:
    print("FAIL: a name inside the root is neither cleanly rejected nor stored:")
    for p in problems:
        print("  ", p)
    sys.exit(1)
print("PASS")
