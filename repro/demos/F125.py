"""C20: the decoders of finished folders stay alive, their memory adds up over the folders of an archive.

Folder.get_decompressor() caches the SevenZipDecompressor (and with it the LZMA2 decoder and its dictionary) in the folder
object and nothing drops it when the folder has been delivered: it lives until reset()/close().  An archive with several
folders (what 7-Zip writes with -ms=off or for every solid block, and what every append session of py7zr adds) therefore
keeps one dictionary per folder that has been decoded.  Decoding a folder needs one dictionary; here five folders with a
member of 0.5 GB each and a 192 MiB dictionary (7-Zip: -md=192m) end with five dictionaries resident.

The archive is made by a small reference writer; the LZMA2 streams come from the stdlib lzma module.
"""
import lzma
import os
import struct
import subprocess
import sys
import tempfile
import zlib

sys.path.insert(0, os.getcwd())

BUDGET_MIB = 700
FOLDERS = 5
MEMBER = 512 * (1 << 20)
DICT_PROP = 31  # LZMA2 dictionary size code: 3 << 26 = 192 MiB


def num(n):  # 7z variable-length number
    if n < 0x80:
        return bytes([n])
    for extra in range(1, 8):
        if n < (1 << (8 * extra + 7 - extra)):
            mask = (0xFF00 >> extra) & 0xFF
            return bytes([mask | (n >> (8 * extra))]) + (n & ((1 << (8 * extra)) - 1)).to_bytes(extra, "little")
    return b"\xff" + n.to_bytes(8, "little")


def build(path):
    # one packed stream, used for every folder: MEMBER zero bytes
    enc = lzma.LZMACompressor(format=lzma.FORMAT_RAW, filters=[{"id": lzma.FILTER_LZMA2, "preset": 0}])
    block = bytes(1 << 22)
    packed = bytearray()
    crc = 0
    for _ in range(MEMBER // len(block)):
        packed += enc.compress(block)
        crc = zlib.crc32(block, crc)
    packed += enc.flush()
    with open(path, "wb") as fp:
        fp.write(bytes(32))
        for _ in range(FOLDERS):
            fp.write(packed)
        h = b"\x01\x04"
        h += b"\x06" + num(0) + num(FOLDERS) + b"\x09" + num(len(packed)) * FOLDERS + b"\x00"
        folder = b"\x01" + b"\x21\x21\x01" + bytes([DICT_PROP])
        h += b"\x07\x0b" + num(FOLDERS) + b"\x00" + folder * FOLDERS + b"\x0c" + num(MEMBER) * FOLDERS
        h += b"\x0a\x01" + struct.pack("<L", crc) * FOLDERS + b"\x00"
        h += b"\x00"  # no SubStreamsInfo: one member per folder, the folder CRC is the member's
        names = ["member%d.bin" % i for i in range(FOLDERS)]
        nm = b"\x00" + b"".join(n.encode("utf-16-le") + b"\0\0" for n in names)
        h += b"\x05" + num(len(names)) + b"\x11" + num(len(nm)) + nm + b"\x00"
        h += b"\x00"
        fp.write(h)
        start = struct.pack("<QQL", len(packed) * FOLDERS, len(h), zlib.crc32(h))
        fp.seek(0)
        fp.write(b"7z\xbc\xaf\x27\x1c\x00\x04" + struct.pack("<L", zlib.crc32(start)) + start)


CHILD = r"""
import os, sys, resource
sys.path.insert(0, os.getcwd())
import py7zr
from py7zr.io import Py7zIO, WriterFactory
class Sink(Py7zIO):
    def __init__(self): self.n = 0
    def write(self, s): self.n += len(s); return len(s)
    def read(self, size=None): return b""
    def seek(self, offset, whence=0): return 0
    def flush(self): pass
    def size(self): return self.n
class Factory(WriterFactory):
    def __init__(self): self.made = {}
    def create(self, filename):
        self.made[filename] = Sink(); return self.made[filename]
def peak(): return resource.getrusage(resource.RUSAGE_SELF).ru_maxrss / 1024
base = peak()
fac = Factory()
# the archive is handed in as an open file: the folders are decoded one after the other
with open(sys.argv[1], "rb") as fp, py7zr.SevenZipFile(fp) as z:
    if sys.argv[2] == "factory":
        z.extractall(factory=fac)
        got = sum(s.n for s in fac.made.values())
    else:
        got = -1 if z.testzip() is not None else 0
print(got, int(peak() - base))
"""


def main():
    import py7zr

    assert os.path.dirname(py7zr.__file__).startswith(os.getcwd()), py7zr.__file__
    with tempfile.TemporaryDirectory() as tmp:
        arc = os.path.join(tmp, "folders.7z")
        build(arc)
        print(f"archive of {os.path.getsize(arc) >> 10} KiB: {FOLDERS} folders, each one member of {MEMBER >> 20} MiB, LZMA2 with a 192 MiB dictionary")
        bad = False
        for mode, expect in (("factory", FOLDERS * MEMBER),):  # ("testzip", 0) shows the same figure
            out = subprocess.run([sys.executable, "-c", CHILD, arc, mode], capture_output=True, text=True, cwd=os.getcwd())
            if out.returncode != 0:
                print("FAIL:", mode, "failed:", out.stderr.strip().splitlines()[-1:])
                return 1
            got, above = map(int, out.stdout.split())
            if got != expect:
                print(f"FAIL: {mode}: result {got}, expected {expect}")
                return 1
            print(f"{mode}: peak memory {above} MiB above the baseline (budget {BUDGET_MIB} MiB)")
            bad = bad or above > BUDGET_MIB
        if bad:
            print("FAIL: one dictionary per decoded folder stays resident (a single folder needs 192 MiB plus the working chunks)")
            return 1
        print("PASS")
        return 0


if __name__ == "__main__":
    sys.exit(main())
