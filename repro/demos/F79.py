"""C12 (verdict of testzip): a damaged member passes testzip() and extractall() when only the folder CRC protects it
and the last packed bytes of the folder are not needed to produce the output.

Worker.decompress() verifies the folder CRC only `if fp.tell() >= src_end and decompressor.is_finished()`.
The decoder reads the packed stream in blocks of 1 MiB and only when output is requested.  Layout built here
(by a small reference writer, legal 7z): one LZMA2 folder whose packed stream is exactly 1 MiB of chunks followed by
the LZMA2 end marker (1 byte), two substreams (big.bin with all the data, tail.bin a stream of 0 bytes), folder CRC
defined, substream digests not defined.  All output is produced from the first block, the end marker is never read,
fp.tell() stays 1 byte short of src_end and the folder CRC is never compared: testzip() -> None for damaged data.
Control: the same packed data split into two non-empty substreams is detected.
"""
import io
import os
import random
import struct
import sys
import zlib

sys.path.insert(0, os.getcwd())
import py7zr  # noqa: E402


def num(v):
    for n in range(0, 8):
        if v < (1 << (7 * (n + 1))):
            first = ((0xFF << (8 - n)) & 0xFF) | (v >> (8 * n))
            return bytes([first]) + (v & ((1 << (8 * n)) - 1)).to_bytes(n, "little")
    return b"\xff" + v.to_bytes(8, "little")


def build(packed, raw, sizes, names):
    """one LZMA2 folder, len(sizes) substreams, folder CRC defined, no substream digests"""
    h = b"\x01\x04"
    h += b"\x06" + num(0) + num(1) + b"\x09" + num(len(packed)) + b"\x00"  # PackInfo
    h += b"\x07\x0b" + num(1) + b"\x00" + b"\x01" + b"\x21\x21\x01\x14"  # one folder, one coder: LZMA2, dict prop
    h += b"\x0c" + num(len(raw)) + b"\x0a\x01" + struct.pack("<L", zlib.crc32(raw)) + b"\x00"  # sizes, folder CRC
    h += b"\x08\x0d" + num(len(sizes)) + b"\x09" + b"".join(num(s) for s in sizes[:-1]) + b"\x00"  # SubStreamsInfo
    h += b"\x00"
    h += b"\x05" + num(len(names))
    nm = b"".join(n.encode("utf-16-le") + b"\x00\x00" for n in names)
    h += b"\x11" + num(len(nm) + 1) + b"\x00" + nm
    h += b"\x00\x00"
    start = struct.pack("<QQL", len(packed), len(h), zlib.crc32(h))
    return b"7z\xbc\xaf\x27\x1c\x00\x04" + struct.pack("<L", zlib.crc32(start)) + start + packed + h


def verdict(data):
    with py7zr.SevenZipFile(io.BytesIO(data)) as z:
        try:
            return z.testzip()
        except Exception as e:
            return "raised " + type(e).__name__


def main():
    raw = random.Random(7).randbytes(16 * 65533)
    packed = bytearray()
    for i in range(16):  # LZMA2 uncompressed chunks: 3 bytes of chunk header + 65533 bytes = 65536
        chunk = raw[i * 65533 : (i + 1) * 65533]
        packed += bytes([0x01 if i == 0 else 0x02]) + struct.pack(">H", len(chunk) - 1) + chunk
    assert len(packed) == 1 << 20
    packed += b"\x00"  # end marker, first byte of the second block
    bad = bytearray(packed)
    bad[3 + 500] ^= 0x01  # one damaged data byte in big.bin
    results = {}
    for tag, sizes in (("zero-size last stream", [len(raw), 0]), ("control: two non-empty streams", [1000000, len(raw) - 1000000])):
        good = verdict(build(bytes(packed), raw, sizes, ["big.bin", "tail.bin"]))
        dmg = verdict(build(bytes(bad), raw, sizes, ["big.bin", "tail.bin"]))
        results[tag] = (good, dmg)
        print("%-32s intact -> %r ; damaged -> %r" % (tag, good, dmg))
    good, dmg = results["zero-size last stream"]
    if good is None and dmg is None:
        print("FAIL: testzip() returns None for an archive with a damaged byte: the folder CRC is never compared "
              "because the last packed byte (LZMA2 end marker) is not read")
        return 1
    print("PASS")
    return 0


if __name__ == "__main__":
    sys.exit(main())
