"""C08: the kEmptyFile vector of the base archive is not re-emitted by an append session.  In the 7z format an
empty-stream entry without the kEmptyFile bit is a directory, so every zero-length *file* that was in the
archive before the append is a directory afterwards for every conforming reader (7-Zip, p7zip, libarchive).
The check is made with a small independent header parser."""
import io
import lzma
import os
import shutil
import struct
import sys
import tempfile
import zlib

sys.path.insert(0, os.getcwd())
import py7zr  # noqa: E402


def crc(b):
    return zlib.crc32(b) & 0xFFFFFFFF


def bits(v):
    out = bytearray((len(v) + 7) // 8)
    for i, x in enumerate(v):
        if x:
            out[i // 8] |= 0x80 >> (i % 8)
    return bytes(out)


# ---------------------------------------------------------------- reference writer (Copy coder, one solid folder)
def build(entries):
    """entries: list of (name, kind, data) with kind in 'data' | 'emptyfile' | 'dir'."""
    n = len(entries)
    datas = [d for _, k, d in entries if k == "data"]
    body = b"".join(datas)
    h = io.BytesIO()
    h.write(b"\x01\x04")
    h.write(b"\x06\x00\x01\x09" + bytes([len(body)]) + b"\x00")
    h.write(b"\x07\x0b\x01\x00\x01\x01\x00\x0c" + bytes([len(body)]) + b"\x00")
    h.write(b"\x08\x0d" + bytes([len(datas)]) + b"\x09" + bytes(len(d) for d in datas[:-1]))
    h.write(b"\x0a\x01" + b"".join(struct.pack("<L", crc(d)) for d in datas) + b"\x00\x00")
    h.write(b"\x05" + bytes([n]))
    es = bits([k != "data" for _, k, _ in entries])
    h.write(b"\x0e" + bytes([len(es)]) + es)
    ef = bits([k == "emptyfile" for _, k, _ in entries if k != "data"])
    h.write(b"\x0f" + bytes([len(ef)]) + ef)
    nb = b"".join(x.encode("utf-16-le") + b"\x00\x00" for x, _, _ in entries)
    h.write(b"\x11" + bytes([len(nb) + 1]) + b"\x00" + nb)
    at = b"\x01\x00" + b"".join(struct.pack("<L", 0x10 if k == "dir" else 0x20) for _, k, _ in entries)
    h.write(b"\x15" + bytes([len(at)]) + at)
    h.write(b"\x00\x00")
    hdr = h.getvalue()
    start = struct.pack("<QQL", len(body), len(hdr), crc(hdr))
    return b"7z\xbc\xaf\x27\x1c\x00\x04" + struct.pack("<L", crc(start)) + start + body + hdr


# ---------------------------------------------------------------- reference reader (header only)
def rd_u64(b):
    first = b.read(1)[0]
    mask, n = 0x80, 0
    while n < 8 and first & mask:
        n += 1
        mask >>= 1
    if n == 8:
        return int.from_bytes(b.read(8), "little")
    return int.from_bytes(b.read(n), "little") + ((first & (mask - 1)) << (8 * n))


def rd_bits(b, n):
    data = b.read((n + 7) // 8)
    return [bool(data[i // 8] & (0x80 >> (i % 8))) for i in range(n)]


def rd_defined(b, n):
    return [True] * n if b.read(1)[0] else rd_bits(b, n)


def streams_info(b):
    """Parse (and skip) a StreamsInfo; returns (packpos, packsizes, folders[(method, props, unpacksize)])."""
    packpos, packsizes, folders = 0, [], []
    pid = b.read(1)
    if pid == b"\x06":
        packpos = rd_u64(b)
        n = rd_u64(b)
        pid = b.read(1)
        if pid == b"\x09":
            packsizes = [rd_u64(b) for _ in range(n)]
            pid = b.read(1)
        if pid == b"\x0a":
            b.read(4 * sum(rd_defined(b, n)))
            pid = b.read(1)
        assert pid == b"\x00"
        pid = b.read(1)
    if pid == b"\x07":
        assert b.read(1) == b"\x0b"
        nf = rd_u64(b)
        assert b.read(1) == b"\x00"
        nouts = []
        for _ in range(nf):
            nc = rd_u64(b)
            nout = 0
            first = None
            for _ in range(nc):
                fb = b.read(1)[0]
                mid = b.read(fb & 0xF)
                ni = no = 1
                if fb & 0x10:
                    ni, no = rd_u64(b), rd_u64(b)
                props = b.read(rd_u64(b)) if fb & 0x20 else None
                nout += no
                first = first or (mid, props)
            for _ in range(nout - 1):
                rd_u64(b), rd_u64(b)
            nouts.append(nout)
            folders.append([first[0], first[1], None])
        assert b.read(1) == b"\x0c"
        for f, no in zip(folders, nouts):
            sizes = [rd_u64(b) for _ in range(no)]
            f[2] = sizes[-1]
        pid = b.read(1)
        fdef = [False] * nf
        if pid == b"\x0a":
            fdef = rd_defined(b, nf)
            b.read(4 * sum(fdef))
            pid = b.read(1)
        assert pid == b"\x00"
        pid = b.read(1)
        if pid == b"\x08":
            nsub = [1] * nf
            pid = b.read(1)
            if pid == b"\x0d":
                nsub = [rd_u64(b) for _ in range(nf)]
                pid = b.read(1)
            if pid == b"\x09":
                for k in nsub:
                    for _ in range(max(k - 1, 0)):
                        rd_u64(b)
                pid = b.read(1)
            if pid == b"\x0a":
                need = sum(k for k, d in zip(nsub, fdef) if not (k == 1 and d))
                b.read(4 * sum(rd_defined(b, need)))
                pid = b.read(1)
            assert pid == b"\x00"
            pid = b.read(1)
    assert pid == b"\x00", pid
    return packpos, packsizes, folders


def ref_entries(raw):
    """[(name, 'data' | 'emptyfile' | 'dir')] as a conforming reader classifies the entries."""
    assert raw[:6] == b"7z\xbc\xaf\x27\x1c" and crc(raw[12:32]) == struct.unpack("<L", raw[8:12])[0]
    ofs, size, hcrc = struct.unpack("<QQL", raw[12:32])
    hdr = raw[32 + ofs : 32 + ofs + size]
    assert crc(hdr) == hcrc
    b = io.BytesIO(hdr)
    pid = b.read(1)
    if pid == b"\x17":  # encoded header
        packpos, packsizes, folders = streams_info(b)
        mid, props, unp = folders[0]
        if mid == b"\x21":  # LZMA2, what py7zr writes
            p = props[0]
            flt = {"id": lzma.FILTER_LZMA2, "dict_size": 0xFFFFFFFF if p == 40 else (2 | (p & 1)) << (p // 2 + 11)}
        else:  # LZMA1, what 7-Zip writes
            assert mid == b"\x03\x01\x01", mid
            lc, r = props[0] % 9, props[0] // 9
            flt = {"id": lzma.FILTER_LZMA1, "dict_size": struct.unpack("<L", props[1:5])[0], "lc": lc, "lp": r % 5, "pb": r // 5}
        dec = lzma.LZMADecompressor(lzma.FORMAT_RAW, filters=[flt])
        b = io.BytesIO(dec.decompress(raw[32 + packpos : 32 + packpos + packsizes[0]], unp))
        pid = b.read(1)
    assert pid == b"\x01"
    pid = b.read(1)
    if pid == b"\x04":
        streams_info(b)
        pid = b.read(1)
    assert pid == b"\x05"
    n = rd_u64(b)
    names, es, ef = [None] * n, [False] * n, []
    while True:
        pid = b.read(1)
        if pid == b"\x00":
            break
        p = io.BytesIO(b.read(rd_u64(b)))
        if pid == b"\x0e":
            es = rd_bits(p, n)
        elif pid == b"\x0f":
            ef = rd_bits(p, sum(es))
        elif pid == b"\x11":
            assert p.read(1) == b"\x00"
            names = p.read().decode("utf-16-le").split("\x00")[:n]
    ef = iter(ef + [False] * n)
    return [(nm, "data" if not e else ("emptyfile" if next(ef) else "dir")) for nm, e in zip(names, es)]


def main():
    print("py7zr from", py7zr.__file__)
    entries = [
        ("pkg", "dir", None),
        ("pkg/__init__.py", "emptyfile", None),
        ("pkg/mod.py", "data", b"print('hello')\n"),
        ("pkg/py.typed", "emptyfile", None),
        ("pkg/data", "dir", None),
        ("README", "data", b"read me"),
    ]
    expected = [(n, k) for n, k, _ in entries]
    problems = []
    td = tempfile.mkdtemp()
    try:
        for encoded in (False, True):
            path = os.path.join(td, "base.7z")
            with open(path, "wb") as f:
                f.write(build(entries))
            with open(path, "rb") as f:
                assert ref_entries(f.read()) == expected
            with py7zr.SevenZipFile(path, "r") as z:  # py7zr reads the base archive fine
                assert z.getnames() == [e[0] for e in entries]
            with py7zr.SevenZipFile(path, "a") as z:
                z.set_encoded_header_mode(encoded)
                z.writestr(b"appended", "NEWS")
            with open(path, "rb") as f:
                after = ref_entries(f.read())
            if after[: len(expected)] != expected:
                changed = [(b, a) for b, a in zip(expected, after) if a != b]
                problems.append(f"header encoded={encoded}: entries changed kind: " + "; ".join(f"{b[0]}: {b[1]} -> {a[1]}" for b, a in changed))
    finally:
        shutil.rmtree(td, ignore_errors=True)
    if problems:
        print("FAIL: empty files of the base archive have become directories after an append (kEmptyFile vector dropped)")
        for p in problems:
            print("   -", p)
        return 1
    print("PASS")
    return 0


if __name__ == "__main__":
    sys.exit(main())
