"""C19: 'py7zr c -v SIZE' with a volume size below 32 bytes exits 0 but writes a volume set that 'py7zr l' (and the
library through multivolumefile) cannot open: the 32-byte signature header then crosses a volume boundary and is still
fetched with single read() calls, each of which comes back short at the end of a volume."""
import os
import shutil
import subprocess
import sys
import tempfile

ROOT = os.getcwd()  # the worktree: `cd /tmp/rt/HD19 && python demo.py`
sys.path.insert(0, ROOT)
ENV = dict(os.environ, PYTHONPATH=ROOT)


def cli(*args, cwd):
    r = subprocess.run([sys.executable, "-m", "py7zr", *args], cwd=cwd, env=ENV, capture_output=True, text=True)
    return r.returncode, r.stdout, r.stderr


def main():
    work = tempfile.mkdtemp(prefix="hd19_1_")
    problems = []
    try:
        os.makedirs(os.path.join(work, "tree", "sub"))
        with open(os.path.join(work, "tree", "a.txt"), "w") as f:
            f.write("hello\n" * 20)
        with open(os.path.join(work, "tree", "sub", "b.bin"), "wb") as f:
            f.write(os.urandom(300))
        expected = {"tree", "tree/a.txt", "tree/sub", "tree/sub/b.bin"}
        for size in ["64", "32", "31", "16b", "10", "5"]:
            d = os.path.join(work, "v" + size)
            os.mkdir(d)
            rc_c, out, err = cli("c", "-v", size, os.path.join(d, "out"), "tree", cwd=work)
            nvol = len(os.listdir(d))
            rc_l, out_l, err_l = cli("l", os.path.join(d, "out.7z.0001"), cwd=work)
            listed = {line[53:].strip() for line in out_l.splitlines() if line[20:25] in ("....A", ".....", "D....")}
            last = (err_l.strip().splitlines() or out_l.strip().splitlines() or [""])[-1]
            print(f"-v {size:>3}: c exit {rc_c}, {nvol} volumes; l exit {rc_l}" + ("" if rc_l == 0 else f"  [{last}]"))
            if rc_c == 0 and not (rc_l == 0 and listed == expected):
                # creation claimed success, yet the result cannot be listed
                problems.append(size)
            elif rc_c != 0:
                # the size being refused: the truth at least, but not "every volume size the help describes"
                problems.append(size + " (refused)")
    finally:
        shutil.rmtree(work, ignore_errors=True)
    if problems:
        print("FAIL: 'c -v SIZE' exited 0 for SIZE in %s but the volumes it wrote cannot be listed with 'l'" % problems)
        return 1
    print("PASS: every volume size gave a volume set that lists its members")
    return 0


if __name__ == "__main__":
    sys.exit(main())
