"""C12: a read-mode session can overwrite the archive: writestr()/write()/writef() do not look at the mode.

SevenZipFile(stream, "r") on a stream that happens to be writable (a file opened "r+b", a BytesIO) accepts
writestr(): the member is appended to the session's file list (getnames() changes) and the compressed data are
written into the stream at the current position, i.e. over the packed streams / the header of the archive.
The call returns normally, close() returns normally, and the archive file is destroyed.
(For an archive opened by path the file object is opened "rb", the write fails and nothing changes: part 2 is a control.)
"""
import hashlib
import os
import shutil
import sys
import tempfile

sys.path.insert(0, os.getcwd())
import py7zr  # noqa: E402


def sha(p):
    with open(p, "rb") as f:
        return hashlib.sha256(f.read()).hexdigest()


def main():
    tmp = tempfile.mkdtemp(prefix="c12w")
    problems = []
    try:
        arc = os.path.join(tmp, "a.7z")
        with py7zr.SevenZipFile(arc, "w") as z:
            z.writestr(b"hello" * 1000, "a.txt")
            z.writestr(b"world" * 1000, "b.txt")
        before = sha(arc)
        size_before = os.path.getsize(arc)

        # 1. read session on a stream that is writable
        with open(arc, "r+b") as stream:
            z = py7zr.SevenZipFile(stream, "r")
            names0 = z.getnames()
            try:
                z.writestr(os.urandom(3 << 20), "new.bin")
                outcome = "returned normally"
            except Exception as e:
                outcome = "raised " + type(e).__name__
            names1 = z.getnames()
            try:
                z.close()
            except Exception as e:
                outcome += "; close raised " + type(e).__name__
        after = sha(arc)
        print("stream session: writestr()", outcome, "; getnames", names0, "->", names1)
        print("archive size %d -> %d, sha256 %s" % (size_before, os.path.getsize(arc), "unchanged" if before == after else "CHANGED"))
        if before != after:
            try:
                with py7zr.SevenZipFile(arc) as z2:
                    state = "reopens, testzip=%r" % (z2.testzip(),)
            except Exception as e:
                state = "cannot be opened any more (%s: %s)" % (type(e).__name__, e)
            problems.append("a mode 'r' session changed the archive file; it " + state)
        if names0 != names1:
            problems.append("getnames() of a read session changed from %r to %r" % (names0, names1))

        # 2. read session opened by path
        arc2 = os.path.join(tmp, "b.7z")
        with py7zr.SevenZipFile(arc2, "w") as z:
            z.writestr(b"hello" * 1000, "a.txt")
        with py7zr.SevenZipFile(arc2, "r") as z:
            n0 = z.getnames()
            try:
                z.writestr(b"tiny", "new.txt")
                outcome = "returned normally"
            except Exception as e:
                outcome = "raised " + type(e).__name__
            n1 = z.getnames()
        print("path session: writestr()", outcome, "; getnames", n0, "->", n1)
        if n0 != n1:
            problems.append("path session: getnames() changed from %r to %r after writestr() in mode 'r'" % (n0, n1))
    finally:
        shutil.rmtree(tmp, ignore_errors=True)
    if problems:
        for p in problems:
            print("FAIL:", p)
        return 1
    print("PASS")
    return 0


if __name__ == "__main__":
    sys.exit(main())
