"""C14: a crash while APPENDING to an archive whose packed (encoded) header carries no unpack digest
leaves images that py7zr opens without any error as an EMPTY archive (neither the old nor the new member list).

The archive is built byte by byte by a small reference writer (legal 7z layout: two stored members, header
packed with LZMA2, the optional CRC of the header folder is absent).  The append session is an ordinary
py7zr one (mode 'a', default filters, one writestr).  All seek/write operations on the archive file are
recorded and every byte prefix of that stream is replayed and opened.
"""
import hashlib
import io
import lzma
import struct
import sys
import zlib

import py7zr

MAGIC = b"7z\xbc\xaf\x27\x1c"


def crc(b):
    return zlib.crc32(b) & 0xFFFFFFFF


def num(n):
    assert n < 0x80
    return bytes([n])


def sig(ofs, size, hcrc):
    body = struct.pack("<QQL", ofs, size, hcrc)
    return MAGIC + b"\x00\x04" + struct.pack("<L", crc(body)) + body


def build_archive(header_digest, coder="lzma2"):
    d1, d2 = b"first member data", b"SECOND!"
    packed = d1 + d2
    # Header: MainStreamsInfo(PackInfo, UnpackInfo[1 folder, COPY], SubStreamsInfo[2 streams + CRCs]) FilesInfo(names)
    ms = b"\x06" + num(0) + num(1) + b"\x09" + num(len(packed)) + b"\x00"
    ms += b"\x07\x0b" + num(1) + b"\x00" + b"\x01\x01\x00" + b"\x0c" + num(len(packed)) + b"\x00"
    ms += b"\x08\x0d" + num(2) + b"\x09" + num(len(d1)) + b"\x0a\x01" + struct.pack("<LL", crc(d1), crc(d2)) + b"\x00"
    ms += b"\x00"
    names = b"\x00" + "a.txt".encode("utf-16le") + b"\x00\x00" + "b.txt".encode("utf-16le") + b"\x00\x00"
    fi = b"\x05" + num(2) + b"\x11" + num(len(names)) + names + b"\x00"
    header = b"\x01\x04" + ms + fi + b"\x00"
    if coder == "lzma2":
        ph = lzma.compress(header, lzma.FORMAT_RAW, filters=[{"id": lzma.FILTER_LZMA2, "dict_size": 1 << 16}])
        coder_rec = b"\x01\x21\x21\x01\x10"
    else:  # header stored with the COPY coder
        ph = header
        coder_rec = b"\x01\x01\x00"
    # EncodedHeader: PackInfo, UnpackInfo[1 folder, LZMA2] (+ optional folder CRC)
    hs = b"\x17" + b"\x06" + num(len(packed)) + num(1) + b"\x09" + num(len(ph)) + b"\x00"
    hs += b"\x07\x0b" + num(1) + b"\x00" + coder_rec + b"\x0c" + num(len(header))
    if header_digest:
        hs += b"\x0a\x01" + struct.pack("<L", crc(header))
    hs += b"\x00" + b"\x00"
    return sig(len(packed) + len(ph), len(hs), crc(hs)) + packed + ph + hs


class Recorder(io.RawIOBase):
    """in-memory archive file that records every write with its offset"""

    def __init__(self, initial):
        self.buf = bytearray(initial)
        self.pos = 0
        self.trace = []

    def readable(self):
        return True

    def writable(self):
        return True

    def seekable(self):
        return True

    def tell(self):
        return self.pos

    def seek(self, off, whence=0):
        p = off if whence == 0 else (self.pos + off if whence == 1 else len(self.buf) + off)
        if p < 0:
            raise OSError(22, "Invalid argument")
        self.pos = p
        return p

    def readinto(self, b):
        data = bytes(self.buf[self.pos : self.pos + len(b)])
        b[: len(data)] = data
        self.pos += len(data)
        return len(data)

    def write(self, b):
        b = bytes(b)
        self.trace.append((self.pos, b))
        self.buf[self.pos : self.pos + len(b)] = b
        self.pos += len(b)
        return len(b)


def members(img):
    """('ok', member list with contents) or ('err', text)"""
    try:
        with py7zr.SevenZipFile(io.BytesIO(img), "r") as z:
            fac = py7zr.io.BytesIOFactory(1 << 20)
            infos = z.list()
            z.extractall(factory=fac)
            out = []
            for f in infos:
                data = None
                for k, v in fac.products.items():
                    if k.endswith(f.filename):
                        v.seek(0)
                        data = hashlib.sha1(v.read()).hexdigest()[:8]
                out.append((f.filename, f.uncompressed, data))
            return ("ok", tuple(out))
    except Exception as e:  # any error is an acceptable outcome for a torn file
        return ("err", type(e).__name__)


def crash_sweep(initial, payload):
    old = members(initial)
    rec = Recorder(initial)
    z = py7zr.SevenZipFile(rec, "a")
    z.writestr(payload, "counters.bin")
    z.close()
    new = members(bytes(rec.buf))
    assert old[0] == "ok" and len(old[1]) == 2, old
    assert new[0] == "ok" and len(new[1]) == 3, new
    bad = []
    img = bytearray(initial)
    total = 0
    for off, data in rec.trace:
        for i in range(len(data)):
            img[off + i : off + i + 1] = data[i : i + 1]
            total += 1
            r = members(bytes(img))
            if r[0] == "ok" and r != old and r != new:
                bad.append((total, r[1]))
    return old, new, bad, total


def main():
    payload = struct.pack("<h", 1) * 40  # 40 little-endian int16 counters, all 1
    _, _, bad_ctl, n_ctl = crash_sweep(build_archive(header_digest=True), payload)
    old, new, bad, n = crash_sweep(build_archive(header_digest=False), payload)
    _, _, bad2, n2 = crash_sweep(build_archive(header_digest=False, coder="copy"), b"appended text 0123456789")
    print(f"LZMA2-packed header without digest: {len(bad)} of {n} crash points accepted with a wrong list")
    print(f"COPY-packed header without digest : {len(bad2)} of {n2} crash points accepted with a wrong list")
    if not bad:
        bad, n = bad2, n2
    print(f"control (header folder has a CRC): {len(bad_ctl)} of {n_ctl} crash points accepted with a wrong list")
    print(f"old list: {[m[0] for m in old[1]]}  new list: {[m[0] for m in new[1]]}")
    if bad or bad_ctl:
        first = (bad or bad_ctl)[0]
        print(
            f"FAIL: {len(bad)} of {n} crash points of the append session leave a file that py7zr opens WITHOUT error "
            f"but with a member list that is neither the old nor the new one; e.g. after {first[0]} written bytes "
            f"the archive lists {list(first[1])} (the two old members are gone)"
        )
        return 1
    print("PASS: every torn image is rejected or shows the old/new member list")
    return 0


if __name__ == "__main__":
    sys.exit(main())
