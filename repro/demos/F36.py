"""C08: appending to an archive that holds only directories / empty files (no MainStreamsInfo in the
header, the layout 7-Zip and p7zip write for such archives) fails and destroys the archive."""
import gc
import io
import os
import shutil
import struct
import sys
import tempfile
import zlib

sys.path.insert(0, os.getcwd())
import py7zr  # noqa: E402


def crc(b):
    return zlib.crc32(b) & 0xFFFFFFFF


def bits(v):
    out = bytearray((len(v) + 7) // 8)
    for i, x in enumerate(v):
        if x:
            out[i // 8] |= 0x80 >> (i % 8)
    return bytes(out)


def build_only_empties(entries):
    """entries: list of (name, is_dir).  Header = kHeader kFilesInfo ... kEnd kEnd (no streams at all)."""
    n = len(entries)
    h = io.BytesIO()
    h.write(b"\x01\x05" + bytes([n]))
    h.write(b"\x0e" + bytes([(n + 7) // 8]) + bits([True] * n))  # kEmptyStream: all
    ef = bits([not d for _, d in entries])
    h.write(b"\x0f" + bytes([len(ef)]) + ef)  # kEmptyFile
    names = b"".join(nm.encode("utf-16-le") + b"\x00\x00" for nm, _ in entries)
    h.write(b"\x11" + bytes([len(names) + 1]) + b"\x00" + names)
    mt = b"\x01\x00" + b"".join(struct.pack("<Q", 132356171357647984 + i) for i in range(n))
    h.write(b"\x14" + bytes([len(mt)]) + mt)
    at = b"\x01\x00" + b"".join(struct.pack("<L", 0x10 if d else 0x20) for _, d in entries)
    h.write(b"\x15" + bytes([len(at)]) + at)
    h.write(b"\x00\x00")
    hdr = h.getvalue()
    start = struct.pack("<QQL", 0, len(hdr), crc(hdr))
    return b"7z\xbc\xaf\x27\x1c\x00\x04" + struct.pack("<L", crc(start)) + start + hdr


def members(path):
    with py7zr.SevenZipFile(path, "r") as z:
        return [(f.filename, f.is_directory, f.emptystream) for f in z.files]


def append(path, what):
    with py7zr.SevenZipFile(path, "a") as z:
        what(z)


def main():
    print("py7zr from", py7zr.__file__)
    entries = [("docs", True), ("docs/empty.txt", False), ("logs", True)]
    problems = []
    td = tempfile.mkdtemp()
    try:
        emptydir = os.path.join(td, "newdir")
        os.mkdir(emptydir)
        scenarios = [
            ("writestr of a data member", lambda z: z.writestr(os.urandom(50000), "new.bin")),
            ("write of one more directory", lambda z: z.write(emptydir, "newdir")),
        ]
        for label, what in scenarios:
            path = os.path.join(td, "base.7z")
            with open(path, "wb") as f:
                f.write(build_only_empties(entries))
            before = members(path)
            assert [m[0] for m in before] == [e[0] for e in entries], before
            try:
                append(path, what)
            except Exception as e:  # noqa
                problems.append(f"{label}: append session raised {e!r}")
            gc.collect()  # the abandoned SevenZipFile object closes (and flushes) its file
            try:
                after = members(path)
            except Exception as e:  # noqa
                problems.append(f"{label}: archive is unreadable after the append session: {e!r}")
                continue
            if after[: len(before)] != before:
                problems.append(f"{label}: old members changed: {before} -> {after}")
    finally:
        shutil.rmtree(td, ignore_errors=True)
    if problems:
        print("FAIL: append to an archive with only directories/empty files does not preserve history")
        for p in problems:
            print("   -", p)
        return 1
    print("PASS")
    return 0


if __name__ == "__main__":
    sys.exit(main())
