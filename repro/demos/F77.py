"""C17: a member whose FILETIME lies beyond year 9999 makes SevenZipFile.list() raise.

The archive is built byte by byte (copy method, raw header); the header is read back exactly
(files[i].lastwritetime is right), test() and extraction work, but list() dies with OverflowError
in helpers.filetime_to_dt for one member, so no member of the archive can be listed.
"""
import io
import struct
import sys
import zlib

import py7zr


def num(v):  # 7z NUMBER, minimal form
    n = 0
    while n < 8 and v >= (1 << (7 * (n + 1))):
        n += 1
    if n == 8:
        return b"\xff" + v.to_bytes(8, "little")
    return bytes([((0xFF00 >> n) & 0xFF) | (v >> (8 * n))]) + (v & ((1 << (8 * n)) - 1)).to_bytes(n, "little")


def archive(members):
    """members: list of (name, data, filetime); one folder, copy coder, raw (not encoded) header."""
    packed = b"".join(d for _, d, _ in members)
    h = b"\x01\x04"
    h += b"\x06" + num(0) + num(1) + b"\x09" + num(len(packed)) + b"\x00"
    h += b"\x07\x0b" + num(1) + b"\x00" + num(1) + b"\x01\x00" + b"\x0c" + num(len(packed)) + b"\x00"
    h += b"\x08\x0d" + num(len(members)) + b"\x09" + b"".join(num(len(d)) for _, d, _ in members[:-1])
    h += b"\x0a\x01" + b"".join(struct.pack("<L", zlib.crc32(d)) for _, d, _ in members) + b"\x00\x00"
    h += b"\x05" + num(len(members))
    names = b"\x00" + b"".join(n.encode("utf-16-le") + b"\x00\x00" for n, _, _ in members)
    h += b"\x11" + num(len(names)) + names
    times = b"\x01\x00" + b"".join(struct.pack("<Q", t) for _, _, t in members)
    h += b"\x14" + num(len(times)) + times
    h += b"\x00\x00"
    start = struct.pack("<QQL", len(packed), len(h), zlib.crc32(h))
    return b"7z\xbc\xaf\x27\x1c\x00\x04" + struct.pack("<L", zlib.crc32(start)) + start + packed + h


problems = []
for label, ft in (("year 10000", 2650467744000000000), ("2^63", 2**63), ("2^64-1", 2**64 - 1)):
    members = [("ordinary.txt", b"hello", 133444736001234567), ("far.txt", b"world", ft)]
    data = archive(members)
    with py7zr.SevenZipFile(io.BytesIO(data)) as z:
        stored = [f.lastwritetime for f in z.files]
        if stored != [m[2] for m in members]:
            problems.append(f"{label}: header value not read back: {stored}")
            continue
        try:
            listed = z.list()
        except Exception as e:
            problems.append(f"{label}: list() raised {e!r} although the header was read correctly")
            continue
        if [x.filename for x in listed] != [m[0] for m in members]:
            problems.append(f"{label}: list() returned {[x.filename for x in listed]}")

if problems:
    print("FAIL: a legal FILETIME in the upper part of the unsigned 64-bit range breaks listing")
    for p in problems:
        print("  -", p)
    sys.exit(1)
print("PASS")
