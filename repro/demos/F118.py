"""C11: an archive made with header encryption loses it when members are appended: SevenZipFile(arc, 'a', password=pw)
rewrites the header with the session's own flag (default False), so the names of ALL members - the old ones too - become
readable without the password.  The same happens when the append session fails and the old header is 'put back'.
(7-Zip keeps the header encrypted when it updates such an archive unless told otherwise.)"""
import io
import os
import sys
import tempfile

sys.path.insert(0, os.getcwd())
import py7zr  # noqa: E402

PASSWORD = "correct horse battery staple"
OLD_NAME = "secret_merger_plans_2027.txt"
NEW_NAME = "appended_member_notes.txt"
CONTENT = b"Attack at dawn! The password to the vault is swordfish. " * 8


def readable_without_password(path):
    """names a reader gets without any key (None when the archive asks for the password)"""
    try:
        with py7zr.SevenZipFile(path, "r") as z:
            return z.getnames()
    except py7zr.exceptions.PasswordRequired:
        return None


class FailingSource(io.BytesIO):
    """a source that breaks after its first block"""

    def __init__(self):
        super().__init__(os.urandom(3 << 20))
        self.calls = 0

    def read(self, n=-1):
        self.calls += 1
        if self.calls > 1:
            raise OSError("source failed")
        return super().read(n)


def main():
    problems = []
    with tempfile.TemporaryDirectory() as td:
        # 1. a successful append
        arc = os.path.join(td, "a.7z")
        with py7zr.SevenZipFile(arc, "w", password=PASSWORD, header_encryption=True) as z:
            z.writestr(CONTENT, OLD_NAME)
        if readable_without_password(arc) is not None or OLD_NAME.encode("utf-16-le") in open(arc, "rb").read():
            print("demo broken: the fresh archive already shows its names")
            return 2
        with py7zr.SevenZipFile(arc, "a", password=PASSWORD) as z:
            z.writestr(CONTENT, NEW_NAME)
        names = readable_without_password(arc)
        if names is not None:
            problems.append("after an append session the archive opens WITHOUT a password and lists %s" % names)
        with py7zr.SevenZipFile(arc, "r", password=PASSWORD) as z:
            if z.getnames() != [OLD_NAME, NEW_NAME]:
                print("demo broken: append did not work", z.getnames())
                return 2

        # 2. an append session that fails: the archive is put back "as it was"
        arc2 = os.path.join(td, "b.7z")
        with py7zr.SevenZipFile(arc2, "w", password=PASSWORD, header_encryption=True) as z:
            z.writestr(CONTENT, OLD_NAME)
        try:
            with py7zr.SevenZipFile(arc2, "a", password=PASSWORD) as z:
                z.writef(FailingSource(), NEW_NAME)
        except Exception:
            pass
        names = readable_without_password(arc2)
        if names is not None:
            problems.append("after a FAILED append session the restored archive opens without a password and lists %s" % names)
    if problems:
        print("FAIL: header encryption is silently dropped, the member names leak")
        for p in problems:
            print("  -", p)
        return 1
    print("PASS")
    return 0


if __name__ == "__main__":
    sys.exit(main())
