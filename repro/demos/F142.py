"""C18: an extraction that is refused before any member is touched (here: a member named like the archive, extracted into
the archive's own directory -> Bad7zFile from the planning loop of _extract) still delivers a 'preparation' event to the
callback, with no post-processing event and no member events.  The repair for the PasswordRequired refusal moved only that
check in front of the 'pre' event; the other refusals of the planning loop are still raised after it."""
import os
import sys
import tempfile

sys.path.insert(0, os.getcwd())
import py7zr  # noqa: E402
from py7zr.callbacks import ExtractCallback  # noqa: E402


class Rec(ExtractCallback):
    def __init__(self):
        self.ev = []

    def report_start_preparation(self):
        self.ev.append(("pre",))

    def report_start(self, processing_file_path, processing_bytes):
        self.ev.append(("s", processing_file_path))

    def report_update(self, decompressed_bytes):
        self.ev.append(("u", decompressed_bytes))

    def report_end(self, processing_file_path, wrote_bytes):
        self.ev.append(("e", processing_file_path, wrote_bytes))

    def report_warning(self, message):
        self.ev.append(("w", message))

    def report_postprocess(self):
        self.ev.append(("post",))


def main():
    with tempfile.TemporaryDirectory() as td:
        arc = os.path.join(td, "t.7z")
        with py7zr.SevenZipFile(arc, "w") as z:
            z.writestr(b"first", "a")
            z.writestr(b"not an archive", "t.7z")
        cb = Rec()
        refused = None
        z = py7zr.SevenZipFile(arc)
        try:
            z.extractall(td, callback=cb)
        except py7zr.Bad7zFile as e:
            refused = e
        finally:
            z.close()
        print("refused with:", repr(refused))
        print("events:", cb.ev, "; 'a' extracted:", os.path.exists(os.path.join(td, "a")))
        if refused is None:
            ok = bool(cb.ev) and cb.ev[0] == ("pre",) and cb.ev[-1] == ("post",)
            print("PASS (the extraction was carried out)" if ok else "FAIL: incomplete account of an extraction that was carried out")
            return 0 if ok else 1
        if cb.ev:
            print("FAIL: the extraction was refused before anything was extracted, yet the callback was told", cb.ev,
                  "- a preparation that is never followed by post-processing")
            return 1
    print("PASS")
    return 0


if __name__ == "__main__":
    sys.exit(main())
