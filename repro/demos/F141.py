"""C12: testzip() must give the same (right) verdict as a fresh session, any number of times, by path or from a stream.

A plain three-folder archive has damage in its FIRST member (a large one) and in its LAST member (a small one).
testzip() ("the name of the first bad file") answers 'a.bin' for a stream and for mp/sequential sessions, but for an
archive opened by path the folders are checked by concurrent threads and the answer is whichever thread failed first:
the small last member wins, so the path session names 'c.txt' (and may name different members on repeated calls).
"""
import os
import shutil
import sys
import tempfile

sys.path.insert(0, os.getcwd())
import py7zr  # noqa: E402


def main():
    d = tempfile.mkdtemp()
    try:
        arc = os.path.join(d, "a.7z")
        copy = [{"id": py7zr.FILTER_COPY}]
        with py7zr.SevenZipFile(arc, "w", filters=copy) as z:
            z.writestr(b"A" * (48 << 20), "a.bin")  # folder 1: large
        with py7zr.SevenZipFile(arc, "a", filters=copy) as z:
            z.writestr(b"B" * 1000, "b.txt")  # folder 2: intact
        with py7zr.SevenZipFile(arc, "a", filters=copy) as z:
            z.writestr(b"C" * 1000, "c.txt")  # folder 3: small
        with open(arc, "r+b") as f:
            data = f.read(4096)
            i = data.find(b"A" * 1000)
            f.seek(i + 10)
            f.write(b"X")  # damage a.bin
            size = f.seek(0, os.SEEK_END)
            f.seek(max(0, size - 8192))
            tail = f.read()
            j = tail.find(b"C" * 1000)
            assert i > 0 and j >= 0
            f.seek(max(0, size - 8192) + j + 10)
            f.write(b"X")  # damage c.txt

        with open(arc, "rb") as f:
            with py7zr.SevenZipFile(f, "r") as z:
                stream_verdicts = [z.testzip() for _ in range(2)]
        with py7zr.SevenZipFile(arc, "r") as z:
            path_verdicts = []
            for k in range(4):
                path_verdicts.append(z.testzip())
                if k == 1:
                    z.reset()
        print("stream:", stream_verdicts, "path:", path_verdicts)
        expected = "a.bin"  # the first bad member, what a sequential pass reports
        wrong = [v for v in stream_verdicts + path_verdicts if v != expected]
        if wrong:
            print(
                "FAIL: testzip() of one and the same archive answers %r for a stream but %r when opened by path "
                "(first bad member is %r)" % (stream_verdicts, path_verdicts, expected)
            )
            return 1
        print("PASS: every call named the first bad member")
        return 0
    finally:
        shutil.rmtree(d, ignore_errors=True)


if __name__ == "__main__":
    sys.exit(main())
