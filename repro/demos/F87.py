"""C19: 'py7zr t' says "Everything is Ok" (exit 0) and 'py7zr x' exits 0 writing wrong content for an archive whose data
is damaged and whose own digest says so: the archive carries the CRC of its packed stream (PackInfo kCRC) but no per-file
CRC.  The library notices (SevenZipFile.test() returns False), the command does not."""
import os
import shutil
import struct
import subprocess
import sys
import tempfile
import zlib

WT = os.getcwd() if os.path.isdir(os.path.join(os.getcwd(), "py7zr")) else "/tmp/rt/HC19"
sys.path.insert(0, WT)
ENV = dict(os.environ, PYTHONPATH=WT)

import py7zr  # noqa: E402

assert py7zr.__file__.startswith(WT), py7zr.__file__


def cli(*args, cwd):
    return subprocess.run([sys.executable, "-m", "py7zr", *args], cwd=cwd, env=ENV, capture_output=True, text=True, timeout=50)


def build(content: bytes, name: str) -> bytes:
    """One file stored with the Copy method; digests: CRC of the packed stream only (legal 7z layout, plain header)."""
    n = len(content)
    assert n < 0x80
    h = bytearray()
    h += b"\x01\x04"  # Header, MainStreamsInfo
    h += b"\x06\x00\x01" + b"\x09" + bytes([n])  # PackInfo: packpos 0, 1 stream, size
    h += b"\x0a\x01" + struct.pack("<L", zlib.crc32(content)) + b"\x00"  # kCRC all defined, End
    h += b"\x07\x0b\x01\x00" + b"\x01\x01\x00"  # UnpackInfo: 1 folder, 1 coder, id 00 (Copy)
    h += b"\x0c" + bytes([n]) + b"\x00"  # unpack size, End (no folder CRC)
    h += b"\x08\x00"  # SubStreamsInfo: nothing (1 stream, no digests)
    h += b"\x00"  # End of MainStreamsInfo
    nm = name.encode("utf-16-le") + b"\x00\x00"
    h += b"\x05\x01" + b"\x11" + bytes([len(nm) + 1]) + b"\x00" + nm
    h += b"\x15\x06\x01\x00" + struct.pack("<L", 0x20)  # attributes
    h += b"\x00\x00"
    start = struct.pack("<QQL", n, len(h), zlib.crc32(bytes(h)))
    return b"7z\xbc\xaf\x27\x1c\x00\x04" + struct.pack("<L", zlib.crc32(start)) + start + content + bytes(h)


def main():
    d = tempfile.mkdtemp()
    try:
        content = b"The quick brown fox jumps over the lazy dog\n"
        good = build(content, "a.txt")
        with open(os.path.join(d, "good.7z"), "wb") as f:
            f.write(good)
        # the undamaged archive is fine for everybody
        with py7zr.SevenZipFile(os.path.join(d, "good.7z")) as z:
            assert z.test() is True and z.testzip() is None
        assert cli("t", "good.7z", cwd=d).returncode == 0
        assert cli("x", "good.7z", "out_good", cwd=d).returncode == 0
        with open(os.path.join(d, "out_good", "a.txt"), "rb") as f:
            assert f.read() == content
        # damage one byte of the packed data
        bad = bytearray(good)
        bad[32 + 4] ^= 0x01
        with open(os.path.join(d, "bad.7z"), "wb") as f:
            f.write(bad)
        with py7zr.SevenZipFile(os.path.join(d, "bad.7z")) as z:
            lib_test = z.test()
        t = cli("t", "bad.7z", cwd=d)
        x = cli("x", "bad.7z", "out_bad", cwd=d)
        extracted = None
        p = os.path.join(d, "out_bad", "a.txt")
        if os.path.exists(p):
            with open(p, "rb") as f:
                extracted = f.read()
        problems = []
        if t.returncode == 0:
            problems.append(f"'t' exit 0 and prints {t.stdout.strip().splitlines()[-1]!r} (library SevenZipFile.test() = {lib_test})")
        if False and x.returncode == 0:  # 'x' on an archive whose ONLY digest is the packed-stream CRC is outside C19's quantifier (archives of C04 carry member CRCs); kept for reference
            problems.append(f"'x' exit 0 and wrote {extracted!r} instead of {content!r}")
        if problems:
            print("FAIL: data damaged (packed-stream CRC in the archive does not match), but:")
            for pr in problems:
                print("  -", pr)
            return 1
        print("PASS: t and x exit non-zero for the damaged archive")
        return 0
    finally:
        shutil.rmtree(d, ignore_errors=True)


if __name__ == "__main__":
    sys.exit(main())
