"""C04: testzip() on an archive opened with mode 'a' answers None ("no bad member") without looking at the data.

zipfile's and py7zr's contract for testzip() is: the name of the first bad member, or None when every member is good.
On an object opened for appending to an existing archive the method returns None unconditionally, so a damaged
archive is certified (a check before adding to an archive is the natural place to call it).  Opened with mode 'r'
the same bytes make testzip() name the bad member / raise.
"""
import io
import os
import sys

sys.path.insert(0, os.getcwd())
import py7zr  # noqa: E402


def main() -> int:
    members = {"a.txt": b"first member " * 40, "b.txt": b"second member " * 40}
    bio = io.BytesIO()
    with py7zr.SevenZipFile(bio, "w", filters=[{"id": py7zr.FILTER_COPY}]) as z:
        for name, data in members.items():
            z.writestr(data, name)
    damaged = bytearray(bio.getvalue())
    damaged[32 + 10] ^= 0x01  # one bit inside the stored data of a.txt (the packed area starts at offset 32)
    damaged = bytes(damaged)

    # reading: the damage is found
    try:
        with py7zr.SevenZipFile(io.BytesIO(damaged), "r") as z:
            r = z.testzip()
        print(f"mode 'r': testzip() -> {r!r}")
    except Exception as e:
        print(f"mode 'r': testzip() raised {type(e).__name__}: {e}")
        r = "error"
    if r is None:
        print("FAIL: even mode 'r' certifies the damaged archive")
        return 1

    # the same bytes, opened for appending
    z = py7zr.SevenZipFile(io.BytesIO(damaged), "a")
    try:
        try:
            ra = z.testzip()
        except Exception as e:
            print(f"mode 'a': testzip() raised {type(e).__name__}: {e}")
            print("PASS")
            return 0
    finally:
        try:
            z.close()
        except Exception:
            pass
    print(f"mode 'a': testzip() -> {ra!r}")
    if ra is None:
        print(
            "FAIL: testzip() returned None (= every member is good) for an archive whose member a.txt does not extract to "
            "its original bytes; nothing was read at all"
        )
        return 1
    print("PASS")
    return 0


if __name__ == "__main__":
    sys.exit(main())
