"""F140: chains the reader cannot decode (Delta+BCJ+LZMA, two branch filters in front of another codec, a lone branch filter) were written without
any error; the archive could never be read back.  PASS = every chain either round-trips or is refused when the member is written."""
import io, os, sys
sys.path.insert(0, os.getcwd())
import py7zr
from py7zr import FILTER_DELTA, FILTER_X86, FILTER_ARM, FILTER_LZMA, FILTER_BZIP2
from py7zr.exceptions import UnsupportedCompressionMethodError
from py7zr.io import BytesIOFactory
data = (b"\xe8\x00\x01\x02\x03hello world" * 3000)[:40001]
chains = {"Delta+X86+LZMA": [{"id": FILTER_DELTA, "dist": 4}, {"id": FILTER_X86}, {"id": FILTER_LZMA}],
          "X86+Delta+LZMA": [{"id": FILTER_X86}, {"id": FILTER_DELTA, "dist": 4}, {"id": FILTER_LZMA}],
          "X86+ARM+BZip2": [{"id": FILTER_X86}, {"id": FILTER_ARM}, {"id": FILTER_BZIP2}],
          "X86 alone": [{"id": FILTER_X86}],
          "X86+LZMA (control)": [{"id": FILTER_X86}, {"id": FILTER_LZMA}]}
bad = []
for name, filters in chains.items():
    b = io.BytesIO()
    try:
        with py7zr.SevenZipFile(b, "w", filters=filters) as z:
            z.writestr(data, "f.bin")
    except UnsupportedCompressionMethodError:
        if "control" in name:
            bad.append(f"{name}: refused")
        continue
    b.seek(0)
    try:
        with py7zr.SevenZipFile(b) as z:
            fac = BytesIOFactory(1 << 24)
            z.extractall(factory=fac)
            if fac.products["f.bin"].read() != data:
                bad.append(f"{name}: other bytes")
    except Exception as e:
        bad.append(f"{name}: written without error, cannot be read back ({type(e).__name__}: {e})")
if bad:
    print("FAIL: " + "; ".join(bad)); sys.exit(1)
print("PASS")
