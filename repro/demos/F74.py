"""C01 demo 1: a multi-volume archive whose (start/end) header straddles a volume boundary cannot be reopened.

py7zr writes the archive correctly (the concatenated volumes are a valid archive that py7zr itself reads
back from a BytesIO), but SevenZipFile._real_get_contents fetches the header with ONE fp.read(nextheadersize).
multivolumefile.MultiVolume.read() never crosses a volume boundary (it returns the bytes up to the end of the
current volume, like a raw stream), so the header comes back short, the CRC check fails and the archive is
rejected with Bad7zFile("invalid header data").
"""
import glob
import io
import os
import shutil
import sys
import tempfile

import multivolumefile
import py7zr

MEMBERS = [("dir/alpha.txt", b"alpha " * 40), ("dir/beta.bin", bytes(range(256)) * 3), ("gamma", b"")]


def write(target):
    with py7zr.SevenZipFile(target, "w") as z:
        for name, data in MEMBERS:
            z.writestr(data, name)


def read(target):
    with py7zr.SevenZipFile(target, "r") as z:
        names = z.getnames()
        fac = py7zr.io.BytesIOFactory(1 << 30)
        z.extractall(factory=fac)
    out = {}
    for k, v in fac.products.items():
        v.seek(0)
        out[k] = v.read()
    return names, out


def main():
    # where does the header live?  (single stream reference; same layout as the volumes)
    ref = io.BytesIO()
    write(ref)
    total = len(ref.getvalue())
    ref.seek(0)
    with py7zr.SevenZipFile(ref, "r") as z:
        hdr_start = 32 + z.sig_header.nextheaderofs
        hdr_size = z.sig_header.nextheadersize
    # volume sizes (all >= 64): one that cuts the header in two, two that do not
    cut = hdr_start + hdr_size // 2
    volumes = [cut, hdr_start - 8, total + 10, 4096]
    failures = []
    tmp = tempfile.mkdtemp(prefix="c01demo1_")
    try:
        for volume in volumes:
            assert volume >= 64
            base = os.path.join(tmp, "v%d" % volume, "arc.7z")
            os.makedirs(os.path.dirname(base))
            with multivolumefile.open(base, mode="wb", volume=volume) as t:
                write(t)
            parts = sorted(glob.glob(base + ".*"))
            joined = b"".join(open(p, "rb").read() for p in parts)
            # sanity: the bytes on disk are a good archive
            names, out = read(io.BytesIO(joined))
            assert names == [m[0] for m in MEMBERS] and all(out[n] == d for n, d in MEMBERS)
            # position of the header in *this* archive (the packed header may differ by a byte: it holds time stamps)
            with py7zr.SevenZipFile(io.BytesIO(joined), "r") as z:
                hdr_start = 32 + z.sig_header.nextheaderofs
                hdr_size = z.sig_header.nextheadersize
            straddles = (hdr_start // volume) != ((hdr_start + hdr_size - 1) // volume)
            try:
                with multivolumefile.open(base, mode="rb") as t:
                    names, out = read(t)
                ok = names == [m[0] for m in MEMBERS] and all(out.get(n) == d for n, d in MEMBERS)
                msg = "ok" if ok else "wrong content"
            except Exception as e:  # noqa
                ok = False
                msg = "%s: %s" % (type(e).__name__, e)
            print("volume=%5d parts=%d header@%d+%d straddles=%s -> %s" % (volume, len(parts), hdr_start, hdr_size, straddles, msg))
            if not ok:
                failures.append((volume, msg))
    finally:
        shutil.rmtree(tmp, ignore_errors=True)
    if failures:
        print("FAIL: multi-volume archive written by py7zr cannot be read back when the header crosses a volume boundary:", failures)
        return 1
    print("PASS")
    return 0


if __name__ == "__main__":
    sys.exit(main())
