"""C19: 'py7zr c' (and 'a') fail on a tree that holds a symbolic link whose target does not exist (a dangling link, or a
link that is resolved only where the tree is installed).  The link itself is a legal member: 7z stores the link text, and
'x' restores such links from archives of other writers.  py7zr.helpers.readlink() refuses to read a link unless
os.path.exists() - which FOLLOWS the link - is true, so the command dies with OSError(22) and leaves a partial archive."""
import os
import shutil
import subprocess
import sys
import tempfile

ROOT = os.getcwd()  # the worktree: `cd /tmp/rt/HD19 && python demo.py`
sys.path.insert(0, ROOT)
ENV = dict(os.environ, PYTHONPATH=ROOT)


def cli(*args, cwd):
    r = subprocess.run([sys.executable, "-m", "py7zr", *args], cwd=cwd, env=ENV, capture_output=True, text=True)
    return r.returncode, r.stdout, r.stderr


def snapshot(top):
    res = {}
    for dp, dn, fn in os.walk(top):
        for n in dn + fn:
            p = os.path.join(dp, n)
            rel = os.path.relpath(p, top)
            if os.path.islink(p):
                res[rel] = ("link", os.readlink(p))
            elif os.path.isdir(p):
                res[rel] = ("dir",)
            else:
                with open(p, "rb") as f:
                    res[rel] = ("file", f.read())
    return res


def main():
    work = tempfile.mkdtemp(prefix="hd19_3_")
    try:
        os.makedirs(os.path.join(work, "tree", "sub"))
        with open(os.path.join(work, "tree", "a.txt"), "w") as f:
            f.write("hello\n")
        os.symlink("a.txt", os.path.join(work, "tree", "good"))  # a link with a target: works
        os.symlink("not-here.txt", os.path.join(work, "tree", "sub", "dangling"))  # legal, target missing
        with open(os.path.join(work, "tree", "sub", "z.txt"), "w") as f:
            f.write("after the link\n")
        before = snapshot(os.path.join(work, "tree"))

        rc_c, out, err = cli("c", "out.7z", "tree", cwd=work)
        last = (err.strip().splitlines() or [""])[-1]
        print("c out.7z tree -> exit", rc_c, last)
        rc_x, out_x, err_x = cli("x", "out.7z", "dest", cwd=work)
        after = snapshot(os.path.join(work, "dest", "tree")) if os.path.isdir(os.path.join(work, "dest", "tree")) else {}
        print("x out.7z dest -> exit", rc_x, "; members restored:", sorted(after))

        # 'a' takes the same path
        with open(os.path.join(work, "one.txt"), "w") as f:
            f.write("1")
        cli("c", "app.7z", "one.txt", cwd=work)
        rc_a, out_a, err_a = cli("a", "app.7z", "tree/sub/dangling", cwd=work)
        print("a app.7z tree/sub/dangling -> exit", rc_a, (err_a.strip().splitlines() or [""])[-1])
    finally:
        shutil.rmtree(work, ignore_errors=True)
    if rc_c != 0 or rc_x != 0 or after != before or rc_a != 0:
        missing = sorted(set(before) - set(after))
        print("FAIL: 'c' followed by 'x' does not reproduce a tree with a dangling symbolic link (missing after: %s)" % missing)
        return 1
    print("PASS: the tree with the dangling link was archived and restored")
    return 0


if __name__ == "__main__":
    sys.exit(main())
