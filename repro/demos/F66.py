"""C07 demo: an append session that makes the archive shorter leaves the tail of the old header behind.

Mode 'a' writes the new folder and the new header over the old header, and nothing ever truncates
the file.  When the new tail (packed data + header) is shorter than the old header - e.g. the first
session wrote a plain (not encoded) header and the next one writes the default LZMA2-encoded header -
the file keeps bytes of the old header after the end of the archive: NextHeaderOffset + NextHeaderSize
no longer describe the bytes on disk (7-Zip: "There are some data after the end of the payload data")."""
import io
import os
import sys
import tempfile

sys.path.insert(0, os.getcwd())  # run from the worktree: import its py7zr
import py7zr  # noqa: E402

LZMA2 = [{"id": py7zr.FILTER_LZMA2, "preset": 1}]  # one coder per folder keeps the reference reader small

# ---- minimal independent 7z reader (stdlib only; shares no code with py7zr) ----
import lzma
import struct
import zlib


class Malformed(Exception):
    pass


def _need(cond, msg):
    if not cond:
        raise Malformed(msg)


class _Rd:
    def __init__(self, data):
        self.d, self.p = data, 0

    def read(self, n):
        _need(self.p + n <= len(self.d), "read beyond the end of a header record")
        self.p += n
        return self.d[self.p - n : self.p]

    def byte(self):
        return self.read(1)[0]

    def num(self):
        first, mask, value = self.byte(), 0x80, 0
        for i in range(8):
            if first & mask == 0:
                return value | ((first & (mask - 1)) << (8 * i))
            value |= self.byte() << (8 * i)
            mask >>= 1
        return value

    def bits(self, n):
        raw = self.read((n + 7) // 8)
        return [bool(raw[i // 8] & (0x80 >> (i % 8))) for i in range(n)]

    def optbits(self, n):
        return [True] * n if self.byte() else self.bits(n)


def _lzma2(data, prop):
    dict_size = 0xFFFFFFFF if prop == 40 else (2 | (prop & 1)) << (prop // 2 + 11)
    dec = lzma.LZMADecompressor(lzma.FORMAT_RAW, filters=[{"id": lzma.FILTER_LZMA2, "dict_size": dict_size}])
    out = dec.decompress(data)
    _need(dec.eof and not dec.unused_data, "LZMA2 stream does not end with the packed stream")
    return out


def _streams_info(r):
    """PackInfo / UnpackInfo / SubStreamsInfo; single-coder folders (Copy, LZMA2 or an opaque method)."""
    si = dict(packpos=0, packsizes=[], folders=[], numsub=[], subsizes=[], subcrcs=[])
    pid = r.byte()
    if pid == 0x06:
        si["packpos"], n = r.num(), r.num()
        pid = r.byte()
        if pid == 0x09:
            si["packsizes"] = [r.num() for _ in range(n)]
            pid = r.byte()
        if pid == 0x0A:
            r.read(4 * sum(r.optbits(n)))
            pid = r.byte()
        _need(pid == 0, "PackInfo is not terminated")
        pid = r.byte()
    if pid == 0x07:
        _need(r.byte() == 0x0B, "Folder record expected")
        nf = r.num()
        _need(r.byte() == 0, "external folders")
        for _ in range(nf):
            _need(r.num() == 1, "this reader handles one coder per folder")
            flag = r.byte()
            _need(flag & 0x10 == 0, "complex coder")
            method = r.read(flag & 0x0F)
            props = r.read(r.num()) if flag & 0x20 else None
            si["folders"].append(dict(method=method, props=props, crc=None))
        _need(r.byte() == 0x0C, "CodersUnpackSize expected")
        for f in si["folders"]:
            f["size"] = r.num()
        pid = r.byte()
        if pid == 0x0A:
            for f, d in zip(si["folders"], r.optbits(nf)):
                f["crc"] = struct.unpack("<L", r.read(4))[0] if d else None
            pid = r.byte()
        _need(pid == 0, "UnpackInfo is not terminated")
        pid = r.byte()
    si["numsub"] = [1] * len(si["folders"])
    if pid == 0x08:
        pid = r.byte()
        if pid == 0x0D:
            si["numsub"] = [r.num() for _ in si["folders"]]
            pid = r.byte()
        explicit = pid == 0x09
        for f, n in zip(si["folders"], si["numsub"]):
            if n:
                sizes = [r.num() for _ in range(n - 1)] if explicit else []
                _need(explicit or n == 1, "substream sizes are missing")
                _need(sum(sizes) <= f["size"], "substream sizes exceed the folder's unpack size")
                si["subsizes"] += sizes + [f["size"] - sum(sizes)]
        if explicit:
            pid = r.byte()
        unknown = sum(n for f, n in zip(si["folders"], si["numsub"]) if not (n == 1 and f["crc"] is not None))
        crcs = [None] * unknown
        if pid == 0x0A:
            crcs = [struct.unpack("<L", r.read(4))[0] if d else None for d in r.optbits(unknown)]
            pid = r.byte()
        it = iter(crcs)
        for f, n in zip(si["folders"], si["numsub"]):
            si["subcrcs"] += [f["crc"]] if n == 1 and f["crc"] is not None else [next(it) for _ in range(n)]
        _need(pid == 0, "SubStreamsInfo is not terminated")
        pid = r.byte()
    else:
        si["subsizes"] = [f["size"] for f in si["folders"]]
        si["subcrcs"] = [f["crc"] for f in si["folders"]]
    _need(pid == 0, "StreamsInfo is not terminated")
    _need(len(si["packsizes"]) == len(si["folders"]), "number of packed streams != number of folders")
    return si


def _files_info(r):
    n = r.num()
    files = [dict(name=None, empty=False, emptyfile=False) for _ in range(n)]
    while True:
        pid = r.byte()
        if pid == 0:
            return files
        size = r.num()
        body = _Rd(r.read(size))
        if pid == 0x0E:
            for f, e in zip(files, body.bits(n)):
                f["empty"] = e
        elif pid == 0x0F:
            for f, e in zip([f for f in files if f["empty"]], body.bits(sum(f["empty"] for f in files))):
                f["emptyfile"] = e
        elif pid == 0x11:
            _need(body.byte() == 0, "external names")
            raw = body.read(size - 1)
            _need(len(raw) % 2 == 0 and raw[-2:] == b"\0\0", "name list is not terminated")
            units = struct.unpack("<%dH" % (len(raw) // 2), raw)
            names, cur = [], []
            for u in units:
                if u == 0:
                    names.append(struct.pack("<%dH" % len(cur), *cur).decode("utf-16-le"))
                    cur = []
                else:
                    cur.append(u)
            _need(len(names) == n, "the Names record holds %d names but the archive declares %d files" % (len(names), n))
            for f, nm in zip(files, names):
                f["name"] = nm
        elif pid in (0x12, 0x13, 0x14):
            d = body.optbits(n)
            _need(body.byte() == 0, "external times")
            body.read(8 * sum(d))
        elif pid == 0x15:
            d = body.optbits(n)
            _need(body.byte() == 0, "external attributes")
            body.read(4 * sum(d))
        elif pid == 0x19:
            body.read(size)
        else:
            raise Malformed("unexpected file property 0x%02x" % pid)
        _need(body.p == size, "file property 0x%02x: declared size %d, used %d" % (pid, size, body.p))


def read_7z(blob, decoders=None):
    """Strictly parse an archive; returns (members, info). members: (name, is_dir, data).
    decoders: {method id bytes: callable(packed, props, unpack_size) -> bytes} for methods other than Copy/LZMA2."""
    _need(blob[:6] == b"7z\xbc\xaf\x27\x1c", "signature")
    _need(zlib.crc32(blob[12:32]) == struct.unpack("<L", blob[8:12])[0], "start header CRC")
    ofs, size, crc = struct.unpack("<QQL", blob[12:32])
    end_of_archive = 32 + ofs + size
    _need(end_of_archive <= len(blob), "the next header lies beyond the end of the file")
    hdr = blob[32 + ofs : end_of_archive]
    _need(zlib.crc32(hdr) == crc, "next header CRC")
    info = dict(end_of_archive=end_of_archive, file_size=len(blob))
    data_end = ofs
    r = _Rd(hdr)
    pid = r.byte()
    if pid == 0x17:  # encoded header
        hs = _streams_info(r)
        f = hs["folders"][0]
        _need(f["method"] == b"\x21", "this reader decodes LZMA2 encoded headers only")
        _need(hs["packpos"] + hs["packsizes"][0] == ofs, "the packed header does not end where the next header starts")
        raw = _lzma2(blob[32 + hs["packpos"] : 32 + ofs], f["props"][0])
        _need(len(raw) == f["size"] and zlib.crc32(raw) == f["crc"], "encoded header size/CRC")
        data_end = hs["packpos"]
        r = _Rd(raw)
        pid = r.byte()
    _need(pid == 0x01, "Header expected")
    si, files = None, []
    pid = r.byte()
    if pid == 0x04:
        si = _streams_info(r)
        pid = r.byte()
    if pid == 0x05:
        files = _files_info(r)
        pid = r.byte()
    _need(pid == 0 and r.p == len(r.d), "the header is not terminated properly")
    streams = []
    if si is not None:
        pos, k = si["packpos"], 0
        for f, psize, nsub in zip(si["folders"], si["packsizes"], si["numsub"]):
            packed = blob[32 + pos : 32 + pos + psize]
            pos += psize
            if f["method"] == b"\x00":
                out = packed
            elif f["method"] == b"\x21":
                out = _lzma2(packed, f["props"][0])
            else:
                _need(decoders and f["method"] in decoders, "no decoder for method " + f["method"].hex())
                out = decoders[f["method"]](packed, f["props"], f["size"])
            _need(len(out) == f["size"], "a folder decodes to %d bytes but its header declares %d" % (len(out), f["size"]))
            off = 0
            for _ in range(nsub):
                d = out[off : off + si["subsizes"][k]]
                off += si["subsizes"][k]
                streams.append((d, si["subcrcs"][k]))
                k += 1
        _need(pos == data_end, "packed sizes do not tile the data area")
    info["si"] = si
    _need(sum(1 for f in files if not f["empty"]) == len(streams), "files with data != number of substreams")
    members, it, crc_errors = [], iter(streams), []
    for f in files:
        if f["empty"]:
            members.append((f["name"], not f["emptyfile"], None if not f["emptyfile"] else b""))
        else:
            d, c = next(it)
            if c is not None and zlib.crc32(d) != c:
                crc_errors.append(f["name"])
            members.append((f["name"], False, d))
    info["crc_errors"] = crc_errors
    return members, info
# ---- end of reader ----


def scenario(tmp, label, touch):
    path = os.path.join(tmp, label + ".7z")
    z = py7zr.SevenZipFile(path, "w", filters=LZMA2)
    z.set_encoded_header_mode(False)  # plain header: about 70 bytes per member
    expected = []
    for i in range(40):
        name = "docs/chapter-%02d/section.txt" % i
        data = ("text of section %d\n" % i).encode() * 3
        z.writestr(data, name)
        expected.append((name, False, data))
    z.close()
    size1 = os.path.getsize(path)
    with py7zr.SevenZipFile(path, "a", filters=LZMA2) as z:  # default header mode: LZMA2 encoded header
        if touch:
            z.writestr(b"one more", "more.txt")
            expected.append(("more.txt", False, b"one more"))
    blob = open(path, "rb").read()
    try:
        members, info = read_7z(blob)
    except Malformed as e:
        return "%s: malformed archive: %s" % (label, e)
    if members != expected:
        return "%s: members differ" % label
    extra = info["file_size"] - info["end_of_archive"]
    if extra:
        return "%s: the archive ends at byte %d (32 + NextHeaderOffset + NextHeaderSize) but the file has %d bytes: %d bytes of " \
               "the previous session's header (file was %d bytes) follow the end of the archive" % (
                   label, info["end_of_archive"], info["file_size"], extra, size1)
    return None


def main():
    with tempfile.TemporaryDirectory() as tmp:
        problems = [p for p in (scenario(tmp, "append-one-member", True), scenario(tmp, "reopen-and-close", False)) if p]
    if problems:
        print("FAIL: " + "\n      ".join(problems))
        return 1
    print("PASS: the file ends where the header ends")
    return 0


if __name__ == "__main__":
    sys.exit(main())
