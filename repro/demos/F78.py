"""Appending (mode 'a') writes the new packed data over the old header of the archive;
the old members stay reachable only because close() writes a new header.  Since the
_broken flag makes close() refuse to write a header, one source that fails midway
during an append session destroys the whole existing archive (Bad7zFile on re-open),
although all of its old members are still intact in the file."""
import os
import sys

sys.path.insert(0, os.getcwd())
import io
import shutil
import tempfile

import py7zr


class FailingSource(io.BytesIO):
    def read(self, n=-1):
        if self.tell() > 3_000_000:
            raise OSError("simulated I/O error in the source")
        return super().read(n)


def main():
    d = tempfile.mkdtemp()
    try:
        p = os.path.join(d, "a.7z")
        old = {"old%d.txt" % i: b"precious content %d" % i for i in range(3)}
        with py7zr.SevenZipFile(p, "w") as z:
            for name, data in old.items():
                z.writestr(data, name)
        z = py7zr.SevenZipFile(p, "a")
        try:
            z.writef(FailingSource(os.urandom(8_000_000)), "bad.bin")
        except OSError:
            pass  # the application notices the bad source and gives up on it
        try:
            z.close()
        except Exception as e:  # noqa
            print("close() raised %s: %s" % (type(e).__name__, e))
        finally:
            try:
                z.fp.close()
            except Exception:
                pass
        # the members that were in the archive before the append session must still be there
        try:
            with py7zr.SevenZipFile(p) as r:
                names = r.getnames()
                out = os.path.join(d, "out")
                r.extractall(out)
            for name, data in old.items():
                with open(os.path.join(out, name), "rb") as f:
                    if f.read() != data:
                        print("FAIL: old member %s has wrong content" % name)
                        return 1
        except Exception as e:  # noqa
            print(
                "FAIL: after a failed append the existing archive cannot be opened any more (%s: %s); "
                "its three old members are lost" % (type(e).__name__, e)
            )
            return 1
        print("PASS: old members %s survive a failed append" % names)
        return 0
    finally:
        shutil.rmtree(d, ignore_errors=True)


if __name__ == "__main__":
    sys.exit(main())
