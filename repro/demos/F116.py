"""C09: after testzip() (the zipfile idiom `if z.testzip() is None: z.extract(...)`) extract(targets=T) delivers nothing:
it raises DecompressionError/CrcError and leaves an empty file under the first selected member's name.

testzip() replaces the worker and resets the decompressors BEFORE its pass (fix 49ed85d) but leaves the exhausted decompressors
of every folder cached afterwards; the following extraction reuses them and finds no data.  test(), list(), getinfo() before an
extraction are harmless, and the documentation asks for reset() only between two extract()/extractall() calls."""
import io
import os
import shutil
import sys
import tempfile

sys.path.insert(0, os.getcwd())
import py7zr  # noqa: E402
from py7zr.io import BytesIOFactory  # noqa: E402


def snapshot(root):
    res = {}
    for dp, dn, fn in os.walk(root):
        for n in fn:
            p = os.path.join(dp, n)
            with open(p, "rb") as f:
                res[os.path.relpath(p, root)] = f.read()
    return res


def main():
    tmp = tempfile.mkdtemp()
    failures = []
    try:
        arc = os.path.join(tmp, "t.7z")
        with py7zr.SevenZipFile(arc, "w") as z:  # one solid folder
            z.writestr(b"A" * 1000, "a.txt")
            z.writestr(b"B" * 2000, "d/b.txt")
            z.writestr(b"C" * 3000, "d/c.txt")
        with py7zr.SevenZipFile(arc, "a") as z:  # a second folder
            z.writestr(b"D" * 4000, "e.txt")
        full = os.path.join(tmp, "full")
        with py7zr.SevenZipFile(arc) as z:
            z.extractall(full)
        fullsnap = snapshot(full)
        targets = ["d/b.txt", "e.txt"]
        expected = {t: fullsnap[t] for t in targets}

        # to a directory
        out = os.path.join(tmp, "out")
        try:
            with py7zr.SevenZipFile(arc) as z:
                bad = z.testzip()
                assert bad is None, bad
                z.extract(out, targets=targets)
            got = snapshot(out)
            if got != expected:
                failures.append("directory: delivered %s" % {k: len(v) for k, v in got.items()})
        except Exception as e:
            left = snapshot(out) if os.path.exists(out) else {}
            failures.append(
                "directory: testzip() said None, then extract(targets=%r) raised %s: %s; left behind: %s"
                % (targets, type(e).__name__, e, {k: len(v) for k, v in left.items()})
            )
        # to a factory, archive given as a stream
        try:
            with open(arc, "rb") as f:
                blob = f.read()
            fac = BytesIOFactory(1 << 20)
            with py7zr.SevenZipFile(io.BytesIO(blob)) as z:
                assert z.testzip() is None
                z.extract(targets=set(targets), factory=fac)
            got = {k: v._buffer.getvalue() for k, v in fac.products.items()}
            if got != expected:
                failures.append("factory: delivered %s" % {k: len(v) for k, v in got.items()})
        except Exception as e:
            failures.append("factory: testzip() said None, then extract(targets=...) raised %s: %s" % (type(e).__name__, e))
    finally:
        shutil.rmtree(tmp, ignore_errors=True)
    if failures:
        print("FAIL: extract(targets=T) right after a successful testzip() does not deliver the members of T:")
        for f in failures:
            print("  " + f)
        return 1
    print("PASS")
    return 0


if __name__ == "__main__":
    sys.exit(main())
