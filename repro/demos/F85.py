"""C20: when little memory is available the chunk limit turns NEGATIVE, and a negative max_length means "no limit".

get_memory_limit() returns min(128e6, (available - 256e6) >> 2).  With less than 256 MB available (psutil's figure when
RLIMIT_DATA is unlimited, or a soft RLIMIT_DATA below 256 MB) the result is below zero.  Worker.decompress() passes
min(remaining, limit) - the negative number - to SevenZipDecompressor.decompress(), whose `max_length < 0` branch decodes
everything a 1 MiB input block expands to: for a compressible member that is the whole member at once.  So exactly when memory
is scarce the bound is switched off.

The demo simulates the loaded machine by letting psutil report 200 MB available (nothing in py7zr is changed) and extracts a
640 MiB member of zeros (LZMA2, archive ~90 KB) to a NullIOFactory writer.  The budget is 700 MiB above the baseline; with a
positive limit the same extraction peaks well below that.

Run: cd /tmp/rt/HC20 && /venv/bin/python demo.py
"""
import io
import json
import os
import resource
import subprocess
import sys
import tempfile

sys.path.insert(0, os.getcwd())

BUDGET_MIB = 700
SIZE = 640 * 1024 * 1024
AS_LIMIT = 3 * 2**30  # safety net for the machine
FAKE_AVAILABLE = 200_000_000


class Zeros(io.BufferedIOBase):
    def __init__(self, size):
        self.size = size
        self.pos = 0

    def readable(self):
        return True

    def seekable(self):
        return True

    def tell(self):
        return self.pos

    def seek(self, off, whence=0):
        self.pos = off if whence == 0 else (self.pos + off if whence == 1 else self.size + off)
        return self.pos

    def read(self, n=-1):
        if n is None or n < 0:
            n = self.size - self.pos
        n = max(0, min(n, self.size - self.pos))
        self.pos += n
        return bytes(n)


def peak_mib():
    return resource.getrusage(resource.RUSAGE_SELF).ru_maxrss / 1024.0


def child(op, arc):
    resource.setrlimit(resource.RLIMIT_AS, (AS_LIMIT, AS_LIMIT))
    import psutil

    import py7zr
    from py7zr.io import NullIOFactory
    from py7zr.properties import get_memory_limit

    base = peak_mib()
    err = None
    limit = None
    try:
        if op == "write":
            with py7zr.SevenZipFile(arc, "w", filters=[{"id": py7zr.FILTER_LZMA2, "preset": 0}]) as z:
                z.writef(Zeros(SIZE), "big.bin")
        else:
            if op == "scarce":
                real = psutil.virtual_memory

                class Scarce:
                    def __init__(self, vm):
                        self._vm = vm

                    def __getattr__(self, name):
                        return FAKE_AVAILABLE if name == "available" else getattr(self._vm, name)

                psutil.virtual_memory = lambda: Scarce(real())
            limit = get_memory_limit()
            with py7zr.SevenZipFile(arc, "r") as z:
                z.extractall(factory=NullIOFactory())
    except BaseException as e:
        err = repr(e)[:200]
    print(json.dumps({"delta": peak_mib() - base, "err": err, "limit": limit, "module": py7zr.__file__}))


def run(op, arc):
    r = subprocess.run([sys.executable, os.path.abspath(__file__), "child", op, arc], capture_output=True, text=True)
    try:
        return json.loads(r.stdout.strip().splitlines()[-1])
    except Exception:
        return {"delta": float("nan"), "err": "child died: " + r.stderr[-300:], "limit": None, "module": "?"}


def main():
    with tempfile.TemporaryDirectory() as d:
        arc = os.path.join(d, "zeros.7z")
        w = run("write", arc)
        if w["err"]:
            print("FAIL: could not create the archive:", w["err"])
            sys.exit(1)
        print(f"archive: {os.path.getsize(arc)} bytes, member {SIZE >> 20} MiB; write peak {w['delta']:.0f} MiB ({w['module']})")
        normal = run("normal", arc)
        scarce = run("scarce", arc)
    print(f"plenty of memory : get_memory_limit() = {normal['limit']}, peak above baseline {normal['delta']:.0f} MiB, error: {normal['err']}")
    print(f"200 MB available : get_memory_limit() = {scarce['limit']}, peak above baseline {scarce['delta']:.0f} MiB, error: {scarce['err']}")
    if scarce["err"] or not scarce["delta"] <= BUDGET_MIB or (scarce["limit"] is not None and scarce["limit"] <= 0):
        print(
            f"FAIL: with little memory available the chunk limit is {scarce['limit']} (not a positive size), the member is decoded "
            f"in one piece and the peak is {scarce['delta']:.0f} MiB (> {BUDGET_MIB} MiB, and growing with the member size)"
        )
        sys.exit(1)
    print("PASS: within the budget")
    sys.exit(0)


if __name__ == "__main__":
    if len(sys.argv) > 1 and sys.argv[1] == "child":
        child(*sys.argv[2:4])
    else:
        main()
