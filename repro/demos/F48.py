"""C02: a relative symlink whose target text happens to equal the (cwd-relative) origin path of
another archived member is rewritten by Worker._find_link_target, so the extracted link has a
different target (and resolves to a different file)."""
import os
import pathlib
import shutil
import sys
import tempfile

sys.path.insert(0, os.getcwd())
import py7zr  # noqa: E402


def build(src: pathlib.Path) -> None:
    src.mkdir()
    (src / "a").write_bytes(b"TOP LEVEL a\n")
    (src / "d").mkdir()
    (src / "d" / "a").write_bytes(b"inner d/a\n")
    # sideways link inside d: d/lnk -> "a"  (i.e. d/a); the top-level "a" is archived before it
    os.symlink("a", src / "d" / "lnk")


def main() -> int:
    work = pathlib.Path(tempfile.mkdtemp(prefix="hc02_1_"))
    cwd = os.getcwd()
    problems = []
    try:
        src = work / "src"
        build(src)
        # --- entry point 1: writeall(".") from inside the tree
        arc1 = work / "a1.7z"
        os.chdir(src)
        try:
            with py7zr.SevenZipFile(arc1, "w") as z:
                z.writeall(".")
        finally:
            os.chdir(cwd)
        out1 = work / "out1"
        with py7zr.SevenZipFile(arc1, "r") as z:
            z.extractall(out1)
        # --- entry point 2: shutil front end (make_archive chdirs into root_dir, base_dir=".")
        shutil.register_archive_format("7zip", py7zr.pack_7zarchive, description="7zip archive")
        shutil.register_unpack_format("7zip", [".7z"], py7zr.unpack_7zarchive)
        arc2 = shutil.make_archive(str(work / "a2"), "7zip", root_dir=str(src))
        out2 = work / "out2"
        shutil.unpack_archive(arc2, str(out2))
        for label, out in (("writeall('.')+extractall", out1), ("pack_7zarchive+unpack_7zarchive", out2)):
            want = os.readlink(src / "d" / "lnk")
            got = os.readlink(out / "d" / "lnk")
            if got != want:
                problems.append(f"{label}: d/lnk -> {got!r}, source has {want!r}")
            if (out / "d" / "lnk").read_bytes() != (src / "d" / "lnk").read_bytes():
                problems.append(
                    f"{label}: d/lnk resolves to {(out / 'd' / 'lnk').read_bytes()!r}, "
                    f"source resolves to {(src / 'd' / 'lnk').read_bytes()!r}"
                )
    finally:
        os.chdir(cwd)
        shutil.rmtree(work, ignore_errors=True)
    if problems:
        print("FAIL: symlink target changed by the round trip")
        for p in problems:
            print("  " + p)
        return 1
    print("PASS")
    return 0


if __name__ == "__main__":
    sys.exit(main())
