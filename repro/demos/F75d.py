"""C16: drive-prefixed names.  write()'s sanitiser treats '^[a-zA-Z]:' as a drive prefix on every platform (it strips
it, and raises AbsolutePathError if one is left), i.e. the package regards 'c:/x' as an absolute member name.
On POSIX the writestr/writef gate (check_archive_path, host pathlib semantics) accepts 'c:/x' and stores it
verbatim, and write('./c:/f') slips past the sanitiser because the prefix is only looked for at position 0 before
pathlib drops the './'.  The closed archives list drive-absolute members."""
import io
import os
import re
import shutil
import sys
import tempfile

sys.path.insert(0, os.getcwd())  # import the py7zr of the tree we are run from
import py7zr  # noqa: E402


def drive_absolute(name: str) -> bool:
    return re.match(r"^[a-zA-Z]:[/\\]", name) is not None or name.startswith(("/", "\\"))


problems = []

# 1. writestr / writef
for name in ("c:/windows/x.txt", "C:/x.txt", "./c:/x.txt", "a/../c:/x.txt"):
    for api in ("writestr", "writef"):
        buf = io.BytesIO()
        with py7zr.SevenZipFile(buf, "w") as z:
            try:
                if api == "writestr":
                    z.writestr(b"data", name)
                else:
                    z.writef(io.BytesIO(b"data"), name)
            except ValueError:
                pass  # rejecting is a correct answer
        buf.seek(0)
        with py7zr.SevenZipFile(buf, "r") as z:
            for n in z.getnames():
                if drive_absolute(n):
                    problems.append(f"{api}({name!r}) accepted; closed archive lists {n!r}")

# 2. write() with a relative source path inside a scratch tree, arcname None
if os.sep == "/":
    start = os.getcwd()
    scratch = tempfile.mkdtemp(prefix="c16_")
    try:
        os.makedirs(os.path.join(scratch, "tree", "c:"))
        with open(os.path.join(scratch, "tree", "c:", "f.txt"), "wb") as f:
            f.write(b"data")
        os.chdir(os.path.join(scratch, "tree"))
        for src in ("c:/f.txt", "./c:/f.txt"):
            target = os.path.join(scratch, "w.7z")
            with py7zr.SevenZipFile(target, "w") as z:
                z.write(src)
            with py7zr.SevenZipFile(target, "r") as z:
                for n in z.getnames():
                    if drive_absolute(n):
                        problems.append(f"write({src!r}) stored {n!r} (write('c:/f.txt') has the prefix removed)")
    finally:
        os.chdir(start)
        shutil.rmtree(scratch, ignore_errors=True)

if problems:
    print("FAIL: drive-prefixed (absolute on Windows, and for py7zr's own sanitiser) member names get into the archive:")
    for p in problems:
        print("  ", p)
    sys.exit(1)
print("PASS")
