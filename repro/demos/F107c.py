"""C16: write()/writeall() store absolute source paths as relative names (leading separators removed).
An absolute path can never leave the root ('/..' is '/'), so '/<tmp>/../../<tmp>/s/f' is a perfectly good absolute
spelling of a file inside the scratch tree.  write() strips the leading '/' and then judges the REST as if it were a
relative archive name: 'tmp/../../tmp/...' "climbs above its root" and the call fails with ValueError, while the sibling
spelling '/../<tmp>/s/f' (climb first) is stored fine.  The same happens for relative sources: '../s/f' is stored as
's/f' but 'a/../../s/f' is refused, and writeall('..') fails on its first member."""
import io
import os
import shutil
import sys
import tempfile

import py7zr

top = os.path.realpath(tempfile.mkdtemp())
old = os.getcwd()
problems = []


def climbs(name):
    depth = 0
    for comp in name.split("/"):
        if comp in ("", "."):
            continue
        if comp == "..":
            depth -= 1
            if depth < 0:
                return True
        else:
            depth += 1
    return False


try:
    os.makedirs(os.path.join(top, "s", "a"))
    target = os.path.join(top, "s", "f")
    with open(target, "w") as fh:
        fh.write("x")
    os.chdir(os.path.join(top, "s"))
    depth = top.count("/")  # number of components of the temporary directory
    first = top.split("/")[1]
    cases = [
        top + "/s/f",  # control
        "/.." + top + "/s/f",  # control: climb at the very front, accepted today
        "/" + first + "/../.." + top + "/s/f",  # one '..' more than there are components before it
        top + "/" + "../" * (depth + 1) + top.lstrip("/") + "/s/f",  # os.path.join(base, '../../../..', ...) style
        "../s/f",  # control: accepted today, stored as 's/f'
        "a/../../s/f",  # the same file, the climb is not at the front
    ]
    for src in cases:
        assert os.path.samefile(src, target), src
        shown = src.replace(top, "<tmp>").replace(top.lstrip("/"), "<tmp>")
        for call in ("write", "writeall"):
            buf = io.BytesIO()
            z = py7zr.SevenZipFile(buf, "w")
            try:
                getattr(z, call)(src)
            except Exception as e:
                problems.append("%s(%r) raised %s: %s" % (call, shown, type(e).__name__, str(e).replace(top, "<tmp>")[:80]))
                z.close()
                continue
            z.close()
            buf.seek(0)
            with py7zr.SevenZipFile(buf) as r:
                names = r.getnames()
            if len(names) != 1 or names[0].startswith("/") or climbs(names[0]):
                problems.append("%s(%r) stored %r" % (call, shown, names))
finally:
    os.chdir(old)
    shutil.rmtree(top)

if problems:
    print("FAIL: valid source paths inside the scratch tree are refused instead of being stored under a relative name:")
    for p in problems:
        print("  " + p)
    sys.exit(1)
print("PASS: every spelling of the source was stored under a relative name that stays inside")
