"""C19: 'py7zr c arc ../data/tree' exits 0 but stores the members as '../data/tree/...'; the archive it just reported as
created cannot be extracted by 'py7zr x' (nor by the library): 'c' followed by 'x' does not reproduce the input tree and the
exit status 0 of 'c' does not tell the truth.  (writestr()/writef() refuse such a name, write() stores it.)"""
import os
import shutil
import subprocess
import sys
import tempfile

WT = os.getcwd() if os.path.isdir(os.path.join(os.getcwd(), "py7zr")) else "/tmp/rt/HC19"
ENV = dict(os.environ, PYTHONPATH=WT)


def cli(*args, cwd):
    return subprocess.run([sys.executable, "-m", "py7zr", *args], cwd=cwd, env=ENV, capture_output=True, text=True, timeout=50)


def main():
    d = tempfile.mkdtemp()
    try:
        where = subprocess.run(
            [sys.executable, "-c", "import py7zr;print(py7zr.__file__)"], cwd=d, env=ENV, capture_output=True, text=True
        ).stdout.strip()
        assert where.startswith(WT), where
        os.makedirs(os.path.join(d, "data", "tree", "sub"))
        os.makedirs(os.path.join(d, "work"))
        files = {"tree/a.txt": b"hello\n" * 100, "tree/sub/b.bin": os.urandom(300)}
        for k, v in files.items():
            with open(os.path.join(d, "data", k), "wb") as f:
                f.write(v)
        work = os.path.join(d, "work")
        c = cli("c", "arc", "../data/tree", cwd=work)
        lst = cli("l", "arc.7z", cwd=work)
        names = [ln.split()[-1] for ln in lst.stdout.splitlines() if ln[:2] == "20"]
        t = cli("t", "arc.7z", cwd=work)
        x = cli("x", "arc.7z", "out", cwd=work)
        found = {}
        for r, ds, fs in os.walk(os.path.join(work, "out")):
            for n in fs:
                with open(os.path.join(r, n), "rb") as f:
                    found[n] = f.read()
        ok_content = sorted(found.values()) == sorted(files.values())
        if c.returncode == 0 and (x.returncode != 0 or not ok_content):
            last = (x.stderr.strip() or x.stdout.strip()).splitlines()[-1]
            print("FAIL: 'c arc ../data/tree' exit 0, members listed as", names)
            print(f"      't' exit {t.returncode}, but 'x arc.7z out' exit {x.returncode}: {last}")
            print("      nothing of the input tree can be got back from the archive 'c' reported as created")
            return 1
        if c.returncode != 0:
            print("PASS (c refused the input loudly, exit", c.returncode, ")")
            return 0
        print("PASS: the tree was extracted again:", sorted(found))
        return 0
    finally:
        shutil.rmtree(d, ignore_errors=True)


if __name__ == "__main__":
    sys.exit(main())
