"""C02: writeall of a tree that contains a symbolic link fails with AttributeError as soon as the
archive already holds a member that did not come from the file system in this session
(mode 'a' on an existing archive = CLI `py7zr a`, or a writestr()/writef() member written earlier):
Worker._find_link_target calls .origin.as_posix() on every earlier member and origin is None for those.
The link and everything after it never reach the archive."""
import os
import pathlib
import shutil
import subprocess
import sys
import tempfile

sys.path.insert(0, os.getcwd())
import py7zr  # noqa: E402

WORKTREE = os.getcwd()


def tree_ok(src: pathlib.Path, out: pathlib.Path, problems, label):
    for rel in ("data.txt", "lnk", "zz_last.txt"):
        s, o = src / rel, out / rel
        if not os.path.lexists(o):
            problems.append(f"{label}: {rel} is missing after extraction")
        elif os.path.islink(s):
            if not os.path.islink(o) or os.readlink(o) != os.readlink(s):
                problems.append(f"{label}: {rel} is not the same link")
        elif o.read_bytes() != s.read_bytes():
            problems.append(f"{label}: {rel} differs")


def main() -> int:
    work = pathlib.Path(tempfile.mkdtemp(prefix="hc02_4_"))
    cwd = os.getcwd()
    problems = []
    try:
        os.chdir(work)
        (work / "first").mkdir()
        (work / "first" / "one.txt").write_bytes(b"one\n")
        tree = work / "tree"
        tree.mkdir()
        (tree / "data.txt").write_bytes(b"data\n")
        os.symlink("data.txt", tree / "lnk")  # relative link to a file inside the tree
        (tree / "zz_last.txt").write_bytes(b"last\n")

        # 1. API: archive exists already, the tree is added with mode 'a'
        with py7zr.SevenZipFile("api.7z", "w") as z:
            z.writeall("first")
        try:
            with py7zr.SevenZipFile("api.7z", "a") as z:
                z.writeall("tree")
        except Exception as e:  # noqa
            problems.append(f"mode 'a' writeall raised {type(e).__name__}: {e}")
        with py7zr.SevenZipFile("api.7z", "r") as z:
            z.extractall("out_api")
        tree_ok(tree, work / "out_api" / "tree", problems, "mode 'a'")

        # 2. CLI front end: py7zr c + py7zr a + py7zr x
        env = dict(os.environ, PYTHONPATH=WORKTREE)
        run = lambda *a: subprocess.run([sys.executable, "-m", "py7zr", *a], cwd=work, env=env, capture_output=True, text=True)  # noqa
        r = run("c", "cli.7z", "first")
        assert r.returncode == 0, r.stderr
        r = run("a", "cli.7z", "tree")
        if r.returncode != 0:
            problems.append(f"CLI `py7zr a` exit status {r.returncode}: {(r.stderr.strip().splitlines() or ['?'])[-1]}")
        r = run("x", "cli.7z", "out_cli")
        tree_ok(tree, work / "out_cli" / "tree", problems, "CLI a")

        # 3. same session, a writestr() member first
        try:
            with py7zr.SevenZipFile("mix.7z", "w") as z:
                z.writestr(b"generated\n", "MANIFEST")
                z.writeall("tree")
        except Exception as e:  # noqa
            problems.append(f"writestr()+writeall raised {type(e).__name__}: {e}")
        with py7zr.SevenZipFile("mix.7z", "r") as z:
            z.extractall("out_mix")
        tree_ok(tree, work / "out_mix" / "tree", problems, "writestr+writeall")
    finally:
        os.chdir(cwd)
        shutil.rmtree(work, ignore_errors=True)
    if problems:
        print("FAIL: a tree with a symlink cannot be added to an archive that has members without an origin path")
        for p in problems:
            print("  " + p)
        return 1
    print("PASS")
    return 0


if __name__ == "__main__":
    sys.exit(main())
