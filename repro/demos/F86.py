"""C19: 'py7zr c -v 1k ...' (a volume size the help describes: {Size}[b|k|m|g]) fails with RecursionError as soon as the
archive needs about a thousand volumes; it leaves a thousand orphan volume files behind."""
import glob
import os
import shutil
import subprocess
import sys
import tempfile

WT = os.getcwd() if os.path.isdir(os.path.join(os.getcwd(), "py7zr")) else "/tmp/rt/HC19"
ENV = dict(os.environ, PYTHONPATH=WT)


def cli(*args, cwd):
    return subprocess.run([sys.executable, "-m", "py7zr", *args], cwd=cwd, env=ENV, capture_output=True, text=True, timeout=50)


def main():
    d = tempfile.mkdtemp()
    try:
        where = subprocess.run(
            [sys.executable, "-c", "import py7zr;print(py7zr.__file__)"], cwd=d, env=ENV, capture_output=True, text=True
        ).stdout.strip()
        assert where.startswith(WT), where
        src = os.path.join(d, "big.bin")
        data = os.urandom(2 * 1024 * 1024)  # incompressible: the archive is a little over 2 MiB -> about 2050 volumes of 1 KiB
        with open(src, "wb") as f:
            f.write(data)
        problems = []
        for size in ("4k", "1k", "1000"):
            name = "arc_" + size
            p = cli("c", "-v", size, name, "big.bin", cwd=d)
            vols = sorted(glob.glob(os.path.join(d, name + ".7z.*")))
            if p.returncode != 0:
                last = p.stderr.strip().splitlines()[-1] if p.stderr.strip() else ""
                problems.append(f"'c -v {size}' exit status {p.returncode} ({last}); {len(vols)} volume files left behind")
                continue
            # the volumes, put together, are the archive: it must test clean and give the file back
            cat = os.path.join(d, name + "_cat.7z")
            with open(cat, "wb") as out:
                for v in vols:
                    with open(v, "rb") as f:
                        out.write(f.read())
            t = cli("t", cat, cwd=d)
            x = cli("x", cat, os.path.join(d, "out_" + size), cwd=d)
            got = None
            if x.returncode == 0:
                with open(os.path.join(d, "out_" + size, "big.bin"), "rb") as f:
                    got = f.read()
            if t.returncode != 0 or got != data:
                problems.append(f"'c -v {size}' exit 0 but the volumes do not give the input back (t={t.returncode}, x={x.returncode})")
        if problems:
            print("FAIL: multi-volume creation does not accept a volume size its help describes:")
            for pr in problems:
                print("  -", pr)
            return 1
        print("PASS: c -v 4k / 1k / 1000 created volumes that reproduce the input")
        return 0
    finally:
        shutil.rmtree(d, ignore_errors=True)


if __name__ == "__main__":
    sys.exit(main())
