"""F135b: 'd -> .' followed by a LINK member 'd/<archive name>': the link arm unlinked the archive it was reading"""
import os, sys, tempfile, shutil
sys.path.insert(0, os.getcwd())
import py7zr
tmp = tempfile.mkdtemp(prefix="f135b_")
try:
    src = os.path.join(tmp, "src"); os.makedirs(src)
    os.symlink(".", os.path.join(src, "d"))
    os.symlink("x.txt", os.path.join(src, "zz_link"))
    open(os.path.join(src, "x.txt"), "w").write("x")
    arc = os.path.join(tmp, "work", "backup.7z"); os.makedirs(os.path.dirname(arc))
    with py7zr.SevenZipFile(arc, "w") as z:
        z.write(os.path.join(src, "d"), "d")
        z.write(os.path.join(src, "zz_link"), "d/backup.7z")
        z.write(os.path.join(src, "x.txt"), "x.txt")
    before = open(arc, "rb").read()
    try:
        with py7zr.SevenZipFile(arc) as z:
            z.extractall(os.path.dirname(arc))
        res = "completed"
    except Exception as e:
        res = f"{type(e).__name__}: {e}"
    ok = os.path.isfile(arc) and not os.path.islink(arc) and open(arc, "rb").read() == before
    print(("PASS" if ok else "FAIL") + f": extraction {res}; archive " + ("untouched" if ok else "replaced"))
    sys.exit(0 if ok else 1)
finally:
    shutil.rmtree(tmp, ignore_errors=True)
