"""C10: a member stored without a name (the Names record is optional) gets a name generated from the archive's file name.
That code trusts `fp.name` to be a str: for a file object opened from a descriptor (name is an int) the archive cannot be
opened at all (TypeError), for one opened from a bytes path the listing hands out bytes names and extraction fails -
while the same archive opened by path or from a BytesIO lists and extracts fine."""
import os, sys, io, struct, zlib, tempfile, shutil
sys.path.insert(0, os.getcwd())
import py7zr
from py7zr.io import BytesIOFactory

crc = lambda b: zlib.crc32(b) & 0xFFFFFFFF
DATA = b"payload of the nameless member"

def build():
    # one folder, COPY coder, one file, FilesInfo WITHOUT a Names record (legal: every FilesInfo property is optional)
    h = b"\x01"                                            # Header
    h += b"\x04"                                           # MainStreamsInfo
    h += b"\x06\x00\x01\x09" + bytes([len(DATA)]) + b"\x00"  # PackInfo: pos 0, 1 stream, size
    h += b"\x07\x0b\x01\x00" + b"\x01\x01\x00" + b"\x0c" + bytes([len(DATA)]) + b"\x00"  # UnpackInfo: 1 folder, 1 coder COPY
    h += b"\x08\x0a\x01" + struct.pack("<L", crc(DATA)) + b"\x00"  # SubStreamsInfo: CRC
    h += b"\x00"
    h += b"\x05\x01" + b"\x15\x06\x01\x00" + struct.pack("<L", 0x20) + b"\x00"  # FilesInfo: 1 file, attributes only
    h += b"\x00"
    start = struct.pack("<QQL", len(DATA), len(h), crc(h))
    return b"7z\xbc\xaf\x27\x1c\x00\x04" + struct.pack("<L", crc(start)) + start + DATA + h

def examine(label, opener):
    """open the archive, list it, extract it; return a list of problems"""
    probs = []
    fh = opener()
    try:
        try:
            z = py7zr.SevenZipFile(fh, "r")
        except Exception as e:
            return [f"{label}: the archive cannot be opened: {type(e).__name__}: {e}"]
        try:
            names = z.getnames()
            if not all(isinstance(n, str) for n in names):
                probs.append(f"{label}: getnames() returns non-str names {names!r}")
            if not (names == z.namelist() == [x.filename for x in z.list()] == [f.filename for f in z.files]):
                probs.append(f"{label}: the listing interfaces disagree")
            for n in names:
                try:
                    z.getinfo(n)
                except Exception as e:
                    probs.append(f"{label}: getinfo({n!r}) -> {type(e).__name__}")
            sizes = [x.uncompressed for x in z.list()]
            if sizes != [len(DATA)]:
                probs.append(f"{label}: sizes {sizes}")
            fac = BytesIOFactory(1 << 20)
            try:
                z.extractall(factory=fac)
                got = []
                for v in fac.products.values():
                    v.seek(0)
                    got.append(v.read())
                if got != [DATA]:
                    probs.append(f"{label}: extraction delivered {got!r}")
            except Exception as e:
                probs.append(f"{label}: listed member cannot be extracted: {type(e).__name__}: {e}")
        finally:
            z.close()
    finally:
        if hasattr(fh, "close"):
            fh.close()
    return probs

def main():
    blob = build()
    d = tempfile.mkdtemp()
    try:
        p = os.path.join(d, "arc.7z")
        with open(p, "wb") as f:
            f.write(blob)
        probs = []
        # the baselines (these work): by path, from memory, from a handle opened by a str path
        base = examine("path", lambda: p) if False else []
        z = py7zr.SevenZipFile(p); base_names = z.getnames(); z.close()
        if base_names != ["arc"]:
            probs.append(f"path: unexpected names {base_names!r}")
        probs += examine("BytesIO", lambda: io.BytesIO(blob))
        probs += examine("open(str path)", lambda: open(p, "rb"))
        # the same archive behind handles whose .name is not a str
        probs += examine("os.fdopen(descriptor)", lambda: os.fdopen(os.open(p, os.O_RDONLY), "rb"))
        probs += examine("open(bytes path)", lambda: open(os.fsencode(p), "rb"))
    finally:
        shutil.rmtree(d, ignore_errors=True)
    if probs:
        print("FAIL: a nameless member is listed truthfully only for some kinds of input handle")
        for x in probs:
            print("  -", x)
        return 1
    print("PASS")
    return 0

if __name__ == "__main__":
    sys.exit(main())
