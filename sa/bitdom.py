"""Bit-provenance domain: each bit of a word is 0, 1, a named field bit (field, i), or unknown ("?").

Used for finite algebraic facts about masks and shifts: the 7zAES property bytes (writer layout vs reader decoding) and
the attribute word (kind/permission encoding vs the reader's predicates).  Expressions of the source are evaluated in
this domain; nothing is executed.
"""
from __future__ import annotations

import ast
from typing import Dict, List, Optional, Tuple, Union

from .model import AnalysisError, Func, attr_tail, dotted, norm, walk
from . import q

W = 40
Bit = Union[int, str, Tuple[str, int]]


class Word:
    def __init__(self, bits: Optional[List[Bit]] = None):
        self.b: List[Bit] = (bits or []) + [0] * (W - len(bits or []))
        self.b = self.b[:W]

    @staticmethod
    def const(c: int) -> "Word":
        if c < 0:
            raise AnalysisError("negative constant in bit domain")
        return Word([(c >> i) & 1 for i in range(W)])

    @staticmethod
    def field(name: str, width: int) -> "Word":
        return Word([(name, i) for i in range(width)])

    def shl(self, k: int) -> "Word":
        return Word([0] * k + self.b[: W - k])

    def shr(self, k: int) -> "Word":
        return Word(self.b[k:] + [0] * k)

    def and_(self, o: "Word") -> "Word":
        out: List[Bit] = []
        for x, y in zip(self.b, o.b):
            if x == 0 or y == 0:
                out.append(0)
            elif x == 1:
                out.append(y)
            elif y == 1:
                out.append(x)
            elif x == y:
                out.append(x)
            else:
                out.append("?")
        return Word(out)

    def or_(self, o: "Word") -> "Word":
        out: List[Bit] = []
        for x, y in zip(self.b, o.b):
            if x == 1 or y == 1:
                out.append(1)
            elif x == 0:
                out.append(y)
            elif y == 0:
                out.append(x)
            elif x == y:
                out.append(x)
            else:
                out.append("?")
        return Word(out)

    def add(self, o: "Word") -> "Word":
        if all(x == 0 or y == 0 for x, y in zip(self.b, o.b)):
            return self.or_(o)
        return Word(["?"] * W)

    def is_const(self) -> bool:
        return all(x in (0, 1) for x in self.b)

    def value(self) -> int:
        return sum((1 << i) for i, x in enumerate(self.b) if x == 1)

    def __eq__(self, o) -> bool:
        return isinstance(o, Word) and self.b == o.b

    def __repr__(self) -> str:
        hi = max([i for i, x in enumerate(self.b) if x != 0], default=-1)
        parts = []
        for i in range(hi, -1, -1):
            x = self.b[i]
            parts.append(str(x) if not isinstance(x, tuple) else f"{x[0]}.{x[1]}")
        return "[" + " ".join(parts) + "]" if parts else "[0]"


class BitEval:
    def __init__(self, env: Dict[str, Word], const_lookup=None, opaque_width: int = 8, func: Optional[Func] = None):
        self.env = env
        self.const_lookup = const_lookup
        self.opaque_width = opaque_width
        self.func = func
        self._busy = set()

    def ev(self, e: ast.AST) -> Word:
        if isinstance(e, ast.Constant) and isinstance(e.value, int):
            return Word.const(int(e.value))
        key = norm(e)
        if key in self.env:
            return self.env[key]
        if isinstance(e, ast.BinOp):
            if isinstance(e.op, (ast.LShift, ast.RShift)):
                k = self.ev(e.right)
                if not k.is_const():
                    return Word(["?"] * W)
                l = self.ev(e.left)
                return l.shl(k.value()) if isinstance(e.op, ast.LShift) else l.shr(k.value())
            if isinstance(e.op, ast.BitAnd):
                return self.ev(e.left).and_(self.ev(e.right))
            if isinstance(e.op, ast.BitOr):
                return self.ev(e.left).or_(self.ev(e.right))
            if isinstance(e.op, ast.Add):
                return self.ev(e.left).add(self.ev(e.right))
            if isinstance(e.op, ast.Sub):
                return Word.field(norm(e), self.opaque_width)
        if isinstance(e, ast.Call) and attr_tail(e) == "to_bytes":
            return self.ev(e.func.value)
        if isinstance(e, ast.Call) and dotted(e.func) in ("int",) and e.args:
            return self.ev(e.args[0])
        if isinstance(e, ast.Name) and self.func is not None and e.id not in self._busy:
            vals = q.assigned_values(self.func, e.id)
            if len(vals) == 1:
                self._busy.add(e.id)
                try:
                    return self.ev(vals[0])
                finally:
                    self._busy.discard(e.id)
        if self.const_lookup is not None:
            try:
                v = self.const_lookup(e)
                if isinstance(v, int) and not isinstance(v, bool):
                    return Word.const(v)
            except Exception:
                pass
        raise AnalysisError(f"bit domain: cannot evaluate `{norm(e)}`")


def _local(f: Func, name: str) -> ast.AST:
    vals = [v for v in q.assigned_values(f, name)]
    if len(vals) < 1:
        raise AnalysisError(f"bit domain: `{name}` has no definition in {f.qname}")
    return vals[0]


def aes_property_agreement(ctx, rule: str) -> None:
    w = ctx.prog.func("compressor", "AESCompressor.encode_filter_properties")
    r = ctx.prog.func("compressor", "AESDecompressor.__init__")
    # ---- writer ---------------------------------------------------------------------------
    wenv: Dict[str, Word] = {"self.cycles": Word.field("cycles", 6)}
    ctx.assume("7zAES: NumCyclesPower fits 6 bits (calculate_key asserts cycles <= 0x3F)")
    for n in walk(w.node):
        if isinstance(n, ast.Assign) and isinstance(n.targets[0], ast.Name):
            nm, v = n.targets[0].id, n.value
            if isinstance(v, ast.Call) and dotted(v.func) == "len":
                wenv[nm] = Word.field(nm, 8)
            elif isinstance(v, ast.Constant) and isinstance(v.value, int):
                wenv[nm] = Word.const(v.value)
            elif isinstance(v, ast.IfExp) and isinstance(v.body, ast.Constant) and isinstance(v.orelse, ast.Constant) and {v.body.value, v.orelse.value} == {0, 1}:
                wenv[nm] = Word.field(nm, 1)
    we = BitEval(wenv)
    props = [n for n in walk(w.node) if isinstance(n, ast.Return)]
    ctx.need(len(props) == 1, "encode_filter_properties return not recognised")
    parts: List[ast.AST] = []

    def flat(e):
        if isinstance(e, ast.BinOp) and isinstance(e.op, ast.Add):
            flat(e.left)
            flat(e.right)
        else:
            parts.append(e)
    rv = props[0].value
    if isinstance(rv, ast.Name):
        rv = _local(w, rv.id)
    flat(rv)
    ctx.need(len(parts) == 4, f"7zAES properties are not `byte0 + byte1 + salt + iv` ({[norm(p) for p in parts]})")
    b0 = we.ev(_local(w, parts[0].id) if isinstance(parts[0], ast.Name) else parts[0])
    b1 = we.ev(_local(w, parts[1].id) if isinstance(parts[1], ast.Name) else parts[1])
    ctx.check(norm(parts[2]).endswith("salt") and norm(parts[3]).endswith("iv"), rule, w, props[0], "writer layout: 2 bytes, salt, iv",
              f"7zAES properties are laid out as {[norm(p) for p in parts]} instead of byte0, byte1, salt, iv")
    # ---- reader ---------------------------------------------------------------------------
    renv: Dict[str, Word] = {}
    prop_param = r.params[1]
    byte_vars: Dict[str, int] = {}
    for n in walk(r.node):
        if isinstance(n, ast.Assign) and isinstance(n.targets[0], ast.Name) and isinstance(n.value, ast.Subscript) \
                and isinstance(n.value.value, ast.Name) and n.value.value.id == prop_param and isinstance(n.value.slice, ast.Constant):
            byte_vars[n.targets[0].id] = n.value.slice.value
    ctx.need(set(byte_vars.values()) == {0, 1}, "reader does not bind property bytes 0 and 1")
    for nm, i in byte_vars.items():
        renv[nm] = b0 if i == 0 else b1
    re_ = BitEval(renv)

    import re as _re

    def _b(nm: str) -> str:
        """the name a local had in the helper it was expanded from (sa/inline.py appends `_inl<n>`)"""
        return _re.sub(r"_inl\d+$", "", nm)

    def defs(name: str) -> Tuple[Optional[Word], List[Word]]:
        base, adds = None, []
        for n in walk(r.node):
            if isinstance(n, ast.Assign) and isinstance(n.targets[0], ast.Name) and _b(n.targets[0].id) == name and not (
                    isinstance(n.value, ast.Name) and _b(n.value.id) == name):  # (not the hand-over `x = x_inl1` of an expanded helper)
                if base is None or n.targets[0].id != name:
                    base = re_.ev(n.value)
            elif isinstance(n, ast.AugAssign) and isinstance(n.target, ast.Name) and _b(n.target.id) == name and isinstance(n.op, ast.Add):
                adds.append(re_.ev(n.value))
        return base, adds

    cyc, _ = defs("numcyclespower")
    ctx.check(cyc == Word.field("cycles", 6), rule, r, r.node, f"reader recovers cycles = {cyc}", f"reader decodes NumCyclesPower as {cyc}, writer stored {Word.field('cycles', 6)} in byte 0 = {b0}",
              construct="aes cycles bits")
    sbase, sadds = defs("saltsize")
    ibase, iadds = defs("ivsize")
    salt_flag = wenv.get("saltfirst")
    iv_flag = wenv.get("ivfirst")
    ok = sbase is not None and salt_flag is not None and sbase == salt_flag and len(sadds) == 1
    if ok:
        want = Word([(f"saltsize - saltfirst", i) for i in range(4)])
        ok = sadds[0] == want
    ctx.check(bool(ok), rule, r, r.node, "reader salt size = flag bit 7 + high nibble of byte 1 (inverse of the writer)",
              f"salt size decoding ({sbase} + {sadds}) is not the inverse of the writer's byte0={b0}, byte1={b1}", construct="aes salt size bits")
    ok = ibase is not None and iv_flag is not None and ibase == iv_flag and len(iadds) == 1
    if ok:
        want = Word([(f"ivsize - 1", i) for i in range(4)])
        ok = iadds[0] == want and iv_flag.is_const() and iv_flag.value() == 1
    ctx.check(bool(ok), rule, r, r.node, "reader iv size = flag bit 6 + low nibble of byte 1 (inverse of the writer)",
              f"iv size decoding ({ibase} + {iadds}) is not the inverse of the writer's byte0={b0}, byte1={b1}", construct="aes iv size bits")
    # slices: salt = props[2:2+saltsize], iv = props[2+saltsize:2+saltsize+ivsize], compared as linear forms over (saltsize, ivsize)
    def lin(e, depth=4):
        """e as {symbol: coeff, 1: const} or None (not a linear form over the two sizes; e.g. a negative index -ivsize is one, and is wrong
        for ivsize == 0, but it does not equal the wanted form either)."""
        if e is None:
            return None
        if isinstance(e, ast.Constant) and isinstance(e.value, int) and not isinstance(e.value, bool):
            return {1: e.value}
        if isinstance(e, ast.Name):
            if _b(e.id) in ("saltsize", "ivsize"):
                return {_b(e.id): 1}
            if depth > 0:
                vals = [n.value for n in walk(r.node) if isinstance(n, ast.Assign) and isinstance(n.targets[0], ast.Name) and n.targets[0].id == e.id]
                if len(vals) == 1:
                    return lin(vals[0], depth - 1)
            return None
        if isinstance(e, ast.UnaryOp) and isinstance(e.op, ast.USub):
            v = lin(e.operand, depth)
            return None if v is None else {k: -c for k, c in v.items()}
        if isinstance(e, ast.BinOp) and isinstance(e.op, (ast.Add, ast.Sub)):
            a, b = lin(e.left, depth), lin(e.right, depth)
            if a is None or b is None:
                return None
            out = dict(a)
            for k, c in b.items():
                out[k] = out.get(k, 0) + (c if isinstance(e.op, ast.Add) else -c)
            return {k: c for k, c in out.items() if c != 0}
        return None

    sl = {}
    shown = {}
    for n in walk(r.node):
        if isinstance(n, ast.Assign) and isinstance(n.targets[0], ast.Name) and isinstance(n.value, ast.Subscript) and isinstance(n.value.slice, ast.Slice) \
                and isinstance(n.value.value, ast.Name) and n.value.value.id == prop_param:
            lo, up = n.value.slice.lower, n.value.slice.upper
            sl[_b(n.targets[0].id)] = (lin(lo) if lo is not None else {}, lin(up) if up is not None else "END")
            shown[_b(n.targets[0].id)] = (norm(lo) if lo is not None else "", norm(up) if up is not None else "")
    want_salt = ({1: 2}, {1: 2, "saltsize": 1})
    want_iv_lo = {1: 2, "saltsize": 1}
    want_iv_up = ({1: 2, "saltsize": 1, "ivsize": 1}, "END")
    ok = sl.get("salt") == want_salt and "iv" in sl and sl["iv"][0] == want_iv_lo and sl["iv"][1] in want_iv_up
    ctx.check(ok, rule, r, r.node, "reader slices salt then iv after the two bytes",
              f"reader slices {shown} instead of salt=[2:2+saltsize], iv=[2+saltsize:2+saltsize+ivsize] (a negative index such as [-ivsize:] takes the whole "
              "blob when ivsize is 0: properties with a salt but no IV are refused)", construct="aes salt/iv slices")


def aes_flags_clear_accepted(ctx, rule: str) -> None:
    """7zAES properties whose flag bits 7/6 are both clear consist of the cycles byte alone (no salt, no IV; the IV is zero): legal, and the
    reader must not refuse them.  The arm of `first & 0xC0 ...` that stands for 'both clear' does not end in a raise."""
    from .cfg import cfg_of
    from . import q
    r = ctx.prog.func("compressor", "AESDecompressor.__init__")
    cfg = cfg_of(r.node)
    tests = [t for t in cfg.nodes if t.kind == "test" and any(isinstance(x, ast.BinOp) and isinstance(x.op, ast.BitAnd) and isinstance(x.right, ast.Constant) and x.right.value == 0xC0
                                                             for x in ast.walk(t.ast))]
    if not tests:
        ctx.ok(rule, "no flag test on bits 7/6: the flags-clear form is not singled out")
        return
    for t in tests:
        cmp_ = t.ast
        # which edge is 'both clear'
        clear_edge = None
        if isinstance(cmp_, ast.Compare) and isinstance(cmp_.comparators[0], ast.Constant) and cmp_.comparators[0].value == 0:
            clear_edge = "true" if isinstance(cmp_.ops[0], ast.Eq) else "false"
        elif isinstance(cmp_, ast.BinOp):
            clear_edge = "false"
        if clear_edge is None:
            continue
        e = next((s_ for s_ in t.succ if s_.kind == clear_edge), None)
        ok = e is not None and not q.branch_always_raises(cfg, e)
        ctx.check(ok, rule, r, cmp_, "7zAES properties without salt and IV (flags clear) are accepted",
                  "the reader raises for 7zAES properties whose salt and IV flags are both clear (a one-byte property: cycles only, zero IV), which the format allows: "
                  "an archive encrypted that way is refused with 'Wrong 7zAES properties'", construct="aes flags clear arm")
