"""Mutation sweep (development tool, `./check mutate ...`): generates small syntactic mutants of the package source, analyses each one
IN MEMORY with all 20 rule sets (nothing is executed by this step), and lists the mutants no rule notices.  Survivors can then be run
against the test suite (--tests, this part executes the repository's tests in a scratch copy) so that the remaining ones - compile, pass
the suite, silent under every check - can be triaged by hand: equivalent mutant, behaviour outside the properties, or a blind spot.
The sweep is NOT part of any registered check; its triaged result is recorded in DESIGN.md."""
from __future__ import annotations

import ast
import json
import os
import shutil
import subprocess
import sys
import tempfile
from concurrent.futures import ProcessPoolExecutor
from typing import Dict, Iterator, List, Optional, Tuple

PROPS = [f"C{i:02d}" for i in range(1, 21)]
TARGETS = ["py7zr/py7zr.py", "py7zr/archiveinfo.py", "py7zr/compressor.py", "py7zr/helpers.py", "py7zr/cli.py", "py7zr/io.py", "py7zr/properties.py"]

CMP = {ast.Lt: "<=", ast.LtE: "<", ast.Gt: ">=", ast.GtE: ">", ast.Eq: "!=", ast.NotEq: "==", ast.Is: "is not", ast.IsNot: "is", ast.In: "not in", ast.NotIn: "in"}
BIN = {ast.Add: "-", ast.Sub: "+", ast.Mult: "//", ast.FloorDiv: "*", ast.LShift: ">>", ast.RShift: "<<", ast.BitAnd: "|", ast.BitOr: "&", ast.Mod: "//"}


def _offsets(src_bytes: bytes) -> List[int]:
    offs, pos = [0], 0
    for line in src_bytes.split(b"\n"):
        pos += len(line) + 1
        offs.append(pos)
    return offs


def _span(node: ast.AST, offs: List[int]) -> Tuple[int, int]:
    return offs[node.lineno - 1] + node.col_offset, offs[node.end_lineno - 1] + node.end_col_offset


def _skip_func(fn: ast.AST) -> bool:
    return False


def mutants_of(rel: str, src: str) -> Iterator[Dict]:
    b = src.encode("utf-8")
    offs = _offsets(b)
    tree = ast.parse(src)
    funcs = [n for n in ast.walk(tree) if isinstance(n, (ast.FunctionDef, ast.AsyncFunctionDef))]
    seen = set()
    for fn in funcs:
        # qualified name
        qn = fn.name
        for c in ast.walk(tree):
            if isinstance(c, ast.ClassDef) and fn in c.body:
                qn = f"{c.name}.{fn.name}"
        doc = ast.get_docstring(fn, clean=False)
        for node in ast.walk(fn):
            if id(node) in seen:
                continue
            seen.add(id(node))
            if isinstance(node, (ast.FunctionDef, ast.AsyncFunctionDef)) and node is not fn:
                continue
            reps: List[Tuple[ast.AST, str, str]] = []   # (node to replace, new text, description)
            if isinstance(node, ast.Compare) and len(node.ops) == 1 and type(node.ops[0]) in CMP:
                l = ast.get_source_segment(src, node.left)
                r = ast.get_source_segment(src, node.comparators[0])
                if l and r:
                    reps.append((node, f"{l} {CMP[type(node.ops[0])]} {r}", f"cmp {type(node.ops[0]).__name__}->{CMP[type(node.ops[0])]}"))
            elif isinstance(node, ast.BoolOp) and len(node.values) == 2:
                a_, b_ = (ast.get_source_segment(src, v) for v in node.values)
                if a_ and b_:
                    op = "or" if isinstance(node.op, ast.And) else "and"
                    reps.append((node, f"({a_}) {op} ({b_})", f"boolop->{op}"))
                    reps.append((node, f"{a_}", "boolop drop right"))
                    reps.append((node, f"{b_}", "boolop drop left"))
            elif isinstance(node, ast.UnaryOp) and isinstance(node.op, ast.Not):
                o = ast.get_source_segment(src, node.operand)
                if o:
                    reps.append((node, f"({o})", "drop not"))
            elif isinstance(node, ast.BinOp) and type(node.op) in BIN and not (isinstance(node.left, ast.Constant) and isinstance(node.left.value, (str, bytes))):
                l = ast.get_source_segment(src, node.left)
                r = ast.get_source_segment(src, node.right)
                if l and r and not (isinstance(node.op, ast.Mod) and isinstance(node.left, ast.Constant)):
                    reps.append((node, f"({l}) {BIN[type(node.op)]} ({r})", f"binop {type(node.op).__name__}->{BIN[type(node.op)]}"))
            elif isinstance(node, ast.Constant) and isinstance(node.value, bool):
                reps.append((node, str(not node.value), f"const {node.value}->{not node.value}"))
            elif isinstance(node, ast.Constant) and isinstance(node.value, int) and not isinstance(node.value, bool) and 0 <= node.value <= 64:
                reps.append((node, str(node.value + 1), f"const {node.value}->{node.value + 1}"))
                if node.value > 0:
                    reps.append((node, str(node.value - 1), f"const {node.value}->{node.value - 1}"))
            elif isinstance(node, ast.If):
                t = ast.get_source_segment(src, node.test)
                if t:
                    reps.append((node.test, f"not ({t})", "negate if"))
            elif isinstance(node, ast.While) and not (isinstance(node.test, ast.Constant)):
                pass
            elif isinstance(node, ast.Call) and node.keywords:
                # drop one keyword argument
                for k in node.keywords:
                    if k.arg is None:
                        continue
                    seg = ast.get_source_segment(src, node)
                    kseg = ast.get_source_segment(src, k.value)
                    if not seg or not kseg:
                        continue
                    new = ast.unparse(ast.Call(func=node.func, args=node.args, keywords=[x for x in node.keywords if x is not k]))
                    reps.append((node, new, f"drop kwarg {k.arg}"))
            if isinstance(node, ast.stmt) and not isinstance(node, (ast.FunctionDef, ast.ClassDef, ast.If, ast.For, ast.While, ast.Try, ast.With, ast.Import, ast.ImportFrom, ast.Global, ast.Nonlocal, ast.Pass)):
                if isinstance(node, ast.Expr) and isinstance(node.value, ast.Constant):
                    continue  # docstring
                if isinstance(node, ast.Return) and node.value is None:
                    pass
                # statement deletion (replace by pass); never the only statement problem since pass is a statement
                if isinstance(node, ast.AnnAssign) and node.value is None:
                    continue
                reps.append((node, "pass", f"delete {type(node).__name__}"))
            for target, new, desc in reps:
                s0, s1 = _span(target, offs)
                mutated = (b[:s0] + new.encode("utf-8") + b[s1:]).decode("utf-8")
                if mutated == src:
                    continue
                try:
                    compile(mutated, rel, "exec")
                except SyntaxError:
                    continue
                old_txt = b[s0:s1].decode("utf-8")
                yield {"file": rel, "func": qn, "line": target.lineno, "desc": desc, "old": old_txt[:80], "new": new[:80], "span": [s0, s1], "newfull": new, "oldfull": old_txt}


def analyse(m: Dict, repo: str) -> Dict:
    """all 20 rule sets on the mutant, one parsed program; nothing of the package is executed."""
    import importlib
    from .report import Ctx, load_known
    from .model import AnalysisError
    from . import cfg as _cfg, model as _model
    src = open(os.path.join(repo, m["file"]), encoding="utf-8").read().encode("utf-8")
    if "oldfull" in m and src[m["span"][0]:m["span"][1]].decode("utf-8", "replace") != m["oldfull"]:
        return {**{k: m[k] for k in ("file", "func", "line", "desc", "old", "new")}, "fired": {}, "errors": {"*": "stale: the source changed since the mutant was generated"}}
    mutated = (src[:m["span"][0]] + m["newfull"].encode("utf-8") + src[m["span"][1]:]).decode("utf-8")
    overrides = {m["file"]: mutated}
    known = {(k["property"], k["key"]) for k in load_known().get("known", [])}
    fired: Dict[str, List[str]] = {}
    errors: Dict[str, str] = {}
    base = None
    try:
        base = Ctx("C01", "quick", repo, overrides, quiet=True)
    except AnalysisError as e:
        return {**{k: m[k] for k in ("file", "func", "line", "desc", "old", "new")}, "fired": {}, "errors": {"*": str(e)[:160]}}
    except Exception as e:  # noqa
        return {**{k: m[k] for k in ("file", "func", "line", "desc", "old", "new")}, "fired": {}, "errors": {"*": f"INTERNAL {type(e).__name__}: {e}"[:160]}}
    for prop in PROPS:
        mod = importlib.import_module(f"sa.rules.{prop.lower()}")
        try:
            ctx = Ctx(prop, "quick", repo, overrides, quiet=True, share=base)
            mod.run(ctx)
            new = sorted({f.rule for f in ctx.findings if (prop, f.key) not in known})
            if new:
                fired[prop] = new
        except AnalysisError as e:
            errors[prop] = str(e)[:160]
        except Exception as e:  # noqa
            errors[prop] = f"INTERNAL {type(e).__name__}: {e}"[:160]
    _cfg._cache.clear()
    _model._walk_cache.clear()
    return {**{k: m[k] for k in ("file", "func", "line", "desc", "old", "new", "span", "newfull", "oldfull")}, "fired": fired, "errors": errors}


def _job(args):
    m, repo = args
    try:
        return analyse(m, repo)
    except Exception as e:  # noqa
        return {**{k: m[k] for k in ("file", "func", "line", "desc", "old", "new")}, "fired": {}, "errors": {"*": f"CRASH {type(e).__name__}: {e}"[:160]}}


def run_tests(m: Dict, repo: str, timeout: int = 900) -> str:
    """copy the working tree, apply the mutant, run the suite single-process (EXECUTES the repository's tests; triage aid only)."""
    tmp = tempfile.mkdtemp(prefix="verif_mut_")
    try:
        subprocess.run(["git", "-C", repo, "worktree", "add", "-q", "--detach", os.path.join(tmp, "wt"), "HEAD"], check=True, capture_output=True)
        wt = os.path.join(tmp, "wt")
        p = os.path.join(wt, m["file"])
        src = open(p, encoding="utf-8").read().encode("utf-8")
        if "oldfull" in m and src[m["span"][0]:m["span"][1]].decode("utf-8", "replace") != m["oldfull"]:
            return "stale: the source changed since the sweep"
        open(p, "w", encoding="utf-8").write((src[:m["span"][0]] + m["newfull"].encode("utf-8") + src[m["span"][1]:]).decode("utf-8"))
        r = subprocess.run(["/venv/bin/python", "-m", "pytest", "-q", "-x", "-p", "no:cacheprovider", "--timeout=300", "-n", "2"], cwd=wt, capture_output=True, text=True, timeout=timeout)
        tail = [l for l in r.stdout.splitlines() if "passed" in l or "failed" in l or "error" in l]
        return "pass" if r.returncode == 0 else ("fail: " + (tail[-1] if tail else str(r.returncode)))[:120]
    except subprocess.TimeoutExpired:
        return "fail: timeout"
    finally:
        subprocess.run(["git", "-C", repo, "worktree", "remove", "--force", os.path.join(tmp, "wt")], capture_output=True)
        shutil.rmtree(tmp, ignore_errors=True)


def _tjob(args):
    m, repo = args
    return {**m, "tests": run_tests(m, repo)}


def main(argv: List[str]) -> int:
    import argparse
    ap = argparse.ArgumentParser(prog="check mutate")
    ap.add_argument("--repo", default="/repo")
    ap.add_argument("--files", nargs="*", default=TARGETS)
    ap.add_argument("--funcs", nargs="*", default=None, help="only these qualified function names")
    ap.add_argument("--out", default="/verif/out/mutation")
    ap.add_argument("--jobs", type=int, default=12)
    ap.add_argument("--limit", type=int, default=0)
    ap.add_argument("--tests", action="store_true", help="run the test suite on the survivors of an earlier sweep (reads <out>/survivors.jsonl)")
    a = ap.parse_args(argv)
    os.makedirs(a.out, exist_ok=True)
    if a.tests:
        surv = [json.loads(l) for l in open(os.path.join(a.out, "survivors.jsonl"))]
        with ProcessPoolExecutor(max_workers=max(1, a.jobs // 2)) as ex, open(os.path.join(a.out, "survivors_tested.jsonl"), "w") as fh:
            for r in ex.map(_tjob, [(m, a.repo) for m in surv]):
                fh.write(json.dumps(r) + "\n")
                fh.flush()
        res = [json.loads(l) for l in open(os.path.join(a.out, "survivors_tested.jsonl"))]
        print(f"survivors: {len(res)}; pass the suite: {sum(1 for r in res if r['tests'] == 'pass')}")
        return 0
    muts: List[Dict] = []
    for rel in a.files:
        src = open(os.path.join(a.repo, rel), encoding="utf-8").read()
        for m in mutants_of(rel, src):
            if a.funcs and m["func"] not in a.funcs:
                continue
            muts.append(m)
    if a.limit:
        import random
        random.Random(1).shuffle(muts)
        muts = muts[:a.limit]
    print(f"{len(muts)} mutants")
    n = fired = err = 0
    with ProcessPoolExecutor(max_workers=a.jobs) as ex, open(os.path.join(a.out, "all.jsonl"), "w") as fh, open(os.path.join(a.out, "survivors.jsonl"), "w") as sv:
        for r in ex.map(_job, [(m, a.repo) for m in muts], chunksize=2):
            n += 1
            fh.write(json.dumps({k: v for k, v in r.items() if k not in ("newfull",)}) + "\n")
            if r["fired"]:
                fired += 1
            elif r["errors"]:
                err += 1
            else:
                sv.write(json.dumps(r) + "\n")
            if n % 100 == 0:
                print(f"  {n}/{len(muts)} fired={fired} analysis-error-only={err} silent={n - fired - err}", flush=True)
    print(f"mutants={n} noticed-by-a-rule={fired} analysis-error-only={err} silent={n - fired - err}")
    return 0


if __name__ == "__main__":
    sys.exit(main(sys.argv[1:]))


# ------------------------------------------------------------------------------------------- sensitivity sample for the thorough tier
def anchor_functions(prop: str, repo: str) -> List[Tuple[str, str]]:
    """(relpath, qualified function name) of the functions that overlap the line ranges named in the property's anchors."""
    import re
    props = {}
    with open("/verif/properties.jsonl") as fh:
        for line in fh:
            d = json.loads(line)
            props[d["id"]] = d
    out = []
    for mech in props[prop].get("anchors", {}).get("mechanism", []):
        for m in re.finditer(r"(py7zr/[a-z_0-9]+\.py):([0-9,\- ]+)", mech.get("where", "")):
            rel, spans = m.group(1), m.group(2)
            path = os.path.join(repo, rel)
            if not os.path.exists(path):
                continue
            tree = ast.parse(open(path, encoding="utf-8").read())
            ranges = []
            for part in spans.split(","):
                part = part.strip()
                if not part:
                    continue
                a, _, b = part.partition("-")
                try:
                    ranges.append((int(a), int(b or a)))
                except ValueError:
                    pass
            for node in ast.walk(tree):
                if isinstance(node, ast.ClassDef):
                    for fn in node.body:
                        if isinstance(fn, ast.FunctionDef) and any(fn.lineno <= hi and fn.end_lineno >= lo for lo, hi in ranges):
                            out.append((rel, f"{node.name}.{fn.name}"))
            for fn in tree.body:
                if isinstance(fn, ast.FunctionDef) and any(fn.lineno <= hi and fn.end_lineno >= lo for lo, hi in ranges):
                    out.append((rel, fn.name))
    return sorted(set(out))


def _one_job(args):
    m, repo, prop = args
    import importlib
    from .report import Ctx, load_known
    from .model import AnalysisError
    src = open(os.path.join(repo, m["file"]), encoding="utf-8").read().encode("utf-8")
    mutated = (src[:m["span"][0]] + m["newfull"].encode("utf-8") + src[m["span"][1]:]).decode("utf-8")
    known = {(k["property"], k["key"]) for k in load_known().get("known", [])}
    try:
        ctx = Ctx(prop, "quick", repo, {m["file"]: mutated}, quiet=True)
        importlib.import_module(f"sa.rules.{prop.lower()}").run(ctx)
        return "noticed" if any((prop, f.key) not in known for f in ctx.findings) else "silent"
    except AnalysisError:
        return "analysis-error"
    except Exception:  # noqa
        return "analysis-error"


def sample_for_property(prop: str, repo: str, n: int = 64, jobs: int = 16) -> Dict:
    """how many of a deterministic sample of syntactic mutants of the property's anchor functions does the property's own check notice?
    (informational: a silent mutant may be equivalent, killed by the test suite, or outside the property)"""
    import random
    funcs = anchor_functions(prop, repo)
    by_file: Dict[str, set] = {}
    for rel, qn in funcs:
        by_file.setdefault(rel, set()).add(qn)
    muts = []
    for rel, names in sorted(by_file.items()):
        src = open(os.path.join(repo, rel), encoding="utf-8").read()
        muts += [m for m in mutants_of(rel, src) if m["func"] in names]
    random.Random(prop).shuffle(muts)
    muts = muts[:n]
    if not muts:
        return {"anchor_functions": len(funcs), "mutants": 0}
    with ProcessPoolExecutor(max_workers=min(jobs, len(muts))) as ex:
        res = list(ex.map(_one_job, [(m, repo, prop) for m in muts]))
    return {"anchor_functions": len(funcs), "mutants": len(muts), "noticed": res.count("noticed"), "analysis_error": res.count("analysis-error"),
            "silent": res.count("silent")}
