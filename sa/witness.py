"""Mutation witnesses: seeded breakages applied to the source IN MEMORY; each must make the named rule fire.

A witness = (property, name, relpath, old text, new text, expected rule prefix).  The replacement is textual inside one file;
if the old text is no longer present (the tree was edited) the witness is reported as n/a and never affects an exit status.
Seeded red-team patches under /verif/seeded/<id>/patch.diff are applied the same way (to a scratch copy of the package)."""
from __future__ import annotations

import json
import os
import shutil
import subprocess
import sys
import tempfile
from concurrent.futures import ProcessPoolExecutor
from typing import Dict, List, Optional

from .model import AnalysisError
from .report import VERIF

from .witness_table import WITNESSES  # noqa: E402


def _run_overrides(prop: str, repo: str, overrides: Dict[str, str]) -> Dict:
    from .main import run_property
    try:
        rc, ctx = run_property(prop, "quick", repo, overrides=overrides, quiet=True, write_evidence=False)
        from .report import load_known
        known = {(k["property"], k["key"]) for k in load_known().get("known", [])}
        new = [f for f in ctx.findings if (prop, f.key) not in known]
        return {"rc": rc, "rules": sorted({f.rule for f in new}), "n": len(new), "first": (new[0].message[:160] if new else "")}
    except AnalysisError as e:
        return {"rc": 2, "rules": [], "n": 0, "first": f"ANALYSIS-ERROR {e}"}
    except Exception as e:  # noqa
        return {"rc": 2, "rules": [], "n": 0, "first": f"INTERNAL {type(e).__name__}: {e}"}


def run_witness(w: Dict, repo: str) -> Dict:
    path = os.path.join(repo, w["file"])
    src = open(path, encoding="utf-8").read()
    if src.count(w["old"]) != 1:
        return {"name": w["name"], "property": w["property"], "expect": w["expect"], "status": "n/a", "detail": f"anchor text occurs {src.count(w['old'])} times"}
    mutated = src.replace(w["old"], w["new"])
    try:
        compile(mutated, path, "exec")
    except SyntaxError as e:
        return {"name": w["name"], "property": w["property"], "expect": w["expect"], "status": "n/a", "detail": f"mutant does not compile: {e}"}
    r = _run_overrides(w["property"], repo, {w["file"]: mutated})
    hit = any(x.startswith(w["expect"]) for x in r["rules"])
    status = "fired" if hit else ("fired-other" if r["n"] else ("error" if r["rc"] == 2 else "missed"))
    return {"name": w["name"], "property": w["property"], "expect": w["expect"], "status": status, "rules": r["rules"], "detail": r["first"]}


def run_seeded(sid: str, repo: str) -> Dict:
    d = os.path.join(VERIF, "seeded", sid)
    meta = json.load(open(os.path.join(d, "meta.json")))
    prop = meta["property"]
    tmp = tempfile.mkdtemp(prefix="verif_seed_")
    try:
        shutil.copytree(os.path.join(repo, "py7zr"), os.path.join(tmp, "py7zr"))
        p = subprocess.run(["patch", "-p1", "-s", "--no-backup-if-mismatch", "-i", os.path.join(d, "patch.diff")], cwd=tmp, capture_output=True, text=True)
        if p.returncode != 0:
            return {"name": f"seeded/{sid}", "property": prop, "expect": meta.get("caught_by", ""), "status": "n/a", "detail": "patch does not apply to the current tree"}
        overrides = {}
        for fn in os.listdir(os.path.join(tmp, "py7zr")):
            if fn.endswith(".py"):
                a = open(os.path.join(tmp, "py7zr", fn), encoding="utf-8").read()
                b = open(os.path.join(repo, "py7zr", fn), encoding="utf-8").read()
                if a != b:
                    overrides[f"py7zr/{fn}"] = a
        props = meta.get("check_properties", [prop])
        rules, first, rc = [], "", 0
        for pr in props:
            r = _run_overrides(pr, repo, overrides)
            rules += [f"{pr}:{x}" for x in r["rules"]]
            first = first or r["first"]
            rc = max(rc, r["rc"])
        exp = meta.get("caught_by", "")
        status = "fired" if rules else ("error" if rc == 2 else "missed")
        if meta.get("expected_miss") and not rules:
            status = "expected-miss"
        return {"name": f"seeded/{sid}", "property": prop, "expect": exp, "status": status, "rules": rules, "detail": first}
    finally:
        shutil.rmtree(tmp, ignore_errors=True)


def _patched_overrides(patch: str, repo: str):
    tmp = tempfile.mkdtemp(prefix="verif_patch_")
    try:
        shutil.copytree(os.path.join(repo, "py7zr"), os.path.join(tmp, "py7zr"))
        p = subprocess.run(["patch", "-p1", "-s", "--no-backup-if-mismatch", "-i", patch], cwd=tmp, capture_output=True, text=True)
        if p.returncode != 0:
            return None
        overrides = {}
        for fn in os.listdir(os.path.join(tmp, "py7zr")):
            if fn.endswith(".py"):
                a = open(os.path.join(tmp, "py7zr", fn), encoding="utf-8").read()
                b = open(os.path.join(repo, "py7zr", fn), encoding="utf-8").read()
                if a != b:
                    overrides[f"py7zr/{fn}"] = a
        return overrides
    finally:
        shutil.rmtree(tmp, ignore_errors=True)


def run_refactor(rid: str, prop: str, repo: str) -> Dict:
    """a behaviour-preserving refactoring: the check of `prop` must stay silent (no new violation, no analysis error)."""
    d = os.path.join(VERIF, "refactors", rid)
    ov = _patched_overrides(os.path.join(d, "patch.diff"), repo)
    if ov is None:
        return {"name": f"refactor/{rid}", "property": prop, "expect": "silence", "status": "n/a", "detail": "patch does not apply to the current tree"}
    r = _run_overrides(prop, repo, ov)
    if r["rc"] == 0 and r["n"] == 0:
        return {"name": f"refactor/{rid}", "property": prop, "expect": "silence", "status": "silent", "rules": [], "detail": ""}
    return {"name": f"refactor/{rid}", "property": prop, "expect": "silence", "status": "ALARM", "rules": r["rules"], "detail": r["first"]}


def run_for_property(prop: str, repo: str, jobs: int = 16) -> List[Dict]:
    """mutation witnesses + seeded patches of `prop` (must fire) and all behaviour-preserving refactorings (must stay silent), in parallel."""
    tasks = [("w", i, repo) for i, w in enumerate(WITNESSES) if w["property"] == prop]
    sd = os.path.join(VERIF, "seeded")
    if os.path.isdir(sd):
        for sid in sorted(os.listdir(sd)):
            mp = os.path.join(sd, sid, "meta.json")
            if os.path.exists(mp) and json.load(open(mp)).get("property") == prop:
                tasks.append(("s", sid, repo))
    rd = os.path.join(VERIF, "refactors")
    if os.path.isdir(rd):
        tasks += [("r", (rid, prop), repo) for rid in sorted(os.listdir(rd)) if os.path.exists(os.path.join(rd, rid, "patch.diff"))]
    if not tasks:
        return []
    with ProcessPoolExecutor(max_workers=min(jobs, len(tasks))) as ex:
        return list(ex.map(_job, tasks))


def _job(args):
    kind, key, repo = args
    if kind == "w":
        return run_witness(WITNESSES[key], repo)
    if kind == "r":
        return run_refactor(key[0], key[1], repo)
    return run_seeded(key, repo)


def selftest(repo: str, jobs: int = 16) -> int:
    tasks = [("w", i, repo) for i in range(len(WITNESSES))]
    sd = os.path.join(VERIF, "seeded")
    if os.path.isdir(sd):
        tasks += [("s", sid, repo) for sid in sorted(os.listdir(sd)) if os.path.exists(os.path.join(sd, sid, "meta.json"))]
    rd = os.path.join(VERIF, "refactors")
    props = [f"C{i:02d}" for i in range(1, 21)]
    if os.path.isdir(rd):
        tasks += [("r", (rid, p), repo) for rid in sorted(os.listdir(rd)) if os.path.exists(os.path.join(rd, rid, "patch.diff")) for p in props]
    with ProcessPoolExecutor(max_workers=jobs) as ex:
        res = list(ex.map(_job, tasks, chunksize=4))
    bad = 0
    alarms = [r for r in res if r["status"] == "ALARM"]
    n_ref = sum(1 for r in res if r["name"].startswith("refactor/"))
    n_silent = sum(1 for r in res if r["status"] == "silent")
    for r in alarms:
        print(f"ALARM {r['property']} {r['name']}: a behaviour-preserving refactoring raises {r['rules']} - {r['detail'][:140]}")
        bad += 1
    print(f"refactorings: {n_silent} silent of {n_ref} (refactoring x property) runs, {len(alarms)} false alarms")
    res = [r for r in res if not r["name"].startswith("refactor/")]
    for r in res:
        mark = {"fired": "ok  ", "n/a": "n/a ", "expected-miss": "miss*", "fired-other": "ok? "}.get(r["status"], "FAIL")
        print(f"{mark} {r['property']} {r['name']}: expect {r['expect']} got {r.get('rules', [])} {('- ' + r['detail'][:110]) if r['status'] not in ('fired',) else ''}")
        if r["status"] in ("missed", "error"):
            bad += 1
    print(f"witnesses: {sum(1 for r in res if r['status'] in ('fired', 'fired-other'))} fired, {sum(1 for r in res if r['status'] == 'n/a')} n/a, "
          f"{sum(1 for r in res if r['status'] == 'expected-miss')} expected misses, {bad} missed/error of {len(res)}")
    return 1 if bad else 0
