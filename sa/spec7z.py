"""Frozen 7z format tables (from the 7-Zip format description; cross-read against /repo/docs/archive_format.rst)."""

PROPERTY_IDS = {
    "END": 0x00, "HEADER": 0x01, "ARCHIVE_PROPERTIES": 0x02, "ADDITIONAL_STREAMS_INFO": 0x03, "MAIN_STREAMS_INFO": 0x04,
    "FILES_INFO": 0x05, "PACK_INFO": 0x06, "UNPACK_INFO": 0x07, "SUBSTREAMS_INFO": 0x08, "SIZE": 0x09, "CRC": 0x0A,
    "FOLDER": 0x0B, "CODERS_UNPACK_SIZE": 0x0C, "NUM_UNPACK_STREAM": 0x0D, "EMPTY_STREAM": 0x0E, "EMPTY_FILE": 0x0F,
    "ANTI": 0x10, "NAME": 0x11, "CREATION_TIME": 0x12, "LAST_ACCESS_TIME": 0x13, "LAST_WRITE_TIME": 0x14,
    "ATTRIBUTES": 0x15, "COMMENT": 0x16, "ENCODED_HEADER": 0x17, "START_POS": 0x18, "DUMMY": 0x19,
}

# NUMBER: first byte with k leading one bits followed by a zero bit -> k extra bytes; 0xFF -> 8 extra bytes
NUMBER_CLASSES = [((0xFF ^ (0x80 >> k)), k) for k in range(8)]  # (largest first byte of the class, extra bytes)
assert NUMBER_CLASSES[0] == (0x7F, 0) and NUMBER_CLASSES[7] == (0xFE, 7)


def number_first_byte_class(b: int) -> int:
    k = 0
    while k < 8 and b & (0x80 >> k):
        k += 1
    return k


MAGIC = bytes.fromhex("377abcaf271c")
SIGNATURE_HEADER_LAYOUT = [("magic", 6), ("major", 1), ("minor", 1), ("startheadercrc", 4), ("nextheaderofs", 8),
                           ("nextheadersize", 8), ("nextheadercrc", 4)]
assert sum(w for _, w in SIGNATURE_HEADER_LAYOUT) == 32

# grammar: which property ids may open a sub-section / record inside each section reader
GRAMMAR = {
    "Header": ["MAIN_STREAMS_INFO", "FILES_INFO", "END"],  # ARCHIVE_PROPERTIES / ADDITIONAL_STREAMS_INFO unsupported -> must raise
    "StreamsInfo": ["PACK_INFO", "UNPACK_INFO", "SUBSTREAMS_INFO", "END"],
    "PackInfo": ["SIZE", "CRC", "END"],
    "UnpackInfo": ["FOLDER", "CODERS_UNPACK_SIZE", "CRC", "END"],
    "SubstreamsInfo": ["NUM_UNPACK_STREAM", "SIZE", "CRC", "END"],
    "FilesInfo": ["END", "DUMMY", "EMPTY_STREAM", "EMPTY_FILE", "NAME", "CREATION_TIME", "LAST_ACCESS_TIME", "LAST_WRITE_TIME",
                  "ATTRIBUTES", "START_POS"],  # ANTI: unsupported by py7zr -> must raise, not be skipped
}


def _subsets_in_order(opt, tail):
    out = [[]]
    for o in opt:
        out = out + [w + [o] for w in out]
    # keep format order
    words = []
    for w in out:
        words.append(sorted(w, key=opt.index) + tail)
    return sorted(words)


# the property-id words each sequential section reader must accept (exactly): optional records in format order, then kEnd
SECTION_WORDS = {
    "archiveinfo:PackInfo._read": [["END"], ["SIZE", "END"], ["SIZE", "CRC", "END"]],
    "archiveinfo:SubstreamsInfo._read": _subsets_in_order(["NUM_UNPACK_STREAM", "SIZE", "CRC"], ["END"]),
    "archiveinfo:StreamsInfo.read": _subsets_in_order(["PACK_INFO", "UNPACK_INFO", "SUBSTREAMS_INFO"], ["END"]),
    "archiveinfo:UnpackInfo._read": [["FOLDER"]],
    "archiveinfo:UnpackInfo._retrieve_coders_info": [["CODERS_UNPACK_SIZE", "END"], ["CODERS_UNPACK_SIZE", "CRC", "END"]],
}


# what a section WRITER may emit: (section id, optional records in format order or None for 'any order, each at most once', closing id)
WRITER_WORDS = {
    "PackInfo": ("PACK_INFO", ["SIZE", "CRC"], "END"),
    "UnpackInfo": ("UNPACK_INFO", ["FOLDER", "CODERS_UNPACK_SIZE", "CRC"], "END"),
    "SubstreamsInfo": ("SUBSTREAMS_INFO", ["NUM_UNPACK_STREAM", "SIZE", "CRC"], "END"),
    "FilesInfo": ("FILES_INFO", None, "END"),
}
WRITER_MANDATORY = {"PackInfo": ["SIZE"], "UnpackInfo": ["FOLDER", "CODERS_UNPACK_SIZE"], "SubstreamsInfo": [], "FilesInfo": []}
FILESINFO_RECORDS = ["EMPTY_STREAM", "EMPTY_FILE", "ANTI", "NAME", "CREATION_TIME", "LAST_ACCESS_TIME", "LAST_WRITE_TIME", "ATTRIBUTES", "START_POS", "DUMMY", "COMMENT"]
