"""C08 — append preserves history."""
from __future__ import annotations

import ast
from typing import Dict, List, Set

from ..cfg import cfg_of
from ..model import AnalysisError, Func, attr_tail, dotted, norm, walk
from ..report import Ctx
from .. import q
from . import shared

EXPLANATION = (
    "Lossless re-serialisation and bookkeeping for append sessions: every per-file key and every section attribute that the "
    "readers fill is consumed by the corresponding writer (frozen, reasoned exceptions aside); the per-substream lists that "
    "the append path extends are materialised by the reader on every path (no None left behind); record sizes are right on the "
    "partially-defined paths that only a re-serialised third-party header takes (length domain, R07.1); the append position is "
    "afterheader + packpos + sum(packsizes) and the worker starts there with current_file_index = number of existing members; "
    "the append arm of Header.initialize adds the folder, the folder count and the substream counter together; per-folder "
    "member lists carry the members' own ids. Not decided: equality of member maps over all histories."
)
TRUSTED = ["CPython ast parser", "sa.lendom", "sa.cfg paths"]

NOT_REEMITTED = {
    "creationtime": "outside the property's observation (names, bytes, mtime, attributes); py7zr never writes ctime",
    "lastaccesstime": "outside the property's observation; py7zr never writes atime",
    "startpos": "kStartPos is obsolete and not written by any current writer",
}


def r08_1(ctx: Ctx) -> None:
    fi = ctx.prog.cls("FilesInfo", "archiveinfo")
    read_keys: Set[str] = set()
    for name, m in fi.methods.items():
        if not name.startswith("_read"):
            continue
        for n in walk(m.node):
            if isinstance(n, ast.Assign):
                for t in n.targets:
                    if isinstance(t, ast.Subscript) and isinstance(t.slice, ast.Constant) and isinstance(t.slice.value, str):
                        read_keys.add(t.slice.value)
                    if isinstance(t, ast.Subscript) and isinstance(t.slice, ast.Name) and t.slice.id in m.params:
                        # key given by a parameter: collect the constants passed at the call sites
                        for caller in fi.methods.values():
                            for c in q.calls(caller):
                                if attr_tail(c) == m.name:
                                    for a in c.args:
                                        if isinstance(a, ast.Constant) and isinstance(a.value, str):
                                            read_keys.add(a.value)
            if isinstance(n, ast.Dict):
                for k in n.keys:
                    if isinstance(k, ast.Constant) and isinstance(k.value, str):
                        read_keys.add(k.value)
    ctx.floor("R08.1", len(read_keys), 6, "per-file keys filled by the FilesInfo readers")
    write_keys: Set[str] = set()
    # only writers that FilesInfo.write actually reaches
    reach = {"write"}
    todo = ["write"]
    while todo:
        cur = fi.methods.get(todo.pop())
        if cur is None:
            continue
        for c in q.calls(cur):
            if isinstance(c.func, ast.Attribute) and isinstance(c.func.value, ast.Name) and c.func.value.id == "self" and c.func.attr in fi.methods and c.func.attr not in reach:
                reach.add(c.func.attr)
                todo.append(c.func.attr)
    for name, m in fi.methods.items():
        if name not in reach:
            continue
        for n in walk(m.node):
            if isinstance(n, ast.Subscript) and isinstance(n.ctx, ast.Load) and isinstance(n.slice, ast.Constant) and isinstance(n.slice.value, str):
                write_keys.add(n.slice.value)
            if isinstance(n, ast.Call) and attr_tail(n) == "get" and n.args and isinstance(n.args[0], ast.Constant):
                write_keys.add(n.args[0].value)
        # keys passed by parameter (e.g. _write_times(file, PROPERTY.LAST_WRITE_TIME, "lastwritetime"))
        for c in q.calls(m):
            if attr_tail(c).startswith("_write"):
                for a in c.args:
                    if isinstance(a, ast.Constant) and isinstance(a.value, str):
                        write_keys.add(a.value)
    for k in sorted(read_keys):
        if k in NOT_REEMITTED:
            ctx.ok("R08.1", f"FilesInfo key '{k}' deliberately not re-emitted: {NOT_REEMITTED[k]}")
            continue
        ctx.check(k in write_keys, "R08.1", "archiveinfo:FilesInfo", None, f"per-file key '{k}' is re-serialised",
                  f"the reader fills per-file key '{k}' but FilesInfo.write never emits it: appending to an archive drops this property of the existing members", construct=f"FilesInfo key {k}")
    # section attributes
    pairs = {"PackInfo": ["_read"], "SubstreamsInfo": ["_read"], "Folder": ["_read"]}
    derived = {"PackInfo": {"packpositions", "enable_digests"}, "Folder": set(), "SubstreamsInfo": set()}
    for cn, readers in pairs.items():
        c = ctx.prog.cls(cn, "archiveinfo")
        filled: Set[str] = set()
        for rn in readers:
            m = c.methods[rn]
            for n in walk(m.node):
                if isinstance(n, (ast.Assign, ast.AnnAssign, ast.AugAssign)):
                    tg = n.targets if isinstance(n, ast.Assign) else [n.target]
                    for t in tg:
                        if isinstance(t, ast.Attribute) and isinstance(t.value, ast.Name) and t.value.id == "self":
                            filled.add(t.attr)
                if isinstance(n, ast.Call) and attr_tail(n) == "append" and isinstance(n.func.value, ast.Attribute) and isinstance(n.func.value.value, ast.Name) and n.func.value.value.id == "self":
                    filled.add(n.func.value.attr)
        w = c.methods["write"]
        used = {n.attr for n in walk(w.node) if isinstance(n, ast.Attribute) and isinstance(n.value, ast.Name) and n.value.id == "self"}
        for a in sorted(filled - derived[cn]):
            ctx.check(a in used, "R08.1", w, w.node, f"{cn}.{a} is re-serialised", f"{cn}._read fills '{a}' but {cn}.write never reads it: the value is lost when an existing archive is re-serialised on append",
                      construct=f"{cn}.{a} not re-serialised")


def r08_6(ctx: Ctx) -> None:
    """lists the append path extends are materialised by the reader on every path."""
    f = ctx.prog.func("archiveinfo", "SubstreamsInfo._read")
    cfg = cfg_of(f.node)
    for attr in ("unpacksizes", "num_unpackstreams_folders"):
        sets = [n for n in walk(f.node) if isinstance(n, ast.Assign) and any(norm(t) == f"self.{attr}" for t in n.targets)
                and not (isinstance(n.value, ast.Constant) and n.value.value is None)]
        bypass = cfg.reaches(cfg.entry, cfg.exit, avoid=[q.node_for(f, s) for s in sets]) if sets else True
        ctx.check(not bypass, "R08.6", f, f.node, f"SubstreamsInfo.{attr} is a list after every successful parse",
                  f"SubstreamsInfo._read can finish with {attr} = None (no Size property): the append path then starts a fresh list and the sizes of the new members are "
                  "written at the wrong positions (existing and appended members exchange sizes; CrcError on extraction)", construct=f"SubstreamsInfo.{attr} definite assignment")
    # _after_write appends at the end of the existing lists (never re-initialises a non-empty list)
    aw = ctx.prog.func("py7zr", "Worker._after_write")
    for n in walk(aw.node):
        if isinstance(n, ast.Assign) and isinstance(n.value, ast.List) and any("substreamsinfo" in norm(t) for t in n.targets):
            facts = [(norm(cd), pol) for cd, pol in q.facts_at(aw, n)]
            ok = any(cd.endswith("is None") and pol and norm(n.targets[0]) in cd for cd, pol in facts)
            ctx.check(ok, "R08.6", aw, n, "a list is initialised only when it is None", "_after_write re-initialises a per-substream list that may already hold the existing members' entries")


def _maybe_none(f: Func, e: ast.AST, depth: int = 3) -> bool:
    for s_ in q.sources_of(f, e, depth=depth):
        if isinstance(s_, ast.Constant) and s_.value is None:
            return True
        if isinstance(s_, ast.BoolOp) and isinstance(s_.op, ast.Or) and isinstance(s_.values[-1], ast.Constant) and s_.values[-1].value is None:
            return True
    return False


def nullable_member_keys(ctx: Ctx) -> Set[str]:
    """keys of the per-member record that _real_get_contents may set to None for an existing member: the key is stored directly from a
    None-able expression, or from a local / tuple component / named field of the same name that the size helper computes as `... or None`."""
    rg = shared.szf(ctx, "_real_get_contents")
    gs = shared.szf(ctx, "_get_fileinfo_sizes")
    noneable_names: Set[str] = set()
    for g in (rg, gs):
        for n in walk(g.node):
            if isinstance(n, ast.Assign) and isinstance(n.targets[0], ast.Name) and _maybe_none(g, n.value, depth=1):
                noneable_names.add(n.targets[0].id)
            if isinstance(n, ast.Call):
                for k in n.keywords:
                    if k.arg and _maybe_none(g, k.value, depth=2):
                        noneable_names.add(k.arg)
    keys: Set[str] = set()
    for n in walk(rg.node):
        if isinstance(n, ast.Assign) and isinstance(n.targets[0], ast.Subscript) and isinstance(n.targets[0].slice, ast.Constant):
            k = n.targets[0].slice.value
            v = n.value
            if _maybe_none(rg, v, depth=1):
                keys.add(k)
            elif isinstance(v, ast.Name) and v.id in noneable_names and v.id == k:
                keys.add(k)
            elif isinstance(v, ast.Attribute) and v.attr in noneable_names and v.attr == k:
                keys.add(k)
    return keys


def r08_7(ctx: Ctx) -> None:
    """append: values of EXISTING members that may be None are not used in arithmetic without a not-None guard."""
    keys = nullable_member_keys(ctx)
    ctx.need("maxsize" in keys, f"nullable member keys not derived ({sorted(keys)})")
    roots = [shared.szf(ctx, n) for n in ("write", "writef", "writestr", "writeall", "close")]
    clo = ctx.res.closure(roots)
    n_sites = 0
    for fq, f in sorted(clo.items()):
        if f.module != "py7zr":
            continue
        for n in walk(f.node):
            tgt = None
            if isinstance(n, ast.AugAssign) and isinstance(n.target, ast.Subscript) and isinstance(n.target.slice, ast.Constant) and n.target.slice.value in keys:
                tgt = n.target
            elif isinstance(n, ast.BinOp):
                for side in (n.left, n.right):
                    if isinstance(side, ast.Subscript) and isinstance(side.slice, ast.Constant) and side.slice.value in keys and isinstance(side.ctx, ast.Load):
                        tgt = side
            if tgt is None:
                continue
            n_sites += 1
            facts = q.facts_at(f, n)
            load = ast.parse(ast.unparse(tgt), mode="eval").body
            ok = q.known_not_none(facts, load)
            for cd, pol in facts:
                t = q.is_none_test(cd)
                if t is not None and (t[1] != pol) and isinstance(t[0], ast.Call) and attr_tail(t[0]) == "get" and norm(t[0].func.value) == norm(tgt.value) \
                        and t[0].args and isinstance(t[0].args[0], ast.Constant) and t[0].args[0].value == tgt.slice.value:
                    ok = True
            ctx.check(ok, "R08.7", f, n, f"{fq}: {norm(tgt)} used in arithmetic under a not-None guard",
                      f"{norm(tgt)} can be None for a member read from the existing archive (non-solid members have no '{tgt.slice.value}'), but `{norm(n)}` uses it in arithmetic "
                      "guarded only by key presence: appending only directories / empty files (or a session whose writes all failed) raises TypeError in close(), after the old header "
                      "has already been overwritten", path=ctx.res.call_path(roots, fq))
    ctx.floor("R08.7", n_sites, 1, "arithmetic on nullable member values in the write closure")


def r08_3(ctx: Ctx, rule: str = "R08.3") -> None:
    f = shared.szf(ctx, "_prepare_append")
    seeks = [c for c in q.calls(f) if attr_tail(c) == "seek"]
    workers = [c for c in q.calls(f) if attr_tail(c) == "Worker"]
    ctx.need(len(seeks) == 1 and len(workers) == 1, "_prepare_append shape not recognised")
    pos = seeks[0].args[0]
    ctx.check(norm(workers[0].args[1]) == norm(pos), rule, f, workers[0], "worker starts at the seek position", "the append worker does not start at the position the handle was moved to")
    # value of pos when the archive has streams
    defs = [n for n in walk(f.node) if isinstance(n, ast.Assign) and norm(n.targets[0]) == norm(pos)]
    ctx.need(bool(defs), "append position definition not found")
    with_streams = [d for d in defs if any(pol and "main_streams is not None" in norm(cd) for cd, pol in q.facts_at(f, d))]
    ctx.need(len(with_streams) >= 1, "append position for archives with streams not found")
    for d in with_streams:
        srcs = q.sources_of(f, d.value, depth=2)
        txt = " ".join(norm(s) for s in srcs)
        has_after = "afterheader" in txt or "_packed_start" in txt
        has_sizes = "packpositions[-1]" in txt or "sum(" in txt and "packsizes" in txt
        has_packpos = ".packpos" in txt.replace("packpositions", "") or "_packed_start" in txt
        if "_packed_start" in txt:
            g = ctx.prog.find_func("py7zr", "SevenZipFile._packed_start")
            has_packpos = g is not None and any(isinstance(n, ast.Attribute) and n.attr == "packpos" for n in walk(g.node))
            has_after = g is not None and any(isinstance(n, ast.Attribute) and n.attr == "afterheader" for n in walk(g.node))
        ctx.check(has_after and has_sizes and has_packpos, rule, f, d, "append position = afterheader + packpos + sum of pack sizes",
                  f"the append position `{norm(d.value)}` lacks {'afterheader ' if not has_after else ''}{'packpos ' if not has_packpos else ''}{'the pack sizes ' if not has_sizes else ''}: "
                  "new data would be written inside the existing packed streams")
    # worker bookkeeping
    wi = ctx.prog.func("py7zr", "Worker.__init__")
    ok = any(isinstance(n, ast.Assign) and norm(n.targets[0]) == "self.current_file_index" and norm(n.value) == "len(self.files)" for n in walk(wi.node))
    ctx.check(ok, rule, wi, wi.node, "next member index = number of existing members", "Worker.current_file_index does not start at len(files)", construct="current_file_index init")
    # the parsed header is reused
    ini = shared.szf(ctx, "__init__")
    cfg = cfg_of(ini.node)
    pa = [c for c in q.calls(ini) if attr_tail(c) == "_prepare_append"]
    rg = [c for c in q.calls(ini) if attr_tail(c) == "_real_get_contents"]
    ok = bool(pa) and any(cfg.dominates(q.node_for(ini, r), q.node_for(ini, pa[0])) for r in rg)
    ctx.check(ok, rule, ini, pa[0] if pa else ini.node, "append parses the existing archive first", "_prepare_append is not preceded by parsing the existing archive", construct="append parse first")


def r08_4(ctx: Ctx) -> None:
    f = ctx.prog.func("archiveinfo", "Header.initialize")
    cfg = cfg_of(f.node)
    fa = [c for c in q.calls(f) if attr_tail(c) == "append" and norm(c.func.value).endswith("unpackinfo.folders")]
    nf = [n for n in walk(f.node) if isinstance(n, ast.AugAssign) and norm(n.target).endswith("unpackinfo.numfolders") and isinstance(n.value, ast.Constant) and n.value.value == 1]
    sc = [c for c in q.calls(f) if attr_tail(c) == "append" and norm(c.func.value).endswith("num_unpackstreams_folders") and isinstance(c.args[0], ast.Constant) and c.args[0].value == 0]
    ctx.check(len(fa) == 1 and len(nf) == 1 and len(sc) == 1, "R08.4", f, f.node, "append arm: folder, folder count and substream counter",
              f"append arm of Header.initialize updates folders x{len(fa)}, numfolders x{len(nf)}, substream counter x{len(sc)} (each must be exactly one)", construct="append arm updates")
    if fa and nf and sc:
        def main_guard(n):
            return sorted((norm(cd), pol) for cd, pol in q.facts_at(f, n) if "main_streams is not None" in norm(cd) or "_initialized" in norm(cd))
        ok = main_guard(fa[0]) == main_guard(nf[0]) == main_guard(sc[0])
        ok = ok and cfg.every_path_to_exit_passes(q.node_for(f, fa[0]), [q.node_for(f, nf[0])])
        ctx.check(ok, "R08.4", f, fa[0], "the three updates happen together", "the folder list, the folder count and the substream counter are not updated under the same conditions")
        # the substream counter may only be skipped when substreamsinfo is None
        facts = [(norm(cd), pol) for cd, pol in q.facts_at(f, sc[0])]
        extra = [cd for cd, pol in facts if "substreamsinfo is not None" not in cd and "main_streams is not None" not in cd and "_initialized" not in cd and "unpackinfo is not None" not in cd]
        ctx.check(not extra, "R08.4", f, sc[0], "substream counter appended unless the section is absent", f"the substream counter is appended only under {extra}")
    # once per session
    ok = any(isinstance(n, ast.Assign) and norm(n.targets[0]) == "self._initialized" and isinstance(n.value, ast.Constant) and n.value.value is True for n in walk(f.node))
    ctx.check(ok, "R08.4", f, f.node, "one new folder per session", "Header.initialize does not mark the header as initialised (a folder per call)", construct="initialize once")
    # _prepare_append keeps the parsed header and installs the new filters/password
    pa = shared.szf(ctx, "_prepare_append")
    ok = any(isinstance(n, ast.Assign) and norm(n.targets[0]) == "self.header.filters" for n in walk(pa.node)) and not any(
        isinstance(n, ast.Assign) and norm(n.targets[0]) == "self.header" for n in walk(pa.node))
    ctx.check(ok, "R08.4", pa, pa.node, "append reuses the parsed header object", "_prepare_append replaces the parsed header (existing members would be dropped)", construct="append header reuse")


def r08_8(ctx: Ctx) -> None:
    """sibling constructors: a section object built WITHOUT parsing (classmethod `obj = cls(); obj.x = ...; return obj`, e.g.
    SubstreamsInfo.from_folders for archives that carry no SubStreamsInfo) defines every field its parsing sibling `_read` defines.
    The append path (Worker._after_write, flush_archive) continues those lists; a field left at None is restarted empty and the
    sizes/digests of the existing members are dropped from the rewritten header."""
    n_sib = 0
    for cq, cls in sorted(ctx.prog.module("archiveinfo").classes.items()):
        if cls.module != "archiveinfo" or "_read" not in cls.methods:
            continue
        rd = cls.methods["_read"]
        rd_fields = set()
        for n in walk(rd.node):
            if isinstance(n, (ast.Assign, ast.AnnAssign)):
                tg = n.targets if isinstance(n, ast.Assign) else [n.target]
                for t in tg:
                    if isinstance(t, ast.Attribute) and isinstance(t.value, ast.Name) and t.value.id == "self":
                        rd_fields.add(t.attr)
            if isinstance(n, ast.Call) and isinstance(n.func, ast.Attribute) and n.func.attr in ("append", "extend") and isinstance(n.func.value, ast.Attribute) \
                    and isinstance(n.func.value.value, ast.Name) and n.func.value.value.id == "self":
                rd_fields.add(n.func.value.attr)
        for mname, m in sorted(cls.methods.items()):
            if mname in ("retrieve", "_read") or not m.params or m.params[0] != "cls":
                continue
            objs = {t.id for n in walk(m.node) if isinstance(n, ast.Assign) and isinstance(n.value, ast.Call) and isinstance(n.value.func, ast.Name)
                    and n.value.func.id == "cls" and not n.value.args for t in n.targets if isinstance(t, ast.Name)}
            rets = [n for n in walk(m.node) if isinstance(n, ast.Return) and isinstance(n.value, ast.Name) and n.value.id in objs]
            if not objs or not rets:
                continue
            # a constructor that delegates to _read is the parsing one
            if any(attr_tail(c) == "_read" for c in q.calls(m)):
                continue
            n_sib += 1
            own = {t.attr for n in walk(m.node) if isinstance(n, (ast.Assign, ast.AnnAssign)) for t in (n.targets if isinstance(n, ast.Assign) else [n.target])
                   if isinstance(t, ast.Attribute) and isinstance(t.value, ast.Name) and t.value.id in objs}
            own |= {c.func.value.attr for c in q.calls(m) if isinstance(c.func, ast.Attribute) and c.func.attr in ("append", "extend") and isinstance(c.func.value, ast.Attribute)
                    and isinstance(c.func.value.value, ast.Name) and c.func.value.value.id in objs}
            if mname == "from_folders":
                ones = [n for n in walk(m.node) if isinstance(n, ast.Assign) and any(isinstance(t, ast.Attribute) and t.attr == "num_unpackstreams_folders" for t in n.targets)]
                good = False
                for a in ones:
                    v = a.value
                    if isinstance(v, ast.BinOp) and isinstance(v.op, ast.Mult):
                        lst, cnt = (v.left, v.right) if isinstance(v.left, ast.List) else (v.right, v.left)
                        good = isinstance(lst, ast.List) and len(lst.elts) == 1 and isinstance(lst.elts[0], ast.Constant) and lst.elts[0].value == 1 \
                            and isinstance(cnt, ast.Call) and dotted(cnt.func) == "len"
                    if isinstance(v, ast.ListComp) and isinstance(v.elt, ast.Constant) and v.elt.value == 1 and not v.generators[0].ifs:
                        good = True
                ctx.check(good, "R08.8", m, ones[0] if ones else m.node, "without SubStreamsInfo every folder holds exactly one substream",
                          "from_folders does not describe 'one substream per folder' (`[1] * len(folders)`): an archive without a SubStreamsInfo record - legal, one member per "
                          "folder - is listed and extracted with the wrong number of members per folder", construct="from_folders stream counts")
            missing = sorted(rd_fields - own)
            ctx.check(not missing, "R08.8", m, m.node, f"{m.qname} defines every field {cls.name}._read defines ({sorted(rd_fields)})",
                      f"{m.qname} builds a {cls.name} without parsing but leaves {missing} undefined although {cls.name}._read defines them: the append path "
                      "restarts such a list empty, so the entries of the existing members are missing from the rewritten header (appended members get each other's sizes)",
                      construct=f"sibling constructor fields {missing}")
    ctx.floor("R08.8", n_sib, 1, "non-parsing sibling constructors in archiveinfo")


def r08_10(ctx: Ctx) -> None:
    """Header.initialize (called by the first write of a session, also in append mode) creates a fresh section object only where the
    parsed header has none: `self.files_info = FilesInfo()` / `self.main_streams = StreamsInfo()` stand under the fact that the field
    is None.  An archive that holds only directories / empty files has a member table but no streams: replacing the table forgets the
    old members while the worker indices still count them (IndexError after the old header has been overwritten)."""
    f = ctx.prog.func("archiveinfo", "Header.initialize")
    n = 0
    for a in walk(f.node):
        if not isinstance(a, ast.Assign):
            continue
        val = a.value
        if isinstance(val, ast.Name):
            vs = q.assigned_values(f, val.id)
            val = vs[0] if len(vs) == 1 else val
        if not (isinstance(val, ast.Call) and isinstance(val.func, ast.Name) and val.func.id in ("FilesInfo", "StreamsInfo")):
            continue
        for t in a.targets:
            if not (isinstance(t, ast.Attribute) and isinstance(t.value, ast.Name) and t.value.id == "self"):
                continue
            n += 1
            facts = q.facts_at(f, a)
            absent = any((nt := q.is_none_test(cd)) is not None and norm(nt[0]) == norm(t) and nt[1] == pol for cd, pol in facts)
            ctx.check(absent, "R08.10", f, a, f"{norm(t)} is created only when the parsed header has none",
                      f"`{norm(a)}` runs without the fact `{norm(t)} is None`: in append mode the member table / stream description read from the existing archive is "
                      "replaced by an empty one (base with only directories or empty files: IndexError in write()/close() after the old header was overwritten, all old members lost)",
                      construct=f"fresh {norm(t)}")
    ctx.floor("R08.10", n, 1, "fresh section objects in Header.initialize")


def r08_11(ctx: Ctx, rule: str = "R08.11") -> None:
    """reader/writer convention of PackInfo.crcs: `_read` appends a CRC only under a true 'defined' flag (a COMPACT list, one entry per
    defined stream; SevenZipFile.test() reads it with a compact cursor too).  The writer must then address it with a cursor that advances
    only under the flag - indexing it with the stream index is invisible while every digest is defined (all py7zr-written archives) and
    fails (AssertionError / IndexError in close(), after the old header was overwritten) for a base with a partially defined vector."""
    cls = ctx.prog.cls("PackInfo", "archiveinfo")
    rd, wr = cls.methods["_read"], cls.methods["write"]
    apps = [c for c in q.calls(rd) if attr_tail(c) == "append" and norm(c.func.value) == "self.crcs"]
    ctx.floor(rule, len(apps), 1, "self.crcs.append in PackInfo._read")

    def flag_fact(f: Func, node: ast.AST) -> bool:
        """is node executed only where an element of digestdefined is known true?"""
        flagvars = {lp.target.id for lp in walk(f.node) if isinstance(lp, ast.For) and isinstance(lp.target, ast.Name) and "digestdefined" in norm(lp.iter)}
        for cd, pol in q.facts_at(f, node):
            if pol and isinstance(cd, ast.Subscript) and "digestdefined" in norm(cd.value):
                return True
            if pol and isinstance(cd, ast.Name) and cd.id in flagvars:
                return True
        return False

    # after parsing, enable_digests says 'some packed stream has a CRC' (flush_archive appends a CRC and a flag for the new stream only then;
    # with the switch off while the vector is non-empty the vector falls behind numstreams and close() fails after the header was overwritten)
    finals = [n for n in walk(rd.node) if isinstance(n, ast.Assign) and any(norm(t) == "self.enable_digests" for t in n.targets) and not isinstance(n.value, ast.Constant)]
    for a in finals:
        v = a.value
        some = (isinstance(v, ast.Compare) and len(v.ops) == 1 and isinstance(v.comparators[0], ast.Constant) and
                ((isinstance(v.ops[0], ast.Gt) and v.comparators[0].value == 0) or (isinstance(v.ops[0], ast.GtE) and v.comparators[0].value == 1) or
                 (isinstance(v.ops[0], ast.NotEq) and v.comparators[0].value == 0)) and isinstance(v.left, ast.Call) and dotted(v.left.func) == "len") \
            or (isinstance(v, ast.Call) and dotted(v.func) in ("any", "bool"))
        ctx.check(some, rule, rd, a, "enable_digests after parsing means 'at least one packed-stream CRC'",
                  f"`{norm(a)}` does not mean 'some packed stream carries a CRC': for a base archive with CRCs the append path leaves the flag vector shorter than the number of "
                  "streams and close() fails after the old header was overwritten", construct="enable_digests after parse")
    compact = all(flag_fact(rd, a) for a in apps)
    if not compact:
        ctx.note(f"{rule}: PackInfo._read stores one CRC per stream (not compact): the writer may index by stream")
        return
    subs = [x for x in walk(wr.node) if isinstance(x, ast.Subscript) and norm(x.value) == "self.crcs" and isinstance(x.ctx, ast.Load)]
    ctx.floor(rule, len(subs), 1, "self.crcs[...] in PackInfo.write")
    for sub in subs:
        ok = False
        if isinstance(sub.slice, ast.Name):
            cur = sub.slice.id
            incs = [n for n in walk(wr.node) if isinstance(n, ast.AugAssign) and isinstance(n.target, ast.Name) and n.target.id == cur and isinstance(n.op, ast.Add)]
            loopvar = any(isinstance(lp, ast.For) and any(isinstance(t, ast.Name) and t.id == cur for t in ast.walk(lp.target)) for lp in walk(wr.node))
            unit = all(isinstance(i.value, ast.Constant) and i.value.value == 1 for i in incs)
            ok = bool(incs) and unit and not loopvar and all(flag_fact(wr, i) for i in incs) and flag_fact(wr, sub)
        ctx.check(ok, rule, wr, sub, "PackInfo.write addresses the compact CRC list with a compact cursor",
                  f"PackInfo._read keeps one CRC per DEFINED stream, but PackInfo.write reads `{norm(sub)}` with the stream index: for a base archive whose packed-stream "
                  "CRC vector is only partially defined an append fails in close() (AssertionError, IndexError under -O) after the old header has been overwritten",
                  construct=f"compact index {norm(sub)}")


# member properties the FilesInfo reader stores but the writer is not required to emit (reason each)
FILESINFO_NOT_REWRITTEN_OK = {
    "START_POS": "start positions concern volume sets; py7zr neither uses nor produces them",
    "DUMMY": "padding: emitted as needed for alignment, not data",
}


def r08_12(ctx: Ctx, rule: str = "R08.12") -> None:
    """what the member table reader keeps, the member table writer puts back (an append rewrites the whole header): every property id
    that FilesInfo._read dispatches on and stores is emitted by FilesInfo.write on a reachable path, and kEmptyFile - which only has a
    meaning next to kEmptyStream - is reachable on a path that has emitted kEmptyStream.  A property the writer never emits is lost for
    every OLD member at the first append (empty files turn into directories for conforming readers, creation/access times vanish)."""
    fi = ctx.prog.cls("FilesInfo", "archiveinfo")
    rd, wr = fi.methods["_read"], fi.methods["write"]
    read_ids = []
    for n in walk(rd.node):
        if isinstance(n, ast.Compare) and len(n.ops) == 1 and isinstance(n.ops[0], ast.Eq) and isinstance(n.comparators[0], ast.Attribute) \
                and isinstance(n.comparators[0].value, ast.Name) and n.comparators[0].value.id == "PROPERTY":
            read_ids.append(n.comparators[0].attr)
    read_ids = [r for r in dict.fromkeys(read_ids) if r != "END"]
    ctx.floor(rule, len(read_ids), 6, "property ids dispatched by FilesInfo._read")
    emitted: Dict[str, List] = {}
    cfg = cfg_of(wr.node)
    for g, n, via in q.deep_nodes(ctx, wr, depth=2):
        if isinstance(n, ast.Call) and attr_tail(n) in ("write_byte", "_write_times", "_write_prop_bool_vector") :
            for a in n.args:
                if isinstance(a, ast.Attribute) and isinstance(a.value, ast.Name) and a.value.id == "PROPERTY":
                    emitted.setdefault(a.attr, []).append(via if via is not None else n)
    for pid in read_ids:
        if pid in FILESINFO_NOT_REWRITTEN_OK:
            ctx.ok(rule, f"{pid}: not re-emitted by design ({FILESINFO_NOT_REWRITTEN_OK[pid]})")
            continue
        sites = [x for x in emitted.get(pid, []) if cfg.reaches(cfg.entry, q.node_for(wr, x))]
        ctx.check(bool(sites), rule, wr, wr.node, f"FilesInfo.write emits {pid}",
                  f"FilesInfo._read keeps the member property {pid} but FilesInfo.write never emits it: the first append (which rewrites the whole header) drops it for every "
                  "member of the existing archive", construct=f"member property {pid} not rewritten")
    if "EMPTY_FILE" in read_ids and emitted.get("EMPTY_FILE") and emitted.get("EMPTY_STREAM"):
        ok = any(cfg.reaches(q.node_for(wr, a), q.node_for(wr, b)) for a in emitted["EMPTY_STREAM"] for b in emitted["EMPTY_FILE"])
        ctx.check(ok, rule, wr, emitted["EMPTY_FILE"][0], "kEmptyFile can follow kEmptyStream",
                  "FilesInfo.write emits kEmptyFile only on paths that have NOT emitted kEmptyStream (`if ...: EmptyStream elif ...: EmptyFile`): the vector has no meaning "
                  "without empty streams, so it is never written and every zero-length file of the base archive becomes a directory for conforming readers after an append",
                  construct="EMPTY_FILE after EMPTY_STREAM")


def r08_13(ctx: Ctx, rule: str = "R08.13") -> None:
    """mode 'a' starts a NEW archive (which truncates / overwrites from offset 0) only for a file that is not a 7z archive at all: the
    `_prepare_write` call of the append arm stands under the false outcome of the signature test, never inside an exception handler
    around the parse of the existing archive.  `except Bad7zFile: _prepare_write()` replaces every archive the parser rejects (anti-items,
    unsupported header records, damage, wrong header password) by a new one without telling the caller."""
    init = shared.szf(ctx, "__init__")
    n = 0
    for c in q.calls(init):
        if attr_tail(c) != "_prepare_write":
            continue
        facts = q.facts_at(init, c)
        in_append = any(pol and isinstance(cd, ast.Compare) and isinstance(cd.ops[0], ast.Eq) and isinstance(cd.comparators[0], ast.Constant) and cd.comparators[0].value == "a"
                        and norm(cd.left) == "mode" for cd, pol in facts)
        in_handler = any(isinstance(h, ast.ExceptHandler) and any(x is c for x in ast.walk(h)) for h in walk(init.node))
        if not in_append and not in_handler:
            continue
        if not in_append:
            # a handler inside the append arm: the enclosing if supplies the mode fact for the try statement, not for the handler body
            tr = next((t for t in walk(init.node) if isinstance(t, ast.Try) and any(any(x is c for x in ast.walk(h)) for h in t.handlers)), None)
            in_append = tr is not None and any(pol and isinstance(cd, ast.Compare) and isinstance(cd.comparators[0], ast.Constant) and cd.comparators[0].value == "a"
                                               for cd, pol in q.facts_at(init, tr))
            if not in_append:
                continue
        n += 1
        not_7z = any((not pol) and isinstance(cd, ast.Call) and attr_tail(cd) in ("_check_7zfile", "is_7zfile") for cd, pol in facts)
        # the signature is looked for at offset 0 (a file object handed in may stand anywhere): a seek(0) dominates the signature test
        cfg0 = cfg_of(init.node)
        sig_tests = [t for t in cfg0.nodes if t.kind == "test" and any(isinstance(x, ast.Call) and attr_tail(x) in ("_check_7zfile", "is_7zfile") for x in ast.walk(t.ast))
                     and cfg0.dominates(t, q.node_for(init, c))]
        for t in sig_tests:
            rewound = any(attr_tail(s0) == "seek" and s0.args and isinstance(s0.args[0], ast.Constant) and s0.args[0].value == 0 and cfg0.dominates(q.node_for(init, s0), t)
                          for s0 in q.calls(init))
            ctx.check(rewound, rule, init, t.ast, "append mode looks for the signature at offset 0",
                      "in mode 'a' the 7z signature is tested at the CURRENT position of the file object: a handle positioned at the end (opened for appending, or just written "
                      "to) is taken for 'not a 7z file' and the existing archive is overwritten by a new one", construct="append signature test position")
        ctx.check(not_7z and not in_handler, rule, init, c, "append mode writes a new archive only over a file without the 7z signature",
                  "in mode 'a' `_prepare_write` runs " + ("inside an exception handler around the parse of the existing archive" if in_handler else "without the signature test having failed") +
                  ": an existing 7z archive that the parser rejects (anti-item, unsupported record, damage, wrong header password) is silently replaced by a new "
                  "archive that holds only the appended members", construct="append fallback to write")
    ctx.floor(rule, n, 1, "_prepare_write calls in the append arm of the constructor")


def r08_14(ctx: Ctx, rule: str = "R08.14") -> None:
    """folder-level CRCs survive every route into the substream digest table (the only place the main-stream writer takes digests from:
    StreamsInfo.write does not re-emit folder CRCs).  Three routes build the table: no SubStreamsInfo at all (from_folders), a kCRC
    record, and SubStreamsInfo WITHOUT a kCRC record (the all-undefined fallback).  Each must hand the CRC of a single-stream folder
    down; a route that does not makes list() report crc32 None and the first append drop the CRC of every old member."""
    cls = ctx.prog.cls("SubstreamsInfo", "archiveinfo")
    rd = cls.methods["_read"]
    from ..model import parent_map
    pm = parent_map(rd.node)
    falls = [n for n in walk(rd.node) if isinstance(n, ast.Assign) and any(norm(t) == "self.digestsdefined" for t in n.targets)
             and isinstance(n.value, ast.BinOp) and isinstance(n.value.op, ast.Mult) and any(isinstance(x, ast.Constant) and x.value is False for x in ast.walk(n.value))]
    ctx.floor(rule, len(falls), 1, "all-undefined fallback of SubstreamsInfo._read")
    for a in falls:
        blk = pm.get(a)
        body = None
        for fld in ("body", "orelse", "finalbody"):
            lst = getattr(blk, fld, None)
            if isinstance(lst, list) and any(x is a for x in lst):
                body = lst[lst.index(a):]
        ok = body is not None and any(isinstance(x, ast.Attribute) and x.attr == "crc" and isinstance(x.ctx, ast.Load) for st in body for x in ast.walk(st))
        # shape of the hand-down: a loop over the folders with a position cursor that advances by EVERY folder's substream count; under `count == 1 and
        # digestdefined and crc is not None` the entry at the cursor becomes (True, that CRC)
        if ok:
            loops = [l for st in body for l in ast.walk(st) if isinstance(l, ast.For)]
            good = False
            for l in loops:
                steps = [x for x in l.body if isinstance(x, ast.AugAssign) and isinstance(x.op, ast.Add) and isinstance(x.target, ast.Name) and "num_unpackstreams_folders" in norm(x.value)]
                if len(steps) != 1:
                    continue
                cur = steps[0].target.id
                for cond in [c for c in l.body if isinstance(c, ast.If)]:
                    atoms = {norm(v) for v in (cond.test.values if isinstance(cond.test, ast.BoolOp) and isinstance(cond.test.op, ast.And) else [cond.test])}
                    need = [any(t.replace(" ", "").endswith("==1") and "num_unpackstreams_folders" in t for t in atoms),
                            any(t.endswith(".digestdefined") for t in atoms), any(t.endswith(".crc is not None") for t in atoms)]
                    sets_flag = any(isinstance(x, ast.Assign) and isinstance(x.targets[0], ast.Subscript) and norm(x.targets[0].value) == "self.digestsdefined" and norm(x.targets[0].slice) == cur
                                    and isinstance(x.value, ast.Constant) and x.value.value is True for x in cond.body)
                    sets_crc = any(isinstance(x, ast.Assign) and isinstance(x.targets[0], ast.Subscript) and norm(x.targets[0].value) == "self.digests" and norm(x.targets[0].slice) == cur
                                   and norm(x.value).endswith(".crc") for x in cond.body)
                    extra = len(atoms) > 3
                    if all(need) and sets_flag and sets_crc and not extra and l.body.index(steps[0]) > l.body.index(cond):
                        good = True
                # the same three conditions spread over nested ifs (or given a name): judged by the facts at the two assignments
                if not good:
                    setf = [x for x in ast.walk(l) if isinstance(x, ast.Assign) and isinstance(x.targets[0], ast.Subscript) and norm(x.targets[0].value) == "self.digestsdefined"
                            and norm(x.targets[0].slice) == cur and isinstance(x.value, ast.Constant) and x.value.value is True]
                    setc = [x for x in ast.walk(l) if isinstance(x, ast.Assign) and isinstance(x.targets[0], ast.Subscript) and norm(x.targets[0].value) == "self.digests"
                            and norm(x.targets[0].slice) == cur and norm(x.value).endswith(".crc")]
                    def three(x) -> bool:
                        fs = {norm(cd) for cd, pol in q.facts_at(rd, x) if pol}
                        return len(fs) == 3 and any(t.replace(" ", "").endswith("==1") and "num_unpackstreams_folders" in t for t in fs) and any(t.endswith(".digestdefined") for t in fs) \
                            and any(t.endswith(".crc is not None") for t in fs)
                    top = [c for c in l.body if any(y is z for z in setf + setc for y in ast.walk(c))]
                    if setf and setc and all(three(x) for x in setf + setc) and top and l.body.index(steps[0]) > l.body.index(top[0]):
                        good = True
            ok = good
        ctx.check(ok, rule, rd, a, "the no-kCRC fallback hands folder CRCs down to single-stream folders",
                  "when SubStreamsInfo carries no kCRC record every substream digest is set undefined and the folder CRCs are not consulted: a base archive protected by "
                  "folder CRCs lists crc32 None, and after an append (the writer takes digests only from this table) the CRC of every old member is gone",
                  construct="digest fallback without folder crc")
    ff = cls.methods.get("from_folders")
    if ff is not None:
        ok = any(isinstance(x, ast.Attribute) and x.attr == "crc" for x in walk(ff.node))
        # the flag of substream k is true whenever folder k has a CRC (`digestdefined and crc is not None`), and the digest is that CRC under the same test
        for n in [n for n in walk(ff.node) if isinstance(n, ast.Assign) and isinstance(n.targets[0], ast.Attribute) and n.targets[0].attr in ("digestsdefined", "digests")
                  and isinstance(n.value, (ast.ListComp, ast.GeneratorExp))]:
            v = n.value.generators[0].target.id if isinstance(n.value.generators[0].target, ast.Name) else "folder"
            atoms = {f"{v}.digestdefined", f"{v}.crc is not None"}
            elt = n.value.elt
            if n.targets[0].attr == "digestsdefined":
                ok = ok and shared.implied_by_all(elt, atoms) and not any(isinstance(x, ast.UnaryOp) and isinstance(x.op, ast.Not) for x in ast.walk(elt)) \
                    and not n.value.generators[0].ifs
            else:
                ok = ok and isinstance(elt, ast.IfExp) and norm(elt.body) == f"{v}.crc" and shared.implied_by_all(elt.test, atoms) and not n.value.generators[0].ifs
        ctx.check(ok, rule, ff, ff.node, "from_folders hands folder CRCs down", "from_folders does not give substream k the CRC of folder k exactly when that folder has one "
                  "(`digestdefined and crc is not None`): an archive without SubStreamsInfo loses its only digests - members extract unverified and the first append writes them without CRC",
                  construct="from_folders crc")


def r08_17(ctx: Ctx, rule: str = "R08.17") -> None:
    """a folder CRC that does NOT live on as a substream digest (a folder with several substreams, or with none) is written back by the
    main-stream writer: an append rewrites the whole header, and that CRC may be the only digest the folder's members have.  The call
    `unpackinfo.write(...)` in StreamsInfo.write therefore switches the CRC record of UnpackInfo.write on (an argument for the parameter
    that gates `PROPERTY.CRC`), with a value that depends on the folders' `digestdefined`."""
    sw = ctx.prog.func("archiveinfo", "StreamsInfo.write")
    uw = ctx.prog.func("archiveinfo", "UnpackInfo.write")
    gate = set()
    for n in walk(uw.node):
        if isinstance(n, ast.Call) and attr_tail(n) == "write_byte" and len(n.args) > 1 and norm(n.args[1]) == "PROPERTY.CRC":
            for cd, pol in q.facts_at(uw, n):
                gate |= {x.id for x in ast.walk(cd) if isinstance(x, ast.Name) and x.id in uw.params and pol}
    for g_ in list(gate):
        for v in q.assigned_values(uw, g_):
            gate |= {x.id for x in ast.walk(v) if isinstance(x, ast.Name) and x.id in uw.params}
    ctx.need(bool(gate), "UnpackInfo.write: the CRC record is not gated by a parameter (idiom not recognised)")
    calls = [c for c in q.calls(sw) if norm(c.func).endswith("unpackinfo.write")]
    ctx.floor(rule, len(calls), 1, "unpackinfo.write call in StreamsInfo.write")
    for c in calls:
        args = [k.value for k in c.keywords if k.arg in gate] + [a for i, a in enumerate(c.args) if i + 1 < len(uw.params) and uw.params[i + 1] in gate]
        live = [a for a in args if not (isinstance(a, ast.Constant) and a.value in (False, None))]
        dep = any("digestdefined" in norm(q.expand_locals(sw, a)) or isinstance(a, ast.Constant) for a in live)
        # ... a flag per folder that is TRUE whenever the folder has a CRC and does not hold exactly one substream
        for a in live:
            for v in ([a] if not isinstance(a, ast.Name) else q.assigned_values(sw, a.id)):
                if isinstance(v, (ast.ListComp, ast.GeneratorExp)):
                    fv = next((x.id for x in ast.walk(v.generators[0].target) if isinstance(x, ast.Name) and x.id not in ("i", "k", "idx", "n")), "folder")
                    elt = v.elt.args[0] if isinstance(v.elt, ast.Call) and dotted(v.elt.func) == "bool" and v.elt.args else v.elt
                    atoms = {f"{fv}.digestdefined", f"{fv}.crc is not None"} | {norm(x) for x in ast.walk(elt) if isinstance(x, ast.Compare) and isinstance(x.ops[0], ast.NotEq)
                                                                                and isinstance(x.comparators[0], ast.Constant) and x.comparators[0].value == 1}
                    dep = dep and shared.implied_by_all(elt, atoms) and not v.generators[0].ifs and any("!= 1" in t for t in atoms)
        ctx.check(bool(live) and dep, rule, sw, c, "the main-stream writer re-emits folder CRCs that are not carried by a substream digest",
                  "StreamsInfo.write calls `unpackinfo.write(file)` with the CRC record switched off: the CRC of a folder that holds several substreams (7-Zip writes one when "
                  "per-member CRCs are off) is dropped by the first append - a flipped bit in an old member raised CrcError before the append and is extracted silently after it",
                  construct="folder CRC not rewritten")


def run(ctx: Ctx) -> None:
    from . import c15 as _c15s
    _c15s.r15_13(ctx)  # the header a failed session falls back to is a deep copy of the header that was found
    from . import c04 as _c04u
    _c04u.r04_21(ctx, rule="R08.20")  # an append keeps the folder CRCs an archive came with
    r08_17(ctx)
    from . import c15
    c15.r15_10(ctx, rule="R08.16")  # an append session that fails in its first or last step leaves the archive it found
    shared.layout_agreement(ctx, "R08.15")
    shared.field_order_agreement(ctx, "R08.18")  # what an append writes back for records py7zr itself never produces (complex coders) must read back
    from . import c10 as _c10
    _c10.r10_15(ctx, rule="R08.19")  # the EmptyFile vector written back holds one bit per member with an empty stream
    r08_14(ctx)
    r08_13(ctx)
    r08_12(ctx)
    r08_11(ctx)
    r08_10(ctx)
    from . import c06 as _c06
    _c06.r06_12(ctx, rule="R08.9")  # py7zr's own append of only directories writes a zero-stream folder: the archive must stay readable/appendable
    r08_8(ctx)
    r08_1(ctx)
    from . import c07, c06
    c07.r07_1(ctx, rule="R08.2")
    r08_3(ctx)
    r08_4(ctx)
    c06.r06_5(ctx, rule="R08.5")
    r08_6(ctx)
    c07.r07_3(ctx)
    c07.r07_8(ctx)
    r08_7(ctx)
