"""C08 — append preserves history."""
from __future__ import annotations

import ast
from typing import Dict, List, Set

from ..cfg import cfg_of
from ..model import AnalysisError, Func, attr_tail, dotted, norm, walk
from ..report import Ctx
from .. import q
from . import shared

EXPLANATION = (
    "Lossless re-serialisation and bookkeeping for append sessions: every per-file key and every section attribute that the "
    "readers fill is consumed by the corresponding writer (frozen, reasoned exceptions aside); the per-substream lists that "
    "the append path extends are materialised by the reader on every path (no None left behind); record sizes are right on the "
    "partially-defined paths that only a re-serialised third-party header takes (length domain, R07.1); the append position is "
    "afterheader + packpos + sum(packsizes) and the worker starts there with current_file_index = number of existing members; "
    "the append arm of Header.initialize adds the folder, the folder count and the substream counter together; per-folder "
    "member lists carry the members' own ids. Not decided: equality of member maps over all histories."
)
TRUSTED = ["CPython ast parser", "sa.lendom", "sa.cfg paths"]

NOT_REEMITTED = {
    "creationtime": "outside the property's observation (names, bytes, mtime, attributes); py7zr never writes ctime",
    "lastaccesstime": "outside the property's observation; py7zr never writes atime",
    "startpos": "kStartPos is obsolete and not written by any current writer",
}


def r08_1(ctx: Ctx) -> None:
    fi = ctx.prog.cls("FilesInfo", "archiveinfo")
    read_keys: Set[str] = set()
    for name, m in fi.methods.items():
        if not name.startswith("_read"):
            continue
        for n in walk(m.node):
            if isinstance(n, ast.Assign):
                for t in n.targets:
                    if isinstance(t, ast.Subscript) and isinstance(t.slice, ast.Constant) and isinstance(t.slice.value, str):
                        read_keys.add(t.slice.value)
                    if isinstance(t, ast.Subscript) and isinstance(t.slice, ast.Name) and t.slice.id in m.params:
                        # key given by a parameter: collect the constants passed at the call sites
                        for caller in fi.methods.values():
                            for c in q.calls(caller):
                                if attr_tail(c) == m.name:
                                    for a in c.args:
                                        if isinstance(a, ast.Constant) and isinstance(a.value, str):
                                            read_keys.add(a.value)
            if isinstance(n, ast.Dict):
                for k in n.keys:
                    if isinstance(k, ast.Constant) and isinstance(k.value, str):
                        read_keys.add(k.value)
    ctx.floor("R08.1", len(read_keys), 6, "per-file keys filled by the FilesInfo readers")
    write_keys: Set[str] = set()
    # only writers that FilesInfo.write actually reaches
    reach = {"write"}
    todo = ["write"]
    while todo:
        cur = fi.methods.get(todo.pop())
        if cur is None:
            continue
        for c in q.calls(cur):
            if isinstance(c.func, ast.Attribute) and isinstance(c.func.value, ast.Name) and c.func.value.id == "self" and c.func.attr in fi.methods and c.func.attr not in reach:
                reach.add(c.func.attr)
                todo.append(c.func.attr)
    for name, m in fi.methods.items():
        if name not in reach:
            continue
        for n in walk(m.node):
            if isinstance(n, ast.Subscript) and isinstance(n.ctx, ast.Load) and isinstance(n.slice, ast.Constant) and isinstance(n.slice.value, str):
                write_keys.add(n.slice.value)
            if isinstance(n, ast.Call) and attr_tail(n) == "get" and n.args and isinstance(n.args[0], ast.Constant):
                write_keys.add(n.args[0].value)
        # keys passed by parameter (e.g. _write_times(file, PROPERTY.LAST_WRITE_TIME, "lastwritetime"))
        for c in q.calls(m):
            if attr_tail(c).startswith("_write"):
                for a in c.args:
                    if isinstance(a, ast.Constant) and isinstance(a.value, str):
                        write_keys.add(a.value)
    for k in sorted(read_keys):
        if k in NOT_REEMITTED:
            ctx.ok("R08.1", f"FilesInfo key '{k}' deliberately not re-emitted: {NOT_REEMITTED[k]}")
            continue
        ctx.check(k in write_keys, "R08.1", "archiveinfo:FilesInfo", None, f"per-file key '{k}' is re-serialised",
                  f"the reader fills per-file key '{k}' but FilesInfo.write never emits it: appending to an archive drops this property of the existing members", construct=f"FilesInfo key {k}")
    # section attributes
    pairs = {"PackInfo": ["_read"], "SubstreamsInfo": ["_read"], "Folder": ["_read"]}
    derived = {"PackInfo": {"packpositions", "enable_digests"}, "Folder": set(), "SubstreamsInfo": set()}
    for cn, readers in pairs.items():
        c = ctx.prog.cls(cn, "archiveinfo")
        filled: Set[str] = set()
        for rn in readers:
            m = c.methods[rn]
            for n in walk(m.node):
                if isinstance(n, (ast.Assign, ast.AnnAssign, ast.AugAssign)):
                    tg = n.targets if isinstance(n, ast.Assign) else [n.target]
                    for t in tg:
                        if isinstance(t, ast.Attribute) and isinstance(t.value, ast.Name) and t.value.id == "self":
                            filled.add(t.attr)
                if isinstance(n, ast.Call) and attr_tail(n) == "append" and isinstance(n.func.value, ast.Attribute) and isinstance(n.func.value.value, ast.Name) and n.func.value.value.id == "self":
                    filled.add(n.func.value.attr)
        w = c.methods["write"]
        used = {n.attr for n in walk(w.node) if isinstance(n, ast.Attribute) and isinstance(n.value, ast.Name) and n.value.id == "self"}
        for a in sorted(filled - derived[cn]):
            ctx.check(a in used, "R08.1", w, w.node, f"{cn}.{a} is re-serialised", f"{cn}._read fills '{a}' but {cn}.write never reads it: the value is lost when an existing archive is re-serialised on append",
                      construct=f"{cn}.{a} not re-serialised")


def r08_6(ctx: Ctx) -> None:
    """lists the append path extends are materialised by the reader on every path."""
    f = ctx.prog.func("archiveinfo", "SubstreamsInfo._read")
    cfg = cfg_of(f.node)
    for attr in ("unpacksizes", "num_unpackstreams_folders"):
        sets = [n for n in walk(f.node) if isinstance(n, ast.Assign) and any(norm(t) == f"self.{attr}" for t in n.targets)
                and not (isinstance(n.value, ast.Constant) and n.value.value is None)]
        bypass = cfg.reaches(cfg.entry, cfg.exit, avoid=[q.node_for(f, s) for s in sets]) if sets else True
        ctx.check(not bypass, "R08.6", f, f.node, f"SubstreamsInfo.{attr} is a list after every successful parse",
                  f"SubstreamsInfo._read can finish with {attr} = None (no Size property): the append path then starts a fresh list and the sizes of the new members are "
                  "written at the wrong positions (existing and appended members exchange sizes; CrcError on extraction)", construct=f"SubstreamsInfo.{attr} definite assignment")
    # _after_write appends at the end of the existing lists (never re-initialises a non-empty list)
    aw = ctx.prog.func("py7zr", "Worker._after_write")
    for n in walk(aw.node):
        if isinstance(n, ast.Assign) and isinstance(n.value, ast.List) and any("substreamsinfo" in norm(t) for t in n.targets):
            facts = [(norm(cd), pol) for cd, pol in q.facts_at(aw, n)]
            ok = any(cd.endswith("is None") and pol and norm(n.targets[0]) in cd for cd, pol in facts)
            ctx.check(ok, "R08.6", aw, n, "a list is initialised only when it is None", "_after_write re-initialises a per-substream list that may already hold the existing members' entries")


def _maybe_none(f: Func, e: ast.AST, depth: int = 3) -> bool:
    for s_ in q.sources_of(f, e, depth=depth):
        if isinstance(s_, ast.Constant) and s_.value is None:
            return True
        if isinstance(s_, ast.BoolOp) and isinstance(s_.op, ast.Or) and isinstance(s_.values[-1], ast.Constant) and s_.values[-1].value is None:
            return True
    return False


def nullable_member_keys(ctx: Ctx) -> Set[str]:
    """keys of the per-member record that _real_get_contents may set to None for an existing member: the key is stored directly from a
    None-able expression, or from a local / tuple component / named field of the same name that the size helper computes as `... or None`."""
    rg = shared.szf(ctx, "_real_get_contents")
    gs = shared.szf(ctx, "_get_fileinfo_sizes")
    noneable_names: Set[str] = set()
    for g in (rg, gs):
        for n in walk(g.node):
            if isinstance(n, ast.Assign) and isinstance(n.targets[0], ast.Name) and _maybe_none(g, n.value, depth=1):
                noneable_names.add(n.targets[0].id)
            if isinstance(n, ast.Call):
                for k in n.keywords:
                    if k.arg and _maybe_none(g, k.value, depth=2):
                        noneable_names.add(k.arg)
    keys: Set[str] = set()
    for n in walk(rg.node):
        if isinstance(n, ast.Assign) and isinstance(n.targets[0], ast.Subscript) and isinstance(n.targets[0].slice, ast.Constant):
            k = n.targets[0].slice.value
            v = n.value
            if _maybe_none(rg, v, depth=1):
                keys.add(k)
            elif isinstance(v, ast.Name) and v.id in noneable_names and v.id == k:
                keys.add(k)
            elif isinstance(v, ast.Attribute) and v.attr in noneable_names and v.attr == k:
                keys.add(k)
    return keys


def r08_7(ctx: Ctx) -> None:
    """append: values of EXISTING members that may be None are not used in arithmetic without a not-None guard."""
    keys = nullable_member_keys(ctx)
    ctx.need("maxsize" in keys, f"nullable member keys not derived ({sorted(keys)})")
    roots = [shared.szf(ctx, n) for n in ("write", "writef", "writestr", "writeall", "close")]
    clo = ctx.res.closure(roots)
    n_sites = 0
    for fq, f in sorted(clo.items()):
        if f.module != "py7zr":
            continue
        for n in walk(f.node):
            tgt = None
            if isinstance(n, ast.AugAssign) and isinstance(n.target, ast.Subscript) and isinstance(n.target.slice, ast.Constant) and n.target.slice.value in keys:
                tgt = n.target
            elif isinstance(n, ast.BinOp):
                for side in (n.left, n.right):
                    if isinstance(side, ast.Subscript) and isinstance(side.slice, ast.Constant) and side.slice.value in keys and isinstance(side.ctx, ast.Load):
                        tgt = side
            if tgt is None:
                continue
            n_sites += 1
            facts = q.facts_at(f, n)
            load = ast.parse(ast.unparse(tgt), mode="eval").body
            ok = q.known_not_none(facts, load)
            for cd, pol in facts:
                t = q.is_none_test(cd)
                if t is not None and (t[1] != pol) and isinstance(t[0], ast.Call) and attr_tail(t[0]) == "get" and norm(t[0].func.value) == norm(tgt.value) \
                        and t[0].args and isinstance(t[0].args[0], ast.Constant) and t[0].args[0].value == tgt.slice.value:
                    ok = True
            ctx.check(ok, "R08.7", f, n, f"{fq}: {norm(tgt)} used in arithmetic under a not-None guard",
                      f"{norm(tgt)} can be None for a member read from the existing archive (non-solid members have no '{tgt.slice.value}'), but `{norm(n)}` uses it in arithmetic "
                      "guarded only by key presence: appending only directories / empty files (or a session whose writes all failed) raises TypeError in close(), after the old header "
                      "has already been overwritten", path=ctx.res.call_path(roots, fq))
    ctx.floor("R08.7", n_sites, 1, "arithmetic on nullable member values in the write closure")


def r08_3(ctx: Ctx, rule: str = "R08.3") -> None:
    f = shared.szf(ctx, "_prepare_append")
    seeks = [c for c in q.calls(f) if attr_tail(c) == "seek"]
    workers = [c for c in q.calls(f) if attr_tail(c) == "Worker"]
    ctx.need(len(seeks) == 1 and len(workers) == 1, "_prepare_append shape not recognised")
    pos = seeks[0].args[0]
    ctx.check(norm(workers[0].args[1]) == norm(pos), rule, f, workers[0], "worker starts at the seek position", "the append worker does not start at the position the handle was moved to")
    # value of pos when the archive has streams
    defs = [n for n in walk(f.node) if isinstance(n, ast.Assign) and norm(n.targets[0]) == norm(pos)]
    ctx.need(bool(defs), "append position definition not found")
    with_streams = [d for d in defs if any(pol and "main_streams is not None" in norm(cd) for cd, pol in q.facts_at(f, d))]
    ctx.need(len(with_streams) >= 1, "append position for archives with streams not found")
    for d in with_streams:
        srcs = q.sources_of(f, d.value, depth=2)
        txt = " ".join(norm(s) for s in srcs)
        has_after = "afterheader" in txt or "_packed_start" in txt
        has_sizes = "packpositions[-1]" in txt or "sum(" in txt and "packsizes" in txt
        has_packpos = ".packpos" in txt.replace("packpositions", "") or "_packed_start" in txt
        if "_packed_start" in txt:
            g = ctx.prog.find_func("py7zr", "SevenZipFile._packed_start")
            has_packpos = g is not None and any(isinstance(n, ast.Attribute) and n.attr == "packpos" for n in walk(g.node))
            has_after = g is not None and any(isinstance(n, ast.Attribute) and n.attr == "afterheader" for n in walk(g.node))
        ctx.check(has_after and has_sizes and has_packpos, rule, f, d, "append position = afterheader + packpos + sum of pack sizes",
                  f"the append position `{norm(d.value)}` lacks {'afterheader ' if not has_after else ''}{'packpos ' if not has_packpos else ''}{'the pack sizes ' if not has_sizes else ''}: "
                  "new data would be written inside the existing packed streams")
    # worker bookkeeping
    wi = ctx.prog.func("py7zr", "Worker.__init__")
    ok = any(isinstance(n, ast.Assign) and norm(n.targets[0]) == "self.current_file_index" and norm(n.value) == "len(self.files)" for n in walk(wi.node))
    ctx.check(ok, rule, wi, wi.node, "next member index = number of existing members", "Worker.current_file_index does not start at len(files)", construct="current_file_index init")
    # the parsed header is reused
    ini = shared.szf(ctx, "__init__")
    cfg = cfg_of(ini.node)
    pa = [c for c in q.calls(ini) if attr_tail(c) == "_prepare_append"]
    rg = [c for c in q.calls(ini) if attr_tail(c) == "_real_get_contents"]
    ok = bool(pa) and any(cfg.dominates(q.node_for(ini, r), q.node_for(ini, pa[0])) for r in rg)
    ctx.check(ok, rule, ini, pa[0] if pa else ini.node, "append parses the existing archive first", "_prepare_append is not preceded by parsing the existing archive", construct="append parse first")


def r08_4(ctx: Ctx) -> None:
    f = ctx.prog.func("archiveinfo", "Header.initialize")
    cfg = cfg_of(f.node)
    fa = [c for c in q.calls(f) if attr_tail(c) == "append" and norm(c.func.value).endswith("unpackinfo.folders")]
    nf = [n for n in walk(f.node) if isinstance(n, ast.AugAssign) and norm(n.target).endswith("unpackinfo.numfolders") and isinstance(n.value, ast.Constant) and n.value.value == 1]
    sc = [c for c in q.calls(f) if attr_tail(c) == "append" and norm(c.func.value).endswith("num_unpackstreams_folders") and isinstance(c.args[0], ast.Constant) and c.args[0].value == 0]
    ctx.check(len(fa) == 1 and len(nf) == 1 and len(sc) == 1, "R08.4", f, f.node, "append arm: folder, folder count and substream counter",
              f"append arm of Header.initialize updates folders x{len(fa)}, numfolders x{len(nf)}, substream counter x{len(sc)} (each must be exactly one)", construct="append arm updates")
    if fa and nf and sc:
        def main_guard(n):
            return sorted((norm(cd), pol) for cd, pol in q.facts_at(f, n) if "main_streams is not None" in norm(cd) or "_initialized" in norm(cd))
        ok = main_guard(fa[0]) == main_guard(nf[0]) == main_guard(sc[0])
        ok = ok and cfg.every_path_to_exit_passes(q.node_for(f, fa[0]), [q.node_for(f, nf[0])])
        ctx.check(ok, "R08.4", f, fa[0], "the three updates happen together", "the folder list, the folder count and the substream counter are not updated under the same conditions")
        # the substream counter may only be skipped when substreamsinfo is None
        facts = [(norm(cd), pol) for cd, pol in q.facts_at(f, sc[0])]
        extra = [cd for cd, pol in facts if "substreamsinfo is not None" not in cd and "main_streams is not None" not in cd and "_initialized" not in cd and "unpackinfo is not None" not in cd]
        ctx.check(not extra, "R08.4", f, sc[0], "substream counter appended unless the section is absent", f"the substream counter is appended only under {extra}")
    # once per session
    ok = any(isinstance(n, ast.Assign) and norm(n.targets[0]) == "self._initialized" and isinstance(n.value, ast.Constant) and n.value.value is True for n in walk(f.node))
    ctx.check(ok, "R08.4", f, f.node, "one new folder per session", "Header.initialize does not mark the header as initialised (a folder per call)", construct="initialize once")
    # _prepare_append keeps the parsed header and installs the new filters/password
    pa = shared.szf(ctx, "_prepare_append")
    ok = any(isinstance(n, ast.Assign) and norm(n.targets[0]) == "self.header.filters" for n in walk(pa.node)) and not any(
        isinstance(n, ast.Assign) and norm(n.targets[0]) == "self.header" for n in walk(pa.node))
    ctx.check(ok, "R08.4", pa, pa.node, "append reuses the parsed header object", "_prepare_append replaces the parsed header (existing members would be dropped)", construct="append header reuse")


def r08_8(ctx: Ctx) -> None:
    """sibling constructors: a section object built WITHOUT parsing (classmethod `obj = cls(); obj.x = ...; return obj`, e.g.
    SubstreamsInfo.from_folders for archives that carry no SubStreamsInfo) defines every field its parsing sibling `_read` defines.
    The append path (Worker._after_write, flush_archive) continues those lists; a field left at None is restarted empty and the
    sizes/digests of the existing members are dropped from the rewritten header."""
    n_sib = 0
    for cq, cls in sorted(ctx.prog.module("archiveinfo").classes.items()):
        if cls.module != "archiveinfo" or "_read" not in cls.methods:
            continue
        rd = cls.methods["_read"]
        rd_fields = set()
        for n in walk(rd.node):
            if isinstance(n, (ast.Assign, ast.AnnAssign)):
                tg = n.targets if isinstance(n, ast.Assign) else [n.target]
                for t in tg:
                    if isinstance(t, ast.Attribute) and isinstance(t.value, ast.Name) and t.value.id == "self":
                        rd_fields.add(t.attr)
            if isinstance(n, ast.Call) and isinstance(n.func, ast.Attribute) and n.func.attr in ("append", "extend") and isinstance(n.func.value, ast.Attribute) \
                    and isinstance(n.func.value.value, ast.Name) and n.func.value.value.id == "self":
                rd_fields.add(n.func.value.attr)
        for mname, m in sorted(cls.methods.items()):
            if mname in ("retrieve", "_read") or not m.params or m.params[0] != "cls":
                continue
            objs = {t.id for n in walk(m.node) if isinstance(n, ast.Assign) and isinstance(n.value, ast.Call) and isinstance(n.value.func, ast.Name)
                    and n.value.func.id == "cls" and not n.value.args for t in n.targets if isinstance(t, ast.Name)}
            rets = [n for n in walk(m.node) if isinstance(n, ast.Return) and isinstance(n.value, ast.Name) and n.value.id in objs]
            if not objs or not rets:
                continue
            # a constructor that delegates to _read is the parsing one
            if any(attr_tail(c) == "_read" for c in q.calls(m)):
                continue
            n_sib += 1
            own = {t.attr for n in walk(m.node) if isinstance(n, (ast.Assign, ast.AnnAssign)) for t in (n.targets if isinstance(n, ast.Assign) else [n.target])
                   if isinstance(t, ast.Attribute) and isinstance(t.value, ast.Name) and t.value.id in objs}
            own |= {c.func.value.attr for c in q.calls(m) if isinstance(c.func, ast.Attribute) and c.func.attr in ("append", "extend") and isinstance(c.func.value, ast.Attribute)
                    and isinstance(c.func.value.value, ast.Name) and c.func.value.value.id in objs}
            missing = sorted(rd_fields - own)
            ctx.check(not missing, "R08.8", m, m.node, f"{m.qname} defines every field {cls.name}._read defines ({sorted(rd_fields)})",
                      f"{m.qname} builds a {cls.name} without parsing but leaves {missing} undefined although {cls.name}._read defines them: the append path "
                      "restarts such a list empty, so the entries of the existing members are missing from the rewritten header (appended members get each other's sizes)",
                      construct=f"sibling constructor fields {missing}")
    ctx.floor("R08.8", n_sib, 1, "non-parsing sibling constructors in archiveinfo")


def run(ctx: Ctx) -> None:
    from . import c06 as _c06
    _c06.r06_12(ctx, rule="R08.9")  # py7zr's own append of only directories writes a zero-stream folder: the archive must stay readable/appendable
    r08_8(ctx)
    r08_1(ctx)
    from . import c07, c06
    c07.r07_1(ctx, rule="R08.2")
    r08_3(ctx)
    r08_4(ctx)
    c06.r06_5(ctx, rule="R08.5")
    r08_6(ctx)
    c07.r07_3(ctx)
    c07.r07_8(ctx)
    r08_7(ctx)
