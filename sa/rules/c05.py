"""C05 — every read-mode call terminates: loop variants, attacker-sized bounds, ordinary errors."""
from __future__ import annotations

import ast
from typing import Dict, List, Optional, Set, Tuple

from ..cfg import cfg_of
from ..consteval import NotConst
from ..model import AnalysisError, Func, attr_tail, dotted, norm, walk
from ..report import Ctx
from .. import q
from . import shared

EXPLANATION = (
    "Termination/boundedness by shape: every `while` loop reachable from the read-mode API (call-graph closure incl. the "
    "constructor) must match an accepted variant (strictly decreasing counter, increasing index with positive step, "
    "consuming read that raises at EOF, acyclic retry table, or decoder-progress loop with a no-progress exit); every "
    "loop bound / allocation size that derives from a NUMBER read from the header must be consumed by reads per "
    "iteration, or be in the frozen relational-exception table; no interpreter exit in the closure and the constructor "
    "closes the handle on failure. Not decided: wall-clock/RSS figures and termination inside C decoders."
)
TRUSTED = ["CPython ast parser", "sa.resolve closure of the read API", "file.read(k) returns b'' at EOF and ord(b'') raises (stdlib)"]

CONSUMING_READS = {"read_uint64", "read_byte", "read_real_uint64", "read_uint32", "read_utf16", "retrieve", "_read"}
NUMBER_READS = {"read_uint64", "read_uint32", "read_real_uint64", "read_byte"}

# sites whose bound is attacker-controlled but safe for a relational reason the analysis cannot express; confirmed by reading
RELATIONAL_OK = {
    ("archiveinfo:Folder._read", "for i in range(totalin)"):
        "totalin <= sum of numinstreams, each read by a consuming read in the preceding coder loop; body is a scan of bindpairs",
    ("archiveinfo:Folder._read", "for i in range(num_bindpairs)"): "body performs two consuming reads",
    ("archiveinfo:Folder._read", "for i in range(num_packedstreams)"): "body performs a consuming read",
    ("archiveinfo:SubstreamsInfo._read", "for i in range(numfolders)"):
        "numfolders Folder records were already parsed (each consumed >= 1 byte) before SubstreamsInfo is read",
    ("archiveinfo:SubstreamsInfo._read", "for i in range(len(self.num_unpackstreams_folders))"): "list length = numfolders, see above",
    ("archiveinfo:SubstreamsInfo._read", "[1] * numfolders"): "numfolders Folder records were already parsed",
    ("archiveinfo:SubstreamsInfo._read", "for j in range(numsubstreams)"):
        "body indexes defined[didx]/crcs[didx], lists materialised above by read_boolean/read_crcs from the input; IndexError ends an over-long walk",
    ("archiveinfo:UnpackInfo._retrieve_coders_info", "for _ in range(c['numoutstreams'])"): "body performs a consuming read",
    ("archiveinfo:read_crcs", "[unpack('<L', data[i * 4:i * 4 + 4])[0] for i in range(count)]"):
        "data = file.read(4*count) is clamped by the buffer; a short buffer makes unpack raise on the first missing item",
}


def _substream_counts_bounded(ctx: Ctx, f: Func) -> bool:
    """in SubstreamsInfo._read: when the Size property is absent, a folder declaring more than one substream raises."""
    for n in walk(f.node):
        if isinstance(n, ast.If) and isinstance(n.test, ast.Compare) and any(isinstance(x, ast.Attribute) and x.attr == "SIZE" for x in ast.walk(n.test)) and n.orelse:
            for st in n.orelse:
                for x in ast.walk(st):
                    if isinstance(x, ast.If) and isinstance(x.test, ast.Compare) and isinstance(x.test.ops[0], ast.Gt) and isinstance(x.test.comparators[0], ast.Constant) \
                            and x.test.comparators[0].value == 1 and ("num_unpackstreams_folders" in norm(x.test.left) or _iterates_counts(f, x, x.test.left)) \
                            and any(isinstance(r, ast.Raise) for r in x.body):
                        return True
    return False


def _iterates_counts(f: Func, at: ast.AST, e: ast.AST) -> bool:
    """is `e` the loop variable of an enclosing `for ..., e in enumerate(<...num_unpackstreams_folders>)` / `for e in <...>`?"""
    if not isinstance(e, ast.Name):
        return False
    for lp in q.enclosing_loops(f, at):
        if isinstance(lp, ast.For) and "num_unpackstreams_folders" in norm(lp.iter) and any(isinstance(t, ast.Name) and t.id == e.id for t in ast.walk(lp.target)):
            return True
    return False


CONDITIONAL_OK = {
    ("archiveinfo:SubstreamsInfo._read", "[False] * num_digests_total"):
        ("sum of per-folder substream counts: with a Size property every count n consumed n-1 reads, without it a count > 1 raises, so the sum "
         "is bounded by input length + number of parsed folders", _substream_counts_bounded),
    ("archiveinfo:SubstreamsInfo._read", "[0] * num_digests_total"):
        ("same bound as [False] * num_digests_total", _substream_counts_bounded),
}


def read_closure(ctx: Ctx) -> Dict[str, Func]:
    return shared.read_closure(ctx)


# ------------------------------------------------------------------------------------------ R05.1
def _loop_var(test: ast.AST) -> Optional[Tuple[str, str]]:
    """(name, direction) for `x > 0`, `x < bound`, `x.attr < bound`."""
    if isinstance(test, ast.BoolOp) and isinstance(test.op, ast.And):
        # a conjunction ends as soon as one conjunct fails: any bounded conjunct is a variant
        for v in test.values:
            lv = _loop_var(v)
            if lv is not None:
                return lv
        return None
    if isinstance(test, ast.Compare) and len(test.ops) == 1:
        l, r, op = test.left, test.comparators[0], test.ops[0]
        if isinstance(op, (ast.Gt, ast.GtE)) and isinstance(r, ast.Constant) and r.value == 0:
            return norm(l), "down"
        if isinstance(op, (ast.Lt, ast.LtE)):
            return norm(l), "up"
    return None


def q_inner_loop(outer: ast.AST, node: ast.AST) -> bool:
    """is `node` inside a loop nested in `outer` (so that a continue does not target `outer`)."""
    for n in ast.walk(outer):
        if n is not outer and isinstance(n, (ast.For, ast.While)) and any(x is node for x in ast.walk(n)):
            return True
    return False


def _every_iteration_passes(f: Func, loop: ast.While, nodes: List[ast.AST]) -> bool:
    cfg = cfg_of(f.node)
    tn = cfg.by_ast[loop]
    tedge = next((s for s in tn.succ if s.kind == "true"), None)
    if tedge is None:
        return False
    through = {id(q.node_for(f, n)) for n in nodes}
    # only paths that stay inside the loop count as an iteration (leaving by break and coming back through an enclosing loop is a new entry)
    inside = {id(x) for x in ast.walk(loop)}

    def in_loop(n) -> bool:
        a = n.ast if n.ast is not None else (n.owner.ast if getattr(n, "owner", None) is not None else None)
        return a is not None and id(a) in inside
    seen, todo = set(), [tedge]
    while todo:
        n = todo.pop()
        if id(n) in seen or id(n) in through:
            continue
        seen.add(id(n))
        for s_ in n.succ:
            if s_.id in n.exc_succ:
                continue
            if s_ is tn:
                return False
            if in_loop(s_):
                todo.append(s_)
    return True


def classify_while(ctx: Ctx, f: Func, loop: ast.While) -> Tuple[str, str]:
    """returns (variant id or '', explanation)."""
    test = loop.test
    if getattr(loop, "_inlined_block", False) and loop.body and isinstance(loop.body[-1], ast.Break) and not any(
            isinstance(x, ast.Continue) and not q_inner_loop(loop, x) for x in ast.walk(loop)):
        return "V0", "single-pass block produced by helper inlining (ends in break, no continue)"
    body_nodes = [n for st in loop.body for n in walk(st)]
    # V3 / V4: while True
    if isinstance(test, ast.Constant) and test.value is True:
        # V4: retry over an acyclic constant table
        tries = [n for n in loop.body if isinstance(n, ast.Try)]
        if tries:
            for tr in tries:
                for h in tr.handlers:
                    for n in ast.walk(h):
                        if isinstance(n, ast.Assign) and isinstance(n.value, ast.Subscript) and isinstance(n.value.value, ast.Name) \
                                and isinstance(n.targets[0], ast.Name) and isinstance(n.value.slice, ast.Name) \
                                and n.value.slice.id == n.targets[0].id:
                            table = n.value.value.id
                            vals = q.assigned_values(f, table)
                            if len(vals) == 1 and isinstance(vals[0], ast.Dict):
                                try:
                                    d = ctx.ce.eval(vals[0], f.module)
                                except NotConst:
                                    return "", "retry table is not a constant dict"
                                for k in d:
                                    seen, cur = set(), k
                                    while cur in d:
                                        if cur in seen:
                                            return "", f"retry table {table} has a cycle through {cur!r}: the open-retry loop never ends when every mode fails"
                                        seen.add(cur)
                                        cur = d[cur]
                                # the handler must `raise` when the key is not in the table, and the normal path must break
                                return "V4", f"retry over acyclic constant table {table} ({len(d)} entries)"
            return "", "while True with try but no recognised retry table"
        # V3: consuming read on every iteration + a terminator break
        reads = [c for c in body_nodes if isinstance(c, ast.Call) and attr_tail(c) in CONSUMING_READS and attr_tail(c) in NUMBER_READS]
        breaks = [n for n in body_nodes if isinstance(n, (ast.Break, ast.Return))]
        if reads and breaks and _every_iteration_passes(f, loop, reads):
            return "V3", f"every iteration performs a consuming read ({attr_tail(reads[0])}) that raises at EOF; exits on a terminator"
        # V3b: every iteration reads a fixed positive number of bytes into X and raises when fewer came (`if len(X) < n: raise`): the stream is
        # finite, so the loop ends at a terminator or with that error
        raw = [n for n in loop.body if isinstance(n, ast.Assign) and isinstance(n.targets[0], ast.Name) and isinstance(n.value, ast.Call) and attr_tail(n.value) == "read"
               and n.value.args and isinstance(n.value.args[0], ast.Constant) and isinstance(n.value.args[0].value, int) and n.value.args[0].value > 0]
        for a in raw:
            x, width = a.targets[0].id, a.value.args[0].value
            short = [t for t in loop.body if isinstance(t, ast.If) and isinstance(t.test, ast.Compare) and norm(t.test) in (f"len({x}) < {width}", f"len({x}) != {width}", f"len({x}) == 0")
                     and any(isinstance(y, ast.Raise) for y in t.body)]
            if short and breaks and _every_iteration_passes(f, loop, [a]):
                return "V3", f"every iteration reads {width} byte(s) and raises on a short read; exits on a terminator"
        # daemon consumer with sentinel
        return "", "while True loop without a consuming read on every iteration"
    # V6: `while 0 < len(D) < bound:` ; body: M = read(...); if len(M) == 0: break; D += M   (D grows by >= 1 byte per iteration towards the bound)
    if isinstance(test, ast.Compare) and len(test.ops) == 2 and all(isinstance(o, (ast.Lt, ast.LtE)) for o in test.ops) \
            and isinstance(test.comparators[0], ast.Call) and dotted(test.comparators[0].func) == "len" and test.comparators[0].args \
            and isinstance(test.comparators[0].args[0], ast.Name):
        dname = test.comparators[0].args[0].id
        grows = [n for n in body_nodes if isinstance(n, ast.AugAssign) and isinstance(n.op, ast.Add) and isinstance(n.target, ast.Name) and n.target.id == dname
                 and isinstance(n.value, ast.Name)]
        for g in grows:
            m = g.value.id
            empties = [t for t in body_nodes if isinstance(t, ast.If) and any(isinstance(x, ast.Break) for x in t.body) and (
                (isinstance(t.test, ast.Compare) and norm(t.test) in (f"len({m}) == 0", f"not {m}")) or (isinstance(t.test, ast.UnaryOp) and norm(t.test.operand) == m))]
            cfg = cfg_of(f.node)
            if empties and _every_iteration_passes(f, loop, [g]) is not None:
                # every path back to the loop test passes the += (the only other way out is the break on an empty chunk)
                if _every_iteration_passes(f, loop, [g]):
                    return "V6", f"len({dname}) grows by a non-empty chunk on every iteration towards its bound; an empty chunk breaks"
        return "", f"unrecognised accumulate-until loop {norm(test)}"
    lv = _loop_var(test)
    if lv is None:
        # `while data:` with data re-read from a source each iteration
        if isinstance(test, ast.Name):
            reads = [n for n in body_nodes if isinstance(n, ast.Assign) and isinstance(n.targets[0], ast.Name) and n.targets[0].id == test.id
                     and isinstance(n.value, ast.Call) and attr_tail(n.value) == "read"]
            if reads and _every_iteration_passes(f, loop, reads):
                return "V3", "loop variable re-read from the source on every iteration (ends at source EOF)"
            # V7: a work list `while L:` - every iteration takes one item off (`L.pop()`), and items are put on only behind a counter test
            # that leaves the function (`n += 1; if n > CONST: return`): at most CONST refills of finitely many items each
            w = test.id
            pops = [n for n in body_nodes if isinstance(n, (ast.Assign, ast.Expr)) and isinstance(n.value, ast.Call) and attr_tail(n.value) == "pop"
                    and norm(n.value.func.value) == w and not n.value.args]
            puts_ = [n for n in body_nodes if isinstance(n, ast.Expr) and isinstance(n.value, ast.Call) and attr_tail(n.value) in ("extend", "append", "insert")
                     and norm(n.value.func.value) == w]
            other = [n for n in body_nodes if isinstance(n, (ast.Assign, ast.AugAssign)) and any(isinstance(t, ast.Name) and t.id == w for t in (n.targets if isinstance(n, ast.Assign) else [n.target]))]
            if pops and not other and _every_iteration_passes(f, loop, pops):
                cfg = cfg_of(f.node)
                def counted(p) -> bool:
                    pn = q.node_for(f, p)
                    for t in cfg.nodes:
                        if t.kind == "test" and isinstance(t.ast, ast.Compare) and len(t.ast.ops) == 1 and isinstance(t.ast.ops[0], (ast.Gt, ast.GtE)) and isinstance(t.ast.left, ast.Name) \
                                and cfg.dominates(t, pn) and any(e.kind == "true" and not cfg.reaches(e, pn) for e in t.succ):
                            c = t.ast.left.id
                            incs = [n for n in body_nodes if isinstance(n, ast.AugAssign) and isinstance(n.op, ast.Add) and isinstance(n.target, ast.Name) and n.target.id == c
                                    and isinstance(n.value, ast.Constant) and isinstance(n.value.value, int) and n.value.value > 0]
                            bound_const = isinstance(t.ast.comparators[0], ast.Constant) or isinstance(t.ast.comparators[0], ast.Name) and t.ast.comparators[0].id.isupper()
                            resets = [n for n in body_nodes if isinstance(n, ast.Assign) and any(isinstance(t_, ast.Name) and t_.id == c for t_ in n.targets)]
                            if incs and bound_const and not resets and any(cfg.dominates(q.node_for(f, i), pn) for i in incs):
                                return True
                    return False
                if all(counted(p) for p in puts_):
                    return "V7", f"work list `{w}`: one item taken off per iteration, refilled at most a constant number of times (counter test leaves the function)"
        return "", f"unrecognised loop condition {norm(test)}"
    var, direction = lv
    if direction == "down":
        # progress assignments to var
        dec = [n for n in body_nodes if isinstance(n, ast.AugAssign) and isinstance(n.op, ast.Sub) and norm(n.target) == var]
        reassign = [n for n in body_nodes if isinstance(n, ast.Assign) and norm(n.targets[0]) == var]
        # V1: var -= block, block = min(positive, var) on every iteration
        for d in dec:
            if isinstance(d.value, ast.Name):
                srcs = [v for v in q.assigned_values(f, d.value.id)]
                if srcs and all(isinstance(v, ast.Call) and dotted(v.func) == "min" and any(norm(a) == var for a in v.args) for v in srcs) \
                        and _every_iteration_passes(f, loop, [d]):
                    return "V1", f"{var} decreases by min(block, {var}) on every iteration"
        # V1b: var -= len(X) on every iteration, the loop is left before that when X is empty  (strictly decreasing by >= 1)
        for d in dec:
            if isinstance(d.value, ast.Call) and dotted(d.value.func) == "len" and d.value.args and isinstance(d.value.args[0], ast.Name):
                x = d.value.args[0].id
                leaves = [t for t in body_nodes if isinstance(t, ast.If) and any(isinstance(y, (ast.Break, ast.Raise, ast.Return)) for y in t.body)
                          and norm(t.test) in (f"len({x}) == 0", f"not {x}", f"len({x}) < 1")]
                cfg = cfg_of(f.node)
                if leaves and all(cfg.dominates(cfg.by_ast[t], q.node_for(f, d)) for t in leaves[:1]) and _every_iteration_passes(f, loop, [d]):
                    return "V1", f"{var} decreases by len({x}) >= 1 on every iteration (an empty {x} leaves the loop first)"
        # V5: progress depends on a decoder result
        dec_calls = [c for c in body_nodes if isinstance(c, ast.Call) and attr_tail(c) == "decompress"]
        if dec_calls:
            return _v5(ctx, f, loop, var, dec_calls, body_nodes)
        return "", f"no recognised strictly decreasing update of {var}"
    # direction up
    inc = [n for n in body_nodes if isinstance(n, ast.AugAssign) and isinstance(n.op, ast.Add) and norm(n.target) == var]
    for i in inc:
        step_ok = (isinstance(i.value, ast.Constant) and isinstance(i.value.value, int) and i.value.value > 0) or \
                  (isinstance(i.value, ast.Name) and i.value.id in f.params)
        if step_ok and _every_iteration_passes(f, loop, [i]):
            if isinstance(i.value, ast.Name):
                ctx.assume(f"{f.qname}: step parameter '{i.value.id}' is positive (its default is a positive constant)")
            return "V2", f"{var} increases by a positive step on every iteration against a fixed bound"
    return "", f"no recognised strictly increasing update of {var}"


def _v5(ctx: Ctx, f: Func, loop: ast.While, var: str, dec_calls, body_nodes) -> Tuple[str, str]:
    """decoder-progress loop: needs an exit that is control dependent on 'nothing was produced'."""
    cfg = cfg_of(f.node)
    # names bound to the decoder result, or to something whose size tracks it
    produced: Set[str] = set()
    for n in body_nodes:
        if isinstance(n, (ast.Assign, ast.AugAssign)):
            val = n.value
            if any(c in list(ast.walk(val)) for c in dec_calls):
                t = n.targets[0] if isinstance(n, ast.Assign) else n.target
                if isinstance(t, ast.Name):
                    produced.add(t.id)
    if not produced:
        return "", "decoder result is not bound to a name"

    # locals holding the length of the produced data (chunk_len = len(chunk))
    size_names: Set[str] = set()
    for n in body_nodes:
        if isinstance(n, ast.Assign) and isinstance(n.targets[0], ast.Name) and isinstance(n.value, ast.Call) and dotted(n.value.func) == "len" \
                and n.value.args and isinstance(n.value.args[0], ast.Name) and n.value.args[0].id in produced:
            size_names.add(n.targets[0].id)

    def about_emptiness(e: ast.AST) -> bool:
        # len(tmp) == 0 / len(tmp) > 0 / not tmp / tmp  (on a produced name, or on a local holding its length)
        for n in ast.walk(e):
            if isinstance(n, ast.Call) and dotted(n.func) == "len" and n.args and isinstance(n.args[0], ast.Name) and n.args[0].id in produced:
                return True
            if isinstance(n, ast.Name) and n.id in size_names:
                return True
        if isinstance(e, ast.Name) and e.id in produced:
            return True
        return False

    # stall counters: names incremented/assigned under an emptiness fact
    counters: Set[str] = set()
    for n in body_nodes:
        if isinstance(n, (ast.AugAssign, ast.Assign)):
            t = n.target if isinstance(n, ast.AugAssign) else n.targets[0]
            if isinstance(t, ast.Name) and t.id not in produced and norm(t) != var:
                facts = q.facts_at(f, n)
                if any(about_emptiness(c) for c, _ in facts) or (isinstance(n, ast.Assign) and isinstance(n.value, ast.IfExp) and about_emptiness(n.value.test)):
                    counters.add(t.id)
    exits = [n for n in body_nodes if isinstance(n, (ast.Raise, ast.Break, ast.Return))]
    for e in exits:
        facts = q.facts_at(f, e)
        for cond, pol in facts:
            if about_emptiness(cond):
                # must be the "empty" polarity: len(x)==0 true, len(x)>0 false, `not x` true, x false
                empty = _empty_polarity(cond, pol, produced)
                if empty and not any(isinstance(n, ast.Name) and n.id in counters for c2, _ in facts for n in ast.walk(c2)):
                    return "V5", f"no-progress exit: {norm(e)} when the decoder produced nothing"
    if counters:
        # stall-counter idiom, decided on the paths of ONE iteration (loop head -> loop head): an iteration that may have produced nothing either
        # passes the false outcome of the decoder's 'no input left' test (the decoder still holds input: it makes progress on that side), or it
        # steps a counter by a positive constant, does not reset it afterwards, and passes the test of that counter whose true outcome leaves the loop
        head = cfg.by_ast[loop]
        start = next(s_ for s_ in head.succ if s_.kind == "true")
        inside = {id(x) for st in loop.body for x in ast.walk(st)} | {id(loop.test)}
        paths: List[List] = []

        def dfs(n, path, seen):
            if len(paths) > 400:
                return
            for s_ in n.succ:
                if s_.id in n.exc_succ:
                    continue
                if s_ is head:
                    paths.append(path + [s_])
                    continue
                a_ = getattr(s_, "ast", None)
                if s_.kind in ("join",) or (a_ is not None and id(a_) in inside) or s_.kind in ("true", "false"):
                    if a_ is not None and id(a_) not in inside and s_.kind not in ("join",):
                        continue
                    if id(s_) in seen:
                        continue
                    dfs(s_, path + [s_], seen | {id(s_)})
        dfs(start, [start], {id(start)})
        if not paths or len(paths) > 400:
            return "", "the iteration paths of the decoder loop could not be enumerated"
        for path in paths:
            facts = [(a_, ap) for n in path if n.kind in ("true", "false") and n is not start for a_, ap in q.atoms(n.ast, n.kind == "true")]
            nonempty = any(about_emptiness(cd) and _nonempty_polarity(cd, pol, produced) for cd, pol in facts)
            if nonempty:
                continue  # the iteration produced output: the loop variable decreases (V5's premise, checked by the caller's loop-variable analysis)
            still_input = any(isinstance(cd, ast.Call) and attr_tail(cd) in ("is_exhausted", "eof", "needs_input") and not pol for cd, pol in facts)
            if still_input:
                continue
            # `if len(x) == 0 and dec.is_exhausted(): <stall arm> else: ...` - the else path knows that the conjunction is false: something was
            # produced, or input is left
            either = any((not pol) and isinstance(cd, ast.BoolOp) and isinstance(cd.op, ast.And) and all(
                (about_emptiness(v) and _empty_polarity(v, True, produced)) or (isinstance(v, ast.Call) and attr_tail(v) in ("is_exhausted", "eof")) for v in cd.values)
                and any(isinstance(v, ast.Call) and attr_tail(v) in ("is_exhausted", "eof") for v in cd.values) for cd, pol in facts)
            if either:
                continue
            # the same test written the other way round (De Morgan): `if len(x) != 0 or not dec.is_exhausted(): <go on> else: <stall arm>` - the true
            # path knows that something was produced, or input is left
            def _not_exh(v: ast.AST) -> bool:
                return isinstance(v, ast.UnaryOp) and isinstance(v.op, ast.Not) and isinstance(v.operand, ast.Call) and attr_tail(v.operand) in ("is_exhausted", "eof")
            either2 = any(pol and isinstance(cd, ast.BoolOp) and isinstance(cd.op, ast.Or) and all(
                (about_emptiness(v) and _nonempty_polarity(v, True, produced)) or _not_exh(v) for v in cd.values) and any(_not_exh(v) for v in cd.values) for cd, pol in facts)
            if either2:
                continue
            ok = False
            for cname in sorted(counters):
                idx_step = [i for i, n in enumerate(path) if n.kind == "stmt" and isinstance(n.ast, ast.AugAssign) and isinstance(n.ast.op, ast.Add) and norm(n.ast.target) == cname
                            and isinstance(n.ast.value, ast.Constant) and isinstance(n.ast.value.value, int) and n.ast.value.value > 0]
                if not idx_step:
                    continue
                # the counter is not set back anywhere in the iteration, and the iteration passes the counter's raising test - after the step
                # (`c += 1; if c > 1: raise`) or before it (`if c >= 1: raise; c += 1`): either way the test sees every value the counter takes
                reset_after = any(n.kind == "stmt" and isinstance(n.ast, ast.Assign) and norm(n.ast.targets[0]) == cname for n in path)
                tested_after = False
                for n in path:
                    if n.kind == "false" and isinstance(n.ast, ast.Compare) and norm(n.ast.left) == cname and isinstance(n.ast.ops[0], (ast.Gt, ast.GtE)) \
                            and isinstance(n.ast.comparators[0], ast.Constant):
                        te = next((x for x in n.owner.succ if x.kind == "true"), None) if n.owner is not None else None
                        if te is not None and q.branch_always_raises(cfg, te):
                            tested_after = True
                if not reset_after and tested_after:
                    ok = True
            if not ok:
                stmts = [norm(n.ast)[:40] for n in path if n.kind in ("true", "false") and n is not start]
                return "", ("an iteration of the decoder loop that may produce nothing and is not known to leave input in the decoder [" + " ; ".join(
                    ("" if n.kind == "true" else "not ") + norm(n.ast)[:36] for n in path if n.kind in ("true", "false") and n is not start) +
                    "] neither steps a stall counter (by a positive constant, without resetting it) nor passes the counter's test whose true outcome raises: with a declared "
                    "size larger than the decodable data the loop spins forever")
        return "V5", "every iteration that may produce nothing either leaves input in the decoder or steps the stall counter towards its raising test"
    return "", (f"the loop ends only when {var} reaches 0, and {var} changes only by the amount the decoder returns: when the decoder "
                "returns nothing and no input remains (declared size larger than the decodable data, or a decoder left at "
                "end-of-stream by an earlier pass) the loop spins forever")


def _nonempty_polarity(cond: ast.AST, pol: bool, produced: Set[str]) -> bool:
    """does (cond has truth value pol) say that something WAS produced?  len(x) > 0 true, len(x) == 0 false, x true, `len(x) >= 1` true"""
    if isinstance(cond, ast.Compare) and len(cond.ops) == 1:
        op, r = cond.ops[0], cond.comparators[0]
        if isinstance(r, ast.Constant) and r.value == 0:
            if isinstance(op, (ast.Gt, ast.NotEq)):
                return pol
            if isinstance(op, (ast.Eq, ast.LtE)):
                return not pol
        if isinstance(r, ast.Constant) and r.value == 1:
            if isinstance(op, ast.GtE):
                return pol
            if isinstance(op, ast.Lt):
                return not pol
        return False
    if isinstance(cond, ast.Name):
        return pol
    if isinstance(cond, ast.Call) and dotted(cond.func) == "len":
        return pol
    return False


def _empty_polarity(cond: ast.AST, pol: bool, produced: Set[str]) -> bool:
    if isinstance(cond, ast.Compare) and len(cond.ops) == 1:
        op, r = cond.ops[0], cond.comparators[0]
        if isinstance(r, ast.Constant) and r.value == 0:
            if isinstance(op, ast.Eq):
                return pol
            if isinstance(op, (ast.Gt, ast.NotEq)):
                return not pol
            if isinstance(op, ast.LtE):
                return pol
        if isinstance(r, ast.Constant) and r.value == 1 and isinstance(op, ast.Lt):
            return pol
        return False
    if isinstance(cond, ast.Name):
        return not pol
    if isinstance(cond, ast.Call) and dotted(cond.func) == "len":
        return not pol
    return False


def r05_1(ctx: Ctx, closure: Dict[str, Func]) -> None:
    n = 0
    for fq, f in sorted(closure.items()):
        for loop in [x for x in walk(f.node) if isinstance(x, ast.While)]:
            n += 1
            variant, why = classify_while(ctx, f, loop)
            if f.name == "reporter" and not variant:
                # daemon consumer thread: blocks in q.get(timeout) and ends on the sentinel posted by close(); not a read-API call path that must return
                br = [x for x in walk(loop) if isinstance(x, ast.Break)]
                gets = [c for c in walk(loop) if isinstance(c, ast.Call) and attr_tail(c) == "get"]
                if br and gets:
                    ctx.ok("R05.1", f"{fq}: while {norm(loop.test)}", "daemon consumer: blocks on queue.get, ends on sentinel (C18 covers delivery)")
                    continue
            ctx.check(bool(variant), "R05.1", f, loop, f"{fq}: while {norm(loop.test)} [{variant}] {why}", why,
                      construct=f"while {norm(loop.test)}", path=ctx.res.call_path(shared.read_roots(ctx), fq))
    ctx.floor("R05.1", n, 3, "while loops in closure(read API)")


# ------------------------------------------------------------------------------------------ R05.2
def _tainted_names(ctx: Ctx, f: Func, tainted_params: Set[str]) -> Set[str]:
    t: Set[str] = set(tainted_params)
    changed = True
    while changed:
        changed = False
        for n in walk(f.node):
            tgt = val = None
            if isinstance(n, ast.Assign):
                tgt, val = n.targets[0], n.value
            elif isinstance(n, ast.AugAssign):
                tgt, val = n.target, n.value
            elif isinstance(n, ast.AnnAssign) and n.value is not None:
                tgt, val = n.target, n.value
            if tgt is None:
                continue
            src = False
            for s in ast.walk(val):
                if isinstance(s, ast.Call) and attr_tail(s) in NUMBER_READS:
                    src = True
                if isinstance(s, ast.Name) and s.id in t:
                    src = True
                if isinstance(s, ast.Attribute) and norm(s) in t:
                    src = True
                if isinstance(s, ast.Subscript) and norm(s.value) + "[]" in t:
                    src = True
            if src:
                names = []
                if isinstance(tgt, ast.Tuple):
                    names = [norm(e) for e in tgt.elts[:1]]
                else:
                    names = [norm(tgt)]
                for nm in names:
                    # a list of NUMBERs: its elements are tainted (recorded as 'name[]')
                    if isinstance(val, ast.ListComp) and any(isinstance(s, ast.Call) and attr_tail(s) in NUMBER_READS for s in ast.walk(val.elt)):
                        if nm + "[]" not in t:
                            t.add(nm + "[]")
                            changed = True
                        continue
                    # a bytes/list value is not a bound; only integers are: skip obvious non-int constructors
                    if isinstance(val, (ast.ListComp, ast.List)) or (isinstance(val, ast.Call) and attr_tail(val) in ("read", "BytesIO")):
                        continue
                    if nm not in t:
                        t.add(nm)
                        changed = True
    return t


def _bound_uses(f: Func, tainted: Set[str]):
    """yield (node, kind, bound expr, body) for loops/allocations bounded by a tainted value."""
    def is_t(e: ast.AST) -> bool:
        for s in ast.walk(e):
            if isinstance(s, ast.Name) and s.id in tainted:
                return True
            if isinstance(s, ast.Attribute) and norm(s) in tainted:
                return True
            if isinstance(s, ast.Subscript) and norm(s.value) + "[]" in tainted:
                return True
            if isinstance(s, ast.Call) and attr_tail(s) in NUMBER_READS:
                return True
        return False

    for n in walk(f.node):
        if isinstance(n, ast.For) and isinstance(n.iter, ast.Call) and dotted(n.iter.func) == "range" and any(is_t(a) for a in n.iter.args):
            yield n, "for", n.iter, n.body
        elif isinstance(n, (ast.ListComp, ast.GeneratorExp, ast.SetComp, ast.DictComp)):
            for g in n.generators:
                if isinstance(g.iter, ast.Call) and dotted(g.iter.func) == "range" and any(is_t(a) for a in g.iter.args):
                    yield n, "comp", g.iter, [n.elt] if hasattr(n, "elt") else [n.key, n.value]
        elif isinstance(n, ast.BinOp) and isinstance(n.op, ast.Mult):
            for a, b in ((n.left, n.right), (n.right, n.left)):
                if isinstance(a, (ast.List, ast.Constant)) and not isinstance(getattr(a, "value", None), (int, float)) and is_t(b):
                    yield n, "repeat", b, []
        elif isinstance(n, ast.Call) and dotted(n.func) in ("bytes", "bytearray") and n.args and is_t(n.args[0]) and not isinstance(n.args[0], ast.Call):
            yield n, "alloc", n.args[0], []


_consume_memo: Dict[str, bool] = {}


def _func_consumes(ctx: Ctx, g: Func, depth: int = 3) -> bool:
    """every normal path through g performs a consuming read (directly or through a helper that does)."""
    if g.qname in _consume_memo:
        return _consume_memo[g.qname]
    _consume_memo[g.qname] = False
    cfg = cfg_of(g.node)
    nodes = []
    for c in q.calls(g):
        hit = attr_tail(c) in CONSUMING_READS or (attr_tail(c) == "read" and c.args and isinstance(c.args[0], ast.Constant) and c.args[0].value >= 1)
        if not hit and depth > 0:
            for tq in shared.targets_of(ctx, g, c):
                h = ctx.res._func_by_q(tq)
                if h is not None and h.module == "archiveinfo" and _func_consumes(ctx, h, depth - 1):
                    hit = True
        if hit:
            nodes.append(q.node_for(g, c))
    ok = bool(nodes) and cfg.every_path_to_exit_passes(cfg.entry, nodes)
    _consume_memo[g.qname] = ok
    return ok


def _body_consumes(body: List[ast.AST], ctx: Optional[Ctx] = None, f: Optional[Func] = None) -> bool:
    for st in body:
        for c in ast.walk(st):
            if isinstance(c, ast.Call) and attr_tail(c) in CONSUMING_READS:
                return True
            if isinstance(c, ast.Call) and attr_tail(c) == "read" and c.args and isinstance(c.args[0], ast.Constant) and c.args[0].value >= 1:
                return True
            if isinstance(c, ast.Call) and ctx is not None and f is not None:
                for tq in shared.targets_of(ctx, f, c):
                    h = ctx.res._func_by_q(tq)
                    if h is not None and h.module == "archiveinfo" and _func_consumes(ctx, h):
                        return True
    return False


def _for_key(n: ast.AST) -> str:
    if isinstance(n, ast.For):
        return f"for {norm(n.target)} in {norm(n.iter)}"
    return norm(n)


def r05_2(ctx: Ctx, closure: Dict[str, Func]) -> None:
    # tainted parameters: from call sites inside the header readers
    readers = {fq: f for fq, f in closure.items() if f.module == "archiveinfo"}
    tparams: Dict[str, Set[str]] = {fq: set() for fq in readers}
    tnames: Dict[str, Set[str]] = {}
    for _ in range(4):
        for fq, f in readers.items():
            tnames[fq] = _tainted_names(ctx, f, tparams[fq])
        for fq, f in readers.items():
            for cs in ctx.res.sites_in(f):
                for g in cs.targets:
                    if g.qname not in readers:
                        continue
                    params = g.params[1:] if g.cls and not g.is_static else g.params
                    for p, a in list(zip(params, cs.node.args)) + [(k.arg, k.value) for k in cs.node.keywords if k.arg]:
                        hit = any((isinstance(s, ast.Name) and s.id in tnames[fq]) or (isinstance(s, ast.Attribute) and norm(s) in tnames[fq])
                                  or (isinstance(s, ast.Call) and attr_tail(s) in NUMBER_READS) for s in ast.walk(a))
                        # len(list) of parsed records is bounded by consumed input: not tainted
                        if hit and not (isinstance(a, ast.Call) and dotted(a.func) == "len"):
                            tparams[g.qname].add(p)
    n_sites = 0
    for fq, f in sorted(readers.items()):
        for node, kind, bound, body in _bound_uses(f, tnames[fq]):
            n_sites += 1
            key = _for_key(node)
            site = f"{fq}: {key}"
            if kind in ("for", "comp") and _body_consumes(body, ctx, f):
                ctx.ok("R05.2", site, "each iteration performs a consuming read: work is bounded by the input length")
                continue
            if (fq, key) in RELATIONAL_OK:
                ctx.ok("R05.2", site, "frozen exception: " + RELATIONAL_OK[(fq, key)])
                continue
            if (fq, key) in CONDITIONAL_OK:
                reason, cond = CONDITIONAL_OK[(fq, key)]
                if cond(ctx, f):
                    ctx.ok("R05.2", site, "frozen exception (side condition re-checked on this tree): " + reason)
                    continue
            # compared against remaining input first?
            ctx.fail("R05.2", f, node,
                     f"{kind} bounded by a count read from the header ({norm(bound)}) with no consuming read per iteration and no comparison "
                     "with the remaining input: a few header bytes make the parser allocate/loop in proportion to the declared count",
                     construct=key, path=ctx.res.call_path(shared.read_roots(ctx), fq))
    ctx.floor("R05.2", n_sites, 8, "attacker-sized bounds in the header readers")


# ------------------------------------------------------------------------------------------ R05.3
def r05_3(ctx: Ctx, closure: Dict[str, Func]) -> None:
    for fq, f in sorted(closure.items()):
        for c in q.calls(f):
            nm = dotted(c.func)
            if nm in ("exit", "quit", "sys.exit", "os._exit", "os.abort", "os.kill"):
                ctx.fail("R05.3", f, c, f"{nm}() in the read-mode closure terminates the interpreter instead of raising an ordinary exception",
                         path=ctx.res.call_path(shared.read_roots(ctx), fq))
    ctx.ok("R05.3", f"no interpreter exit in {len(closure)} functions of closure(read API)")
    init = shared.szf(ctx, "__init__")
    cfg = cfg_of(init.node)
    parse_calls = [c for c in q.calls(init) if attr_tail(c) == "_real_get_contents"]
    ctx.floor("R05.3", len(parse_calls), 1, "_real_get_contents call in the constructor")
    for c in parse_calls:
        # innermost try with a catch-all handler that closes and re-raises
        good = False
        for tr in [n for n in walk(init.node) if isinstance(n, ast.Try)]:
            if not any(c in list(ast.walk(st)) for st in tr.body):
                continue
            for h in tr.handlers:
                names = {n.id for n in ast.walk(h.type) if isinstance(n, ast.Name)} if h.type is not None else {"BaseException"}
                if names & {"Exception", "BaseException"}:
                    closes = any(isinstance(x, ast.Call) and attr_tail(x) in ("_fpclose", "close") for x in ast.walk(h))
                    reraises = any(isinstance(x, ast.Raise) for x in ast.walk(h))
                    hn = cfg.by_ast[h]
                    falls = cfg.exit in cfg.reachable_from(hn)
                    if closes and reraises and not falls:
                        good = True
        ctx.check(good, "R05.3", init, c, "constructor closes the handle and re-raises on a parse error",
                  "a parse error in the constructor does not close the file handle and re-raise")


def r05_4(ctx: Ctx) -> None:
    """attacker-controlled exponent: the KDF round count 2**NumCyclesPower must be bounded before the key is derived."""
    f = ctx.prog.func("compressor", "AESDecompressor.__init__")
    cfg = cfg_of(f.node)
    ck = [c for c in q.calls(f) if attr_tail(c) == "calculate_key"]
    ctx.floor("R05.4", len(ck), 1, "calculate_key call in AESDecompressor.__init__")
    for c in ck:
        cyc = c.args[1] if len(c.args) > 1 else None
        ctx.need(isinstance(cyc, ast.Name), "cycles argument of calculate_key is not a local name")
        cn = q.node_for(f, c)
        bound = None
        for n in cfg.nodes:
            a = n.ast
            tests = []
            if n.kind == "stmt" and isinstance(a, ast.Assert):
                tests.append((a.test, True, n))
            elif n.kind == "test":
                # `if cycles > K: raise`  -> on the false edge cycles <= K
                fe = next((s for s in n.succ if s.kind == "false"), None)
                te = next((s for s in n.succ if s.kind == "true"), None)
                if te is not None and q.branch_always_raises(cfg, te) and fe is not None and cfg.dominates(fe, cn):
                    tests.append((a, False, n))
            for t, pol, node in tests:
                if not (isinstance(t, ast.Compare) and len(t.ops) == 1 and isinstance(t.left, ast.Name) and t.left.id == cyc.id):
                    continue
                if not cfg.dominates(node, cn):
                    continue
                try:
                    k = ctx.ce.eval(t.comparators[0], "compressor")
                except NotConst:
                    continue
                op = t.ops[0]
                if pol and isinstance(op, (ast.LtE, ast.Lt)):
                    bound = k if isinstance(op, ast.LtE) else k - 1
                if not pol and isinstance(op, (ast.Gt, ast.GtE)):
                    bound = k if isinstance(op, ast.Gt) else k - 1
        ctx.check(bound is not None and bound <= 30, "R05.4", f, c, f"NumCyclesPower bounded by {bound} before key derivation",
                  f"the KDF exponent read from the archive reaches calculate_key with bound {bound}: a few header bytes (NumCyclesPower up to 62) start a 2^k-round hash "
                  "that never finishes in practice", construct="NumCyclesPower bound")


def r05_5(ctx: Ctx, closure: Dict[str, Func]) -> None:
    """no recursion in the read-mode closure (a cycle in the resolved call graph would need its own termination argument)."""
    graph = {fq: [g.qname for g in ctx.res.callees(f, include_ambiguous=False) if g.qname in closure] for fq, f in closure.items()}
    # Tarjan SCC
    index, low, onstack, stack, sccs = {}, {}, set(), [], []
    import sys
    sys.setrecursionlimit(10000)

    def strong(v):
        index[v] = low[v] = len(index)
        stack.append(v)
        onstack.add(v)
        for w in graph.get(v, []):
            if w not in index:
                strong(w)
                low[v] = min(low[v], low[w])
            elif w in onstack:
                low[v] = min(low[v], index[w])
        if low[v] == index[v]:
            comp = []
            while True:
                w = stack.pop()
                onstack.discard(w)
                comp.append(w)
                if w == v:
                    break
            sccs.append(comp)
    for v in graph:
        if v not in index:
            strong(v)
    cyc = [c for c in sccs if len(c) > 1 or (c[0] in graph.get(c[0], []))]
    for c in cyc:
        f = closure[c[0]]
        ctx.fail("R05.5", f, f.node, f"recursion in the read-mode closure through {sorted(c)}: its depth is controlled by the input and has no recognised bound", construct="recursion " + ",".join(sorted(c)))
    ctx.ok("R05.5", f"call graph of closure(read API): {len(graph)} functions, {sum(len(v) for v in graph.values())} edges, no cycle" if not cyc else "cycles found")


def countdown_by_delivered(ctx: Ctx, closure: Dict[str, Func], rule: str) -> None:
    """a loop that counts a declared size down while reading (`while remaining > 0: data = fp.read(min(block, remaining)); ...`) subtracts what
    the read DELIVERED (`len(data)`), not what it asked for: a handle may hand out less than asked without being at its end (a multi-volume
    file at a volume boundary, a chunked wrapper) - counting the request down skips the rest of the range, and test() calls an intact
    archive damaged."""
    n = 0
    for fq, f in sorted(closure.items()):
        for lp in [x for x in walk(f.node) if isinstance(x, ast.While)]:
            lv = _loop_var(lp.test)
            if lv is None or lv[1] != "down":
                continue
            rd = [a for st in lp.body for a in ast.walk(st) if isinstance(a, ast.Assign) and isinstance(a.value, ast.Call) and attr_tail(a.value) == "read"
                  and a.value.args and not isinstance(a.value.args[0], ast.Constant) and isinstance(a.targets[0], ast.Name)]
            if not rd or any(isinstance(c, ast.Call) and attr_tail(c) == "decompress" for st in lp.body for c in ast.walk(st)):
                continue
            got = {a.targets[0].id for a in rd}
            for dec in [x for st in lp.body for x in ast.walk(st) if isinstance(x, ast.AugAssign) and isinstance(x.op, ast.Sub) and norm(x.target) == lv[0]]:
                n += 1
                v = q.expand_locals(f, dec.value, keep=sorted(got))
                ok = isinstance(v, ast.Call) and dotted(v.func) == "len" and v.args and isinstance(v.args[0], ast.Name) and v.args[0].id in got
                ctx.check(ok, rule, f, dec, f"{fq}: `{lv[0]}` is counted down by what the read delivered",
                          f"`{norm(dec)}` counts the declared size down by the size ASKED for, not by `len(...)` of what read() returned: on a handle that delivers less than asked "
                          "without being at its end (a multi-volume file at a volume boundary, a wrapper that reads in chunks) part of the range is never read - test() reports an "
                          "intact archive as damaged", construct=f"countdown of {lv[0]} by the request")
    ctx.floor(rule, n, 1, "countdowns of a declared size in reading loops")


def r05_8(ctx: Ctx, closure: Dict[str, Func]) -> None:
    """declared sizes never drive a loop past the end of the file: (a) a loop of the read closure that counts a DECLARED size down while
    reading from the archive handle leaves (break / raise) when a read comes back short; (b) SevenZipDecompressor._read_data, which feeds
    every decode loop, notices a short read (the stall detection of R05.1-V5 only ends the loop when the packed input counts as used up;
    if `consumed` only grows by what the file really delivers, a pack size beyond EOF is never used up); (c) read_utf16 raises when the
    string is not terminated before the data ends (otherwise every remaining declared name costs MAX_LENGTH iterations)."""
    n = 0
    for fq, f in sorted(closure.items()):
        for lp in [x for x in walk(f.node) if isinstance(x, ast.While)]:
            lv = _loop_var(lp.test)
            if lv is None or lv[1] != "down":
                continue
            reads = [c for st in lp.body for c in ast.walk(st) if isinstance(c, ast.Call) and attr_tail(c) == "read" and c.args and not (isinstance(c.args[0], ast.Constant))]
            if not reads or any(isinstance(c, ast.Call) and attr_tail(c) == "decompress" for st in lp.body for c in ast.walk(st)):
                continue
            n += 1
            # the value of the read must be length-tested inside the loop with a leaving branch
            ok = False
            for t in [x for st in lp.body for x in ast.walk(st) if isinstance(x, ast.If)]:
                mentions_len = any(isinstance(y, ast.Call) and dotted(y.func) == "len" for y in ast.walk(t.test)) or isinstance(t.test, (ast.Name, ast.UnaryOp))
                leaves = any(isinstance(y, (ast.Break, ast.Raise, ast.Return)) for st in t.body + t.orelse for y in ast.walk(st))
                if mentions_len and leaves:
                    ok = True
            ctx.check(ok, "R05.8", f, lp, f"{fq}: the size-countdown read loop leaves on a short read",
                      f"{fq} counts the declared size `{lv[0]}` down in block steps and never looks at what read() returned: a pack size far beyond the end of the file "
                      "(2^45 in an 87-byte archive) keeps test() busy for millions of empty reads", construct=f"countdown read loop {lv[0]}")
    ctx.floor("R05.8", n, 1, "size-countdown read loops in the read closure")
    countdown_by_delivered(ctx, closure, "R05.8")
    rd = ctx.prog.func("compressor", "SevenZipDecompressor._read_data")
    reads = [c for c in q.calls(rd) if attr_tail(c) == "read" or (dotted(c.func) or "").split(".")[-1] == "read_fully"]  # read_fully: the package's short-read loop (R01.15)
    ctx.floor("R05.8", len(reads), 1, "archive reads in _read_data")
    # path-complete: from the FIRST read of the call every way out passes a test of what was delivered against what was asked for
    # (`len(data) < read_size`; not the test of the retry loop, which an EMPTY first read never enters), and its short arm corrects
    # `input_size` (or raises).  A correction that sits inside the retry loop is never reached when the very first read is empty.
    rcfg = cfg_of(rd.node)
    first = min((q.node_for(rd, c) for c in reads), key=lambda nd: nd.lineno, default=None)
    loops_ = [w for w in walk(rd.node) if isinstance(w, (ast.While, ast.For))]

    def in_loop(x: ast.AST) -> bool:
        return any(any(y is x for st in w.body for y in ast.walk(st)) or (isinstance(w, ast.While) and any(y is x for y in ast.walk(w.test))) for w in loops_)
    short_tests = [t for t in rcfg.nodes if t.kind == "test" and not in_loop(t.ast) and any(isinstance(y, ast.Call) and dotted(y.func) == "len" for y in ast.walk(t.ast))
                   and any(isinstance(y, ast.Compare) for y in ast.walk(t.ast))]
    short = False
    if first is not None and short_tests and rcfg.every_path_to_exit_passes(first, short_tests):
        short = True
        for t in short_tests:
            arms = [e for e in t.succ if e.kind in ("true", "false")]
            fixes = [n_ for n_ in rcfg.nodes if n_.kind == "stmt" and isinstance(n_.ast, (ast.Assign, ast.AugAssign)) and any(
                isinstance(y, ast.Attribute) and y.attr == "input_size" and isinstance(y.ctx, ast.Store) for y in ast.walk(n_.ast))]
            if not any(q.branch_always_raises(rcfg, e) or (fixes and rcfg.every_path_to_exit_passes(e, fixes)) for e in arms):
                short = False
    ctx.check(short, "R05.8", rd, reads[0] if reads else rd.node, "_read_data accounts for a short read (end of file before the declared packed size)",
              "SevenZipDecompressor._read_data adds only the bytes the file delivered to `consumed` and never notices a short read: when the declared pack size reaches beyond the end "
              "of the file the packed input never counts as used up, the stall detection never fires and every decode loop (extract, testzip, packed header) spins forever",
              construct="_read_data short read")
    u = ctx.prog.func("archiveinfo", "read_utf16")
    ok = any(isinstance(t, ast.If) and any(isinstance(y, ast.Raise) for st in t.body for y in ast.walk(st)) and
             (any(isinstance(y, ast.Call) and dotted(y.func) == "len" for y in ast.walk(t.test)) or isinstance(t.test, ast.UnaryOp)) for t in walk(u.node) if isinstance(t, ast.If))
    ctx.check(ok, "R05.8", u, u.node, "read_utf16 raises when the data ends inside a name",
              "read_utf16 does not test for the end of the data: once the names record is used up every remaining DECLARED member costs MAX_LENGTH (65536) empty reads "
              "(a 48-byte archive declaring 20000 files keeps the constructor busy for minutes) and truncated names are accepted", construct="read_utf16 eof")


def r05_9(ctx: Ctx) -> None:
    """PPMd model memory comes from the archive (coder property `mem`, up to 4 GiB): it is bounded before the decoder is created."""
    f = ctx.prog.func("compressor", "PpmdDecompressor.__init__")
    mk = [c for c in q.calls(f) if attr_tail(c) == "Ppmd7Decoder"]
    ctx.floor("R05.9", len(mk), 1, "Ppmd7Decoder constructions")
    for c in mk:
        memarg = c.args[1] if len(c.args) > 1 else None
        facts = q.facts_at(f, c)
        bounded = memarg is not None and any(isinstance(cd, ast.Compare) and norm(memarg) in norm(cd) and isinstance(cd.ops[0], (ast.Lt, ast.LtE, ast.Gt, ast.GtE)) for cd, pol in facts)
        cfg = cfg_of(f.node)
        for t in cfg.nodes:
            if t.kind == "test" and memarg is not None and norm(memarg) in norm(t.ast) and cfg.dominates(t, q.node_for(f, c)) and any(
                    e.kind in ("true", "false") and q.branch_always_raises(cfg, e) for e in t.succ):
                bounded = True
        ctx.check(bounded, "R05.9", f, c, "PPMd memory size bounded before allocation",
                  "PpmdDecompressor passes the archive's `mem` value (up to 0xFFFFFFFF) to pyppmd unchecked: a 92-byte archive requests 4 GiB; under a 3 GiB address-space limit the failed "
                  "allocation aborts the interpreter (double free, SIGABRT)", construct="ppmd mem unbounded")


def run(ctx: Ctx) -> None:
    from . import c06 as _c06g
    _c06g.r06_18(ctx, rule="R05.11")  # a record that is parsed out of its place (a CRC vector sized by a count no Size record confirmed) allocates by a declared number
    from . import c04 as _c04s
    _c04s.r04_18(ctx, rule="R05.10")  # the decoder's predicates say what their names say
    shared.strict_reads(ctx, "R05.6")
    from . import c20
    c20.r20_1(ctx, rule="R05.7")
    c20.r20_3(ctx)  # the packed header is decoded in bounded steps: its declared size, not its decoded size, limits the buffer
    r05_4(ctx)
    closure = read_closure(ctx)
    ctx.extra["closure_size"] = len(closure)
    r05_1(ctx, closure)
    r05_2(ctx, closure)
    r05_3(ctx, closure)
    r05_5(ctx, closure)
    r05_8(ctx, closure)
    r05_9(ctx)
