"""C17 — header values survive storage across their whole legal range."""
from __future__ import annotations

import ast
import struct
from typing import Dict, List, Optional, Tuple

from ..cfg import cfg_of
from ..consteval import NotConst
from ..model import AnalysisError, Func, attr_tail, dotted, norm, walk
from ..report import Ctx
from .. import q, spec7z
from . import shared

EXPLANATION = (
    "Constant/abstract evaluation of the header primitives against the frozen format tables: the reader's NUMBER class table "
    "equals the format's first-byte table; write_uint64's byte length (evaluated over the finite domain of bit lengths 8..56) "
    "stays in 1..7 and is sufficient, so at most nine bytes are emitted, and for each byte length the first-byte patterns and "
    "extra-byte counts of both branches (loops summarised by constant folding) are the format's classes; every fixed-width "
    "read consumes calcsize(fmt) bytes with the same format string as its writer; UTF-16 codec, unit and terminator agree and "
    "the reader decodes the accumulated string once; 'undefined' is None on both sides and is decided by an is-None test, not "
    "by truthiness; property-id constants equal the format ids. Not decided: the write/read inverse as an arithmetic identity "
    "over all 2^64 values."
)
TRUSTED = ["CPython ast parser", "sa.consteval", "struct.calcsize", "sa/spec7z.py tables (hand-frozen from the 7z format description)"]


def _fn(ctx: Ctx, name: str) -> Func:
    return ctx.prog.func("archiveinfo", name)


def r17_1(ctx: Ctx) -> None:
    f = _fn(ctx, "read_uint64")
    # idiom A: the scan loop `for v, l in TABLE:` ; TABLE is a local or a module-level constant
    # idiom B: `for l in range(K): if first & mask == 0: vlen = l; break; mask >>= 1` (count the leading one bits)
    loops = [n for n in walk(f.node) if isinstance(n, ast.For) and isinstance(n.target, ast.Tuple) and len(n.target.elts) == 2]
    loops_b = [n for n in walk(f.node) if isinstance(n, ast.For) and isinstance(n.target, ast.Name) and isinstance(n.iter, ast.Call) and dotted(n.iter.func) == "range"]
    ctx.need(len(loops) == 1 or (not loops and len(loops_b) == 1), "class scan loop of read_uint64 not recognised")
    vl, mk, B, VLEN, MASK, V = [], [], "", "", "", ""
    if loops:
        lp = loops[0]
        tsrc = lp.iter
        if isinstance(tsrc, ast.Name) and q.assigned_values(f, tsrc.id):
            tsrc = q.assigned_values(f, tsrc.id)[0]
        try:
            rows = [tuple(r) for r in ctx.ce.eval(tsrc, "archiveinfo")]
        except (NotConst, TypeError):
            raise AnalysisError("NUMBER class table of read_uint64 is not a constant")
        V, L = lp.target.elts[0].id, lp.target.elts[1].id
        cond_pat = f"$B <= {V}"
    else:
        lp = loops_b[0]
        L = lp.target.id
        try:
            rng = list(range(*[ctx.ce.eval(a, "archiveinfo") for a in lp.iter.args]))
        except (NotConst, TypeError):
            raise AnalysisError("bound of the leading-ones loop of read_uint64 is not a constant")
        # iteration l tests bit 7-l after l one bits: the class of first bytes <= 0xFF ^ (0x80 >> l)
        rows = [((0xFF ^ (0x80 >> l)) & 0xFF, l) for l in rng if 0 <= l < 8]
        cond_pat = "$B & $M == 0"
    ctx.check(rows == spec7z.NUMBER_CLASSES, "R17.1", f, lp, "reader class table equals the format's first-byte table",
              f"read_uint64's class table {rows} differs from the format table {spec7z.NUMBER_CLASSES} (a first byte outside the table falls through to the default "
              "extra-byte count: the value is read with the wrong length and every following field is shifted)", construct="read_uint64 class table")
    # roles: first byte B (compared with the row limit), extra-byte count VLEN (assigned the row's count), MASK (halved per skipped row)
    binds = None
    for n, b in q.find(lp, cond_pat):
        binds = b
    ctx.need(binds is not None, "scan comparison of read_uint64 (`first_byte <= limit` / `first_byte & mask == 0`) not found")
    B = norm(binds["B"])
    cond_txt = f"{B} <= {V}" if loops else f"{B} & {norm(binds['M'])} == 0"
    vl = [n for n in ast.walk(lp) if isinstance(n, ast.Assign) and norm(n.value) == L and isinstance(n.targets[0], ast.Name)]
    mk = [n for n in lp.body if isinstance(n, ast.AugAssign) and isinstance(n.op, ast.RShift) and isinstance(n.value, ast.Constant) and n.value.value == 1 and isinstance(n.target, ast.Name)]
    brk = [n for n in ast.walk(lp) if isinstance(n, ast.Break)]
    ok = len(vl) == 1 and len(mk) == 1 and len(brk) == 1
    if ok:
        VLEN, MASK = vl[0].targets[0].id, mk[0].target.id
        # the assignment and the break are taken exactly when the row matches; the mask is halved otherwise
        fa = [(norm(cd), pol) for cd, pol in q.facts_at(f, vl[0])]
        fb = [(norm(cd), pol) for cd, pol in q.facts_at(f, brk[0])]
        ok = (cond_txt, True) in fa and (cond_txt, True) in fb and (bool(loops) or norm(binds["M"]) == MASK)
        init = [n for n in walk(f.node) if isinstance(n, ast.Assign) and isinstance(n.targets[0], ast.Name) and n.targets[0].id == MASK and isinstance(n.value, ast.Constant)]
        ok = ok and len(init) == 1 and init[0].value.value == 0x80
    ctx.check(bool(ok), "R17.1", f, lp, "class scan: first matching row wins; mask starts at 0x80 and halves per skipped row",
              "the class scan of read_uint64 is not 'first matching row; mask >>= 1 per skipped row, starting from 0x80'", construct="read_uint64 scan loop")
    # first byte: one byte read from the file
    bsrc = q.assigned_values(f, B) if B.isidentifier() else []
    ok = bool(bsrc) and any(isinstance(c, ast.Call) and attr_tail(c) in ("read", "read_byte") for v in bsrc for c in ast.walk(v))
    ctx.check(ok, "R17.1", f, f.node, "first byte is read from the stream", "the class byte is not read from the stream", construct="read_uint64 first byte")
    # 0xFF escape -> 8 byte little endian
    ok = False
    for n in walk(f.node):
        if isinstance(n, ast.If) and isinstance(n.test, ast.Compare) and isinstance(n.test.comparators[0], ast.Constant) and n.test.comparators[0].value == 255 and norm(n.test.left) == B:
            ok = any(isinstance(c, ast.Call) and attr_tail(c) == "read_real_uint64" for st in n.body for c in ast.walk(st))
    ctx.check(ok, "R17.1", f, f.node, "0xFF escape reads a real uint64", "the 0xFF first byte is not decoded as an 8-byte value", construct="read_uint64 0xFF")
    # value composition (locals expanded): one-byte form and general form
    if len(vl) == 1 and len(mk) == 1:
        keep = {B, VLEN, MASK}
        rets = [expand_locals_safe(f, r.value, keep) for r in walk(f.node) if isinstance(r, ast.Return) and r.value is not None]
        one = any(any(True for _ in q.find(r, f"{B} & ({MASK} - 1)")) and not any(isinstance(x, ast.BinOp) and isinstance(x.op, ast.LShift) for x in ast.walk(r)) for r in rets)
        gen = False
        for r in rets:
            for pat in (f"int.from_bytes($F.read({VLEN}), byteorder='little') + (({B} & ({MASK} - 1)) << ({VLEN} * 8))",
                        f"int.from_bytes($F.read({VLEN}), 'little') + (({B} & ({MASK} - 1)) << ({VLEN} * 8))",
                        f"(({B} & ({MASK} - 1)) << ({VLEN} * 8)) + int.from_bytes($F.read({VLEN}), byteorder='little')",
                        f"int.from_bytes($F.read({VLEN}), byteorder='little') | (({B} & ({MASK} - 1)) << ({VLEN} * 8))"):
                if any(True for _ in q.find(r, pat)):
                    gen = True
        ctx.check(one and gen, "R17.1", f, f.node, "value = little-endian extra bytes + (first & (mask-1)) << 8*extra",
                  "read_uint64 does not compose the value as extra bytes (little endian) + (first byte & (mask-1)) << 8*extra", construct="read_uint64 composition")


def expand_locals_safe(f: Func, e: ast.AST, keep) -> ast.AST:
    try:
        return q.expand_locals(f, e, keep)
    except Exception:
        return e


def _eval_with(ctx: Ctx, e: ast.AST, env: Dict[str, int]):
    return ctx.ce.eval(e, "archiveinfo", env=env)


class _Subst(ast.NodeTransformer):
    """value.bit_length() -> BL"""
    def visit_Call(self, node):
        self.generic_visit(node)
        if isinstance(node.func, ast.Attribute) and node.func.attr == "bit_length" and not node.args:
            return ast.copy_location(ast.Name(id="BL", ctx=ast.Load()), node)
        return node


def r17_2(ctx: Ctx) -> None:
    f = _fn(ctx, "write_uint64")
    cfg = cfg_of(f.node)
    # thresholds of the two short-cuts
    tests = [n for n in walk(f.node) if isinstance(n, ast.If)]
    small = [t for t in tests if isinstance(t.test, ast.Compare) and isinstance(t.test.ops[0], ast.Lt) and norm(t.test.left) == "value"]
    big = [t for t in tests if isinstance(t.test, ast.Compare) and isinstance(t.test.ops[0], ast.Gt) and norm(t.test.left) == "value"]
    ctx.need(bool(small) and bool(big), "write_uint64 short-cut tests not recognised")
    lo = _eval_with(ctx, small[0].test.comparators[0], {})
    hi = _eval_with(ctx, big[0].test.comparators[0], {})
    ctx.check(lo == 0x80, "R17.2", f, small[0].test, "single-byte form below 0x80", f"single-byte threshold is {lo:#x}, not 0x80")
    ctx.check(hi == 2 ** 56 - 1, "R17.2", f, big[0].test, "nine-byte form above 2^56-1", f"nine-byte threshold is {hi:#x}, not 2^56-1")
    # both short-cuts return
    for t in (small[0], big[0]):
        ctx.check(any(isinstance(s, ast.Return) for s in t.body), "R17.2", f, t.test, "short-cut returns", "a short-cut branch of write_uint64 falls through into the general encoder")
    # nine-byte form: 0xff + 8 little-endian bytes
    body = " ".join(norm(s) for s in big[0].body)
    ctx.check("b'\\xff'" in body and "to_bytes(8, 'little')" in body, "R17.2", f, big[0].test, "nine-byte form = 0xFF + 8 LE bytes", "the nine-byte form is not 0xFF followed by 8 little-endian bytes",
              construct="write_uint64 9-byte form")
    # byte_length over the bit-length domain
    bl = [n for n in walk(f.node) if isinstance(n, ast.Assign) and norm(n.targets[0]) == "byte_length"]
    ctx.need(len(bl) == 1, "byte_length assignment not found")
    expr = _Subst().visit(ast.parse(ast.unparse(bl[0].value), mode="eval").body)
    lo_bits, hi_bits = lo.bit_length(), hi.bit_length()
    bad = []
    for BL in range(lo_bits, hi_bits + 1):
        try:
            k = _eval_with(ctx, expr, {"BL": BL})
        except Exception as e:  # noqa
            raise AnalysisError(f"byte_length expression not evaluable over bit lengths: {e}")
        if not (1 <= k <= 7) or 8 * k < BL:
            bad.append((BL, k))
    ctx.check(not bad, "R17.2", f, bl[0], f"byte_length in 1..7 and sufficient for every bit length {lo_bits}..{hi_bits}",
              f"for bit lengths {[b for b, _ in bad][:6]} the computed byte_length is {[k for _, k in bad][:6]}: outside 1..7 or too small "
              "(the shift `2 << (8 - byte_length - 1)` goes negative / more than nine bytes are emitted)", construct="byte_length over bit lengths")
    ctx.extra["bit_length_domain"] = [lo_bits, hi_bits]
    r17_8(ctx, f)


def _or_loop_value(ctx: Ctx, loop: ast.For, k: int) -> Optional[int]:
    """value OR-ed into the accumulator by `for x in range(N): acc |= 0x80 >> x` with byte_length=k."""
    if not (isinstance(loop.iter, ast.Call) and dotted(loop.iter.func) == "range" and len(loop.iter.args) == 1):
        return None
    n = _eval_with(ctx, loop.iter.args[0], {"byte_length": k})
    if len(loop.body) != 1 or not (isinstance(loop.body[0], ast.AugAssign) and isinstance(loop.body[0].op, ast.BitOr)):
        return None
    var = loop.target.id
    acc = 0
    for x in range(n):
        acc |= _eval_with(ctx, loop.body[0].value, {var: x, "byte_length": k})
    return acc


def r17_8(ctx: Ctx, f: Func) -> None:
    """class-wise partial evaluation of the general encoder for byte_length = 1..7."""
    gen = [n for n in walk(f.node) if isinstance(n, ast.If) and isinstance(n.test, ast.Compare) and norm(n.test.left) == "high_byte"]
    ctx.need(len(gen) == 1 and isinstance(gen[0].test.ops[0], ast.Lt), "general-encoder branch `high_byte < threshold` not recognised")
    g = gen[0]
    loop_a = [s for s in g.body if isinstance(s, ast.For)]
    loop_b = [s for s in g.orelse if isinstance(s, ast.For)]
    ctx.need(len(loop_a) == 1 and len(loop_b) == 1, "mask loops of write_uint64 not recognised")
    init_b = [s for s in g.orelse if isinstance(s, ast.Assign) and isinstance(s.value, ast.Constant)]
    writes_a = [c for s in g.body for c in ast.walk(s) if isinstance(c, ast.Call) and attr_tail(c) == "write"]
    writes_b = [c for s in g.orelse for c in ast.walk(s) if isinstance(c, ast.Call) and attr_tail(c) == "write"]
    ctx.need(len(writes_a) == 2 and len(writes_b) == 2, "emission statements of write_uint64 not recognised")
    # high_byte is the most significant byte of the little-endian representation
    hb = [n for n in walk(f.node) if isinstance(n, ast.Assign) and norm(n.targets[0]) == "high_byte"]
    ba = [n for n in walk(f.node) if isinstance(n, ast.Assign) and norm(n.targets[0]) == "ba"]
    ok = bool(hb) and "ba[-1]" in norm(hb[0].value) and bool(ba) and "to_bytes(byte_length, 'little')" in norm(ba[0].value)
    ctx.check(ok, "R17.8", f, hb[0] if hb else f.node, "high_byte = most significant byte of the LE representation", "high_byte is not the last byte of value.to_bytes(byte_length, 'little')",
              construct="high_byte derivation")
    for k in range(1, 8):
        thr = _eval_with(ctx, g.test.comparators[0], {"byte_length": k})
        # branch A: class k-1: first byte = (k-1 leading ones) | high_byte, needs high_byte < 2^(8-k), extra = k-1 bytes
        ma = _or_loop_value(ctx, loop_a[0], k)
        ctx.need(ma is not None, "branch A mask loop not summarised")
        lead_a = spec7z.number_first_byte_class(ma) if ma else 0
        # slice emitted: ba[: byte_length - 1]
        sl = writes_a[1].args[0]
        extra_a = None
        if isinstance(sl, ast.Subscript) and isinstance(sl.slice, ast.Slice) and sl.slice.lower is None and sl.slice.upper is not None:
            extra_a = _eval_with(ctx, sl.slice.upper, {"byte_length": k})
        okA = (thr == 2 ** (8 - k)) and (ma == (0xFF00 >> (k - 1)) & 0xFF) and extra_a == k - 1 and (ma & (thr - 1) == 0) and ((ma | (thr - 1)) <= spec7z.NUMBER_CLASSES[k - 1][0])
        ctx.check(okA, "R17.8", f, g.test, f"byte_length={k}: branch A emits class {k-1} (mask {ma:#04x}, threshold {thr}, {extra_a} extra bytes)",
                  f"for byte_length={k} the short branch emits first-byte mask {ma:#04x} with threshold {thr} and {extra_a} extra bytes; the format's class {k-1} needs "
                  f"mask {((0xFF00 >> (k-1)) & 0xFF):#04x}, high bits < {2 ** (8-k)} and {k-1} extra bytes", construct=f"write_uint64 branch A k={k}")
        # branch B: class k: first byte = k leading ones, zero value bits, extra = k bytes (all of ba)
        mb0 = init_b[0].value.value if init_b else 0
        mb = mb0 | (_or_loop_value(ctx, loop_b[0], k) or 0)
        extra_b = k if norm(writes_b[1].args[0]) == "ba" else None
        first_b = writes_b[0].args[0]
        uses_mask = isinstance(first_b, ast.Call) and any(isinstance(n, ast.Name) and n.id == norm(init_b[0].targets[0]) for n in ast.walk(first_b)) if init_b else False
        okB = mb == ((0xFF00 >> k) & 0xFF) and extra_b == k and uses_mask and spec7z.number_first_byte_class(mb) == k
        ctx.check(okB, "R17.8", f, g.test, f"byte_length={k}: branch B emits class {k} (first byte {mb:#04x}, {extra_b} extra bytes)",
                  f"for byte_length={k} the long branch emits first byte {mb:#04x} and {extra_b} extra bytes; the format's class {k} needs {((0xFF00 >> k) & 0xFF):#04x} and {k}",
                  construct=f"write_uint64 branch B k={k}")
    # branch A first byte = high_byte | mask, written before the slice
    fa = writes_a[0].args[0]
    ok = isinstance(fa, ast.Call) and any(isinstance(n, ast.Name) and n.id == "high_byte" for n in ast.walk(fa))
    ctx.check(ok, "R17.8", f, writes_a[0], "branch A first byte carries the high bits", "branch A does not emit high_byte|mask as first byte")


def r17_3(ctx: Ctx) -> None:
    pairs = [("read_uint32", "write_uint32"), ("read_real_uint64", "write_real_uint64")]
    for rn, wn in pairs:
        r, w = _fn(ctx, rn), _fn(ctx, wn)
        rf = [c.args[0].value for c in q.calls(r) if attr_tail(c) == "unpack" and isinstance(c.args[0], ast.Constant)]
        wf = [c.args[0].value for c in q.calls(w) if attr_tail(c) == "pack" and isinstance(c.args[0], ast.Constant)]
        rd = [c.args[0].value for c in q.calls(r) if attr_tail(c) == "read" and c.args and isinstance(c.args[0], ast.Constant)]
        rd += [c.args[1].value for c in q.calls(r) if (dotted(c.func) or "").split(".")[-1] == "read_fully" and len(c.args) == 2 and isinstance(c.args[1], ast.Constant)]
        ctx.need(len(rf) == 1 and len(wf) == 1 and len(rd) == 1, f"{rn}/{wn} shape not recognised")
        ctx.check(rf == wf, "R17.3", r, r.node, f"{rn}/{wn} use the same format {rf[0]}", f"{rn} unpacks {rf[0]!r} but {wn} packs {wf[0]!r} (width/endianness disagree)", construct=f"{rn} vs {wn} format")
        ctx.check(struct.calcsize(rf[0]) == rd[0], "R17.3", r, r.node, f"{rn} reads calcsize({rf[0]})={rd[0]} bytes", f"{rn} reads {rd[0]} bytes for format {rf[0]!r} ({struct.calcsize(rf[0])} bytes)",
                  construct=f"{rn} width")
        ctx.check(rf[0][0] == "<", "R17.3", r, r.node, f"{rn} is little endian", f"{rn} is not little endian", construct=f"{rn} endianness")
    rc = _fn(ctx, "read_crcs")
    fmt = [c.args[0].value for c in q.calls(rc) if attr_tail(c) == "unpack" and isinstance(c.args[0], ast.Constant)]
    wc = _fn(ctx, "write_crcs")
    rd_amt = [c.args[0] for c in q.calls(rc) if attr_tail(c) == "read" and c.args]
    amt_ok = len(rd_amt) == 1
    sl = [n for n in walk(rc.node) if isinstance(n, ast.Subscript) and isinstance(n.slice, ast.Slice)]
    if amt_ok and sl:
        cnt = rc.params[1]
        lp = [g for n in walk(rc.node) if isinstance(n, ast.ListComp) for g in n.generators]
        ivar = lp[0].target.id if lp and isinstance(lp[0].target, ast.Name) else "i"
        try:
            for c_ in (0, 1, 5):
                amt_ok = amt_ok and ctx.ce.eval(rd_amt[0], "archiveinfo", env={cnt: c_}) == 4 * c_
            for k in (0, 1, 7):
                lo = ctx.ce.eval(sl[0].slice.lower, "archiveinfo", env={ivar: k})
                hi = ctx.ce.eval(sl[0].slice.upper, "archiveinfo", env={ivar: k})
                amt_ok = amt_ok and (lo, hi) == (4 * k, 4 * k + 4)
        except NotConst:
            amt_ok = False
    else:
        amt_ok = False
    ok = fmt == ["<L"] and any(attr_tail(c) == "write_uint32" for c in q.calls(wc)) and amt_ok
    ctx.check(ok, "R17.3", rc, rc.node, "read_crcs/write_crcs: 4-byte little-endian items", "read_crcs/write_crcs disagree on item width or endianness", construct="read_crcs vs write_crcs")
    # booleans: MSB first on both sides (constant evaluation of the bit expressions for positions 0..15)
    rb, wb = _fn(ctx, "read_boolean"), _fn(ctx, "write_boolean")
    shifts = [n for n in walk(rb.node) if isinstance(n, ast.AugAssign) and isinstance(n.target, ast.Name) and isinstance(n.op, ast.RShift)]
    mvar = shifts[0].target.id if shifts else "?"
    def _cv(e):
        try:
            return ctx.ce.eval(e, "archiveinfo")
        except NotConst:
            return None
    resets = [n for n in walk(rb.node) if isinstance(n, ast.Assign) and norm(n.targets[0]) == mvar and _cv(n.value) not in (None, 0)]
    r_ok = len(resets) == 1 and _cv(resets[0].value) == 0x80 and len(shifts) == 1 and isinstance(shifts[0].value, ast.Constant) and shifts[0].value.value == 1 \
        and bool(q.enclosing_loops(rb, shifts[0])) and any(isinstance(n, ast.BinOp) and isinstance(n.op, ast.BitAnd) and mvar in norm(n) for n in walk(rb.node))
    sets = [n for n in walk(wb.node) if isinstance(n, ast.AugAssign) and isinstance(n.op, ast.BitOr) and isinstance(n.target, ast.Subscript)]
    w_ok = len(sets) == 1
    if w_ok:
        lp = q.enclosing_loops(wb, sets[0])
        ivar = lp[-1].target.elts[0].id if lp and isinstance(lp[-1].target, ast.Tuple) else None
        w_ok = ivar is not None
        if w_ok:
            for k in range(16):
                try:
                    bit = ctx.ce.eval(sets[0].value, "archiveinfo", env={ivar: k})
                    idx = ctx.ce.eval(sets[0].target.slice, "archiveinfo", env={ivar: k})
                except NotConst:
                    w_ok = False
                    break
                if bit != (0x80 >> (k % 8)) or idx != k // 8:
                    w_ok = False
    ctx.check(r_ok and w_ok, "R17.3", rb, rb.node, "boolean vectors are MSB-first on both sides", "read_boolean/write_boolean disagree on bit order (reader: mask from 0x80 halving; writer: bit 0x80>>(i%8) of byte i//8)",
              construct="boolean bit order")
    allocs = [c for c in q.calls(wb) if dotted(c.func) == "bytearray" and c.args]
    a_ok = len(allocs) == 1
    if a_ok:
        class _L(ast.NodeTransformer):
            def visit_Call(self, node):
                self.generic_visit(node)
                if dotted(node.func) == "len":
                    return ast.copy_location(ast.Name(id="LEN", ctx=ast.Load()), node)
                return node
        ex = _L().visit(ast.parse(ast.unparse(allocs[0].args[0]), mode="eval").body)
        for L in range(0, 20):
            try:
                if ctx.ce.eval(ex, "archiveinfo", env={"LEN": L}) != -(-L // 8):
                    a_ok = False
            except NotConst:
                a_ok = False
    ctx.check(a_ok, "R17.3", wb, wb.node, "write_boolean emits ceil(n/8) bytes", "write_boolean does not emit ceil(n/8) bytes (evaluated for n = 0..19)", construct="boolean byte count")
    wconst = [c.args[0].value for c in q.calls(wb) if attr_tail(c) == "write" and c.args and isinstance(c.args[0], ast.Constant)]
    cmp_ = [n for n in walk(rb.node) if isinstance(n, ast.Compare) and isinstance(n.ops[0], (ast.NotEq, ast.Eq))]
    rconst = []
    for n in cmp_:
        try:
            rconst.append(ctx.ce.eval(n.comparators[0], "archiveinfo"))
        except NotConst:
            pass
    alltrue = [n for n in walk(rb.node) if isinstance(n, ast.Return) and isinstance(n.value, ast.BinOp) and isinstance(n.value.op, ast.Mult) and "True" in norm(n.value)]
    ok = sorted(wconst) == [b"\x00", b"\x01"] and b"\x00" in rconst and bool(alltrue)
    # the 0x01 write returns immediately (no bitmap follows)
    one = [c for c in q.calls(wb) if attr_tail(c) == "write" and c.args and isinstance(c.args[0], ast.Constant) and c.args[0].value == b"\x01"]
    if one:
        cfgw = cfg_of(wb.node)
        on = q.node_for(wb, one[0])
        ok = ok and all(not cfgw.reaches(on, q.node_for(wb, c)) for c in q.calls(wb) if attr_tail(c) == "write" and c is not one[0])
    ctx.check(ok, "R17.3", wb, wb.node, "all-defined shortcut byte agrees", "all-defined shortcut of boolean vectors disagrees between reader and writer", construct="boolean all-defined")


def r17_4(ctx: Ctx) -> None:
    r, w = _fn(ctx, "read_utf16"), _fn(ctx, "write_utf16")
    dec = [c for c in q.calls(r) if attr_tail(c) == "decode"]
    enc = [c for c in q.calls(w) if attr_tail(c) == "encode"]
    ctx.need(len(dec) >= 1 and len(enc) >= 1, "utf-16 codec calls not found")
    dc = {c.args[0].value.lower().replace("_", "-") for c in dec if c.args and isinstance(c.args[0], ast.Constant)}
    ec = {c.args[0].value.lower().replace("_", "-") for c in enc if c.args and isinstance(c.args[0], ast.Constant)}
    ctx.check(dc == ec == {"utf-16le"}, "R17.4", r, dec[0], "same codec utf-16LE on both sides", f"reader decodes {sorted(dc)} but writer encodes {sorted(ec)}")
    # decode once, outside the unit loop, on the accumulated bytes
    for d in dec:
        inside = q.enclosing_loops(r, d)
        ctx.check(not inside, "R17.4", r, d, "reader decodes the accumulated string once", "read_utf16 decodes inside the 2-byte unit loop: a surrogate pair (astral character) cannot be decoded one unit at a time")
    reads = [c.args[0].value for c in q.calls(r) if attr_tail(c) == "read" and c.args and isinstance(c.args[0], ast.Constant)]
    term_r = [ctx.ce.eval(n.comparators[0], "archiveinfo") for n in ast.walk(r.node) if isinstance(n, ast.Compare) and isinstance(n.ops[0], ast.Eq)]
    term_w = [c.args[0].value for c in q.calls(w) if attr_tail(c) == "write" and c.args and isinstance(c.args[0], ast.Constant)]
    ctx.check(reads == [2] and term_r == [b"\x00\x00"] and term_w == [b"\x00\x00"], "R17.4", r, r.node, "2-byte units and 2-byte zero terminator on both sides",
              f"unit/terminator disagree: reader reads {reads}, stops at {term_r}; writer terminates with {term_w}", construct="utf16 unit/terminator")
    # a name of ANY length is read back whole: the unit loop ends only at the terminator (or with an error).  A counted loop that can
    # run out (`for _ in range(MAX_LENGTH)`) must raise when it does; falling out of it silently cuts the name and hands the rest to the
    # next member (the writer sets no limit)
    loops = [n for n in walk(r.node) if isinstance(n, (ast.For, ast.While))]
    ctx.need(bool(loops), "unit loop of read_utf16 not found")
    lp = loops[0]
    if isinstance(lp, ast.For):
        exhausted_raises = bool(lp.orelse) and any(isinstance(x, ast.Raise) for st in lp.orelse for x in ast.walk(st))
        ctx.check(exhausted_raises, "R17.4", r, lp, "a counted unit loop raises when it runs out before the terminator",
                  "read_utf16's unit loop is bounded (`for _ in range(MAX_LENGTH)`) and falls through when the bound is reached: a name of 65536 or more UTF-16 units - which "
                  "write_utf16 writes without complaint - is cut silently and the following member is named by the leftover", construct="read_utf16 loop bound")
    else:
        ok_while = isinstance(lp.test, ast.Constant) and lp.test.value is True and any(isinstance(x, ast.Break) for x in ast.walk(lp)) and any(isinstance(x, ast.Raise) for x in ast.walk(lp))
        ctx.check(ok_while, "R17.4", r, lp, "the unit loop ends at the terminator or raises at the end of the data",
                  "read_utf16's unit loop has neither a terminator exit nor an end-of-data error", construct="read_utf16 loop bound")
    # the accumulator appends every non-terminator unit
    ok = any(isinstance(n, ast.AugAssign) and isinstance(n.op, ast.Add) for n in walk(r.node))
    ctx.check(ok, "R17.4", r, r.node, "every unit is accumulated", "read_utf16 does not accumulate every unit", construct="utf16 accumulate")


def r17_5(ctx: Ctx) -> None:
    fi = ctx.prog.cls("FilesInfo", "archiveinfo")
    for wname in ("_write_times", "_write_attributes"):
        w = fi.methods[wname]
        trues = [c for c in q.calls(w) if attr_tail(c) == "append" and c.args and isinstance(c.args[0], ast.Constant) and c.args[0].value is True]
        comps = [n for n in walk(w.node) if isinstance(n, (ast.Assign, ast.AnnAssign)) and isinstance(n.value, ast.ListComp)
                 and isinstance(n.value.elt, (ast.Compare, ast.BoolOp, ast.UnaryOp, ast.Call, ast.Name, ast.Subscript))
                 and "files" in norm(n.value.generators[0].iter)]
        if not trues and comps:
            for cpn in comps:
                atoms_ = cpn.value.elt.values if isinstance(cpn.value.elt, ast.BoolOp) and isinstance(cpn.value.elt.op, ast.And) else [cpn.value.elt]
                none_tests = [a for a in atoms_ if q.is_none_test(a) is not None and not q.is_none_test(a)[1]]
                truthy = [a for a in atoms_ if not isinstance(a, ast.Compare)]
                ctx.check(bool(none_tests) and not truthy, "R17.5", w, cpn, f"{wname}: 'defined' decided by an is-not-None test",
                          f"{wname} decides 'defined' by truthiness ({', '.join(norm(x) for x in truthy)}): a legal value 0 (FILETIME 0, attribute word 0) is written as undefined")
            trues = []
        else:
            ctx.floor("R17.5", len(trues), 1, f"defined.append(True) in {wname}")
        for t in trues:
            facts = q.facts_at(w, t)
            none_tests = [cd for cd, pol in facts if q.is_none_test(cd) is not None and not q.is_none_test(cd)[1] and pol]
            truthy = [cd for cd, pol in facts if not isinstance(cd, ast.Compare)]
            ctx.check(bool(none_tests) and not truthy, "R17.5", w, t, f"{wname}: 'defined' decided by an is-not-None test",
                      f"{wname} decides 'defined' by truthiness ({', '.join(norm(x) for x in truthy)}): a legal value 0 (FILETIME 0, attribute word 0) is written as undefined")
        # the value is emitted iff defined
        emits = [c for c in q.calls(w) if attr_tail(c) in ("write_real_uint64", "write_uint32") and q.enclosing_loops(w, c)]
        for e in emits:
            facts = q.facts_at(w, e)
            vecs = {c.func.value.id for c in q.calls(w) if attr_tail(c) == "append" and isinstance(c.func.value, ast.Name) and c.args and isinstance(c.args[0], ast.Constant)
                    and isinstance(c.args[0].value, bool)} | {n.targets[0].id for n in walk(w.node) if isinstance(n, ast.Assign) and isinstance(n.targets[0], ast.Name)
                                                                and isinstance(n.value, ast.ListComp)} \
                | {n.target.id for n in walk(w.node) if isinstance(n, ast.AnnAssign) and isinstance(n.target, ast.Name) and isinstance(n.value, ast.ListComp)}
            ok = any(pol and isinstance(cd, ast.Subscript) and norm(cd.value) in vecs for cd, pol in facts)
            # for flag, f in zip(vector, files): if flag: ...
            for lp in q.enclosing_loops(w, e):
                if isinstance(lp, ast.For) and isinstance(lp.iter, ast.Call) and dotted(lp.iter.func) == "zip" and isinstance(lp.target, ast.Tuple):
                    for t, a in zip(lp.target.elts, lp.iter.args):
                        if isinstance(t, ast.Name) and isinstance(a, ast.Name) and a.id in vecs and any(pol and isinstance(cd, ast.Name) and cd.id == t.id for cd, pol in facts):
                            ok = True
            ctx.check(ok, "R17.5", w, e, f"{wname}: value emitted iff defined[i]", f"{wname} emits a value not under defined[i]")
    for rname, key in (("_read_times", None), ("_read_attributes", "attributes"), ("_read_start_pos", "startpos")):
        r = fi.methods[rname]
        ifexps = [n for n in walk(r.node) if isinstance(n, ast.IfExp)]
        dv = {n.targets[0].id for n in walk(r.node) if isinstance(n, ast.Assign) and isinstance(n.targets[0], ast.Name) and isinstance(n.value, ast.Call) and attr_tail(n.value) == "read_boolean"} | set(r.params)
        ok = bool(ifexps) and all(isinstance(x.orelse, ast.Constant) and x.orelse.value is None and isinstance(x.test, ast.Subscript) and norm(x.test.value) in dv for x in ifexps)
        ctx.check(ok, "R17.5", r, r.node, f"{rname}: undefined entries become None", f"{rname} does not map undefined entries to None", construct=f"{rname} undefined")
    # timestamps are raw 8-byte values on both sides
    rt, wt = fi.methods["_read_times"], fi.methods["_write_times"]
    ok = any(attr_tail(c) == "read_real_uint64" for c in q.calls(rt)) and any(attr_tail(c) == "write_real_uint64" for c in q.calls(wt))
    ctx.check(ok, "R17.5", rt, rt.node, "timestamps are 8-byte values on both sides", "timestamp width differs between reader and writer", construct="timestamp width")
    ra, wa = fi.methods["_read_attributes"], fi.methods["_write_attributes"]
    ok = any(attr_tail(c) == "read_uint32" for c in q.calls(ra)) and any(attr_tail(c) == "write_uint32" for c in q.calls(wa))
    ctx.check(ok, "R17.5", ra, ra.node, "attributes are 4-byte values on both sides", "attribute width differs between reader and writer", construct="attribute width")


def r17_6(ctx: Ctx) -> None:
    n = 0
    for name, val in spec7z.PROPERTY_IDS.items():
        try:
            v = ctx.ce.class_const("Property", name)
        except NotConst:
            ctx.fail("R17.6", "properties:Property", None, f"property id {name} is not defined", construct=f"Property.{name}")
            continue
        n += 1
        ctx.check(v == bytes([val]), "R17.6", "properties:Property", None, f"Property.{name} == {val:#04x}", f"Property.{name} is {v!r}, the format says {val:#04x}", construct=f"Property.{name}")
    magic = ctx.ce.module_const("properties", "MAGIC_7Z")
    ctx.check(magic == spec7z.MAGIC, "R17.6", "properties:MAGIC_7Z", None, "magic bytes", f"MAGIC_7Z is {magic!r}", construct="MAGIC_7Z")


def run(ctx: Ctx) -> None:
    from . import c10 as _c10
    _c10.r10_12(ctx)  # any FILETIME in 0..2^64-1 must be listable
    shared.layout_agreement(ctx, "R17.10")
    from . import c06 as _c06
    _c06.r06_13(ctx, rule="R17.9")
    r17_1(ctx)
    r17_2(ctx)
    r17_3(ctx)
    r17_4(ctx)
    r17_5(ctx)
    r17_6(ctx)
    from . import c07
    c07.r07_1(ctx, rule="R17.7")
