"""C14 — a crash while writing never leaves a file that opens with wrong contents."""
from __future__ import annotations

import ast
import struct
import zlib
from typing import List

from ..cfg import cfg_of
from ..consteval import NotConst
from ..model import AnalysisError, Func, attr_tail, dotted, norm, walk
from ..report import Ctx
from .. import q
from . import shared, c04, c08

EXPLANATION = (
    "Commit-ordering and reject-before-trust facts: the placeholder signature header written at creation is self-inconsistent "
    "(its start-header CRC is compared, by evaluating the literals, with the CRC32 of the fields it emits) so a torn create "
    "session cannot verify; on close the folder flush dominates the header write, which dominates the signature-header "
    "write, and no write to the archive handle follows it; the signature writer seeks to 0 first; readers verify the start "
    "header CRC, the next-header CRC and the packed-header folder CRC before trusting the data (R04.1), the packed header "
    "is decoded to exactly its declared size, and the writer stores a digest for the packed header (R04.5); appended data "
    "starts at the end of the existing packed streams (R08.3). Not decided: every byte-prefix outcome; buffering below Python."
)
TRUSTED = ["CPython ast parser", "sa.consteval", "zlib.crc32 applied to the literals of the placeholder", "sa.cfg dominators"]


def r14_1(ctx: Ctx) -> None:
    f = ctx.prog.func("archiveinfo", "SignatureHeader._write_skeleton")
    vals: List[tuple] = []
    for st in f.node.body:
        if isinstance(st, ast.Expr) and isinstance(st.value, ast.Call) and attr_tail(st.value) in shared.WIDTHS:
            c = st.value
            try:
                v = ctx.ce.eval(c.args[1], "archiveinfo")
            except NotConst:
                if any(attr_tail(x) == "calccrc" for x in q.calls(f)):
                    ctx.fail("R14.1", f, f.node, "the placeholder signature header is produced with calccrc(), i.e. with a start-header CRC that verifies: a session that dies before "
                                                "close leaves a file that opens as a valid empty archive", construct="placeholder start header crc")
                    return
                raise AnalysisError(f"placeholder field `{norm(c.args[1])}` is not a constant")
            vals.append((shared.WIDTHS[attr_tail(c)], v))
    ctx.need([w for w, _ in vals] == [4, 8, 8, 4], f"placeholder fields not recognised: {vals}")
    start_crc, ofs, size, hcrc = (v for _, v in vals)
    real = zlib.crc32(struct.pack("<QQL", ofs, size, hcrc)) & 0xFFFFFFFF
    ctx.check(real != start_crc, "R14.1", f, f.node, f"placeholder start-header CRC {start_crc:#x} != CRC32 of its fields {real:#x}",
              f"the placeholder signature header is self-consistent (start CRC {start_crc:#x} = CRC32 of ofs={ofs}, size={size}, crc={hcrc}): a session that dies before close leaves a file "
              "that opens as a valid (empty or stale) archive", construct="placeholder start header crc")
    # even if the start header verified, an empty next header must not verify: size 0 with crc 0 is the empty-archive form
    ctx.check(not (size == 0 and hcrc == 0), "R14.1", f, f.node, "placeholder does not describe an empty archive", "the placeholder describes a valid empty next header (size 0, crc 0)",
              construct="placeholder next header")
    pw = shared.szf(ctx, "_prepare_write")
    sk = [c for c in q.calls(pw) if attr_tail(c) == "_write_skeleton"]
    ctx.check(len(sk) == 1, "R14.1", pw, pw.node, "creation starts with the placeholder", "_prepare_write does not write the placeholder signature header", construct="placeholder written")


def r14_2(ctx: Ctx) -> None:
    wf = shared.szf(ctx, "_write_flush")
    cfg = cfg_of(wf.node)
    fl = [c for c in q.calls(wf) if attr_tail(c) == "flush_archive"]
    wh = [c for c in q.calls(wf) if attr_tail(c) == "_write_header"]
    # the regular commit (not the fallback header a refused session writes before it raises)
    wh = [c for c in wh if cfg.exit in cfg.reachable_from(q.node_for(wf, c))] or wh
    ctx.need(bool(fl) and bool(wh), "_write_flush shape not recognised")
    ok = not cfg.reaches(q.node_for(wf, wh[0]), q.node_for(wf, fl[0])) and cfg.reaches(q.node_for(wf, fl[0]), q.node_for(wf, wh[0]))
    # flush happens whenever a folder was initialised: its only guard
    def aborts(cd: ast.AST, pol: bool) -> bool:
        """the fact comes from a guard whose OTHER outcome raises (the whole flush is refused, nothing is written at all)."""
        for t in cfg.nodes:
            if t.kind == "test" and any(x is cd for x in ast.walk(t.ast)):
                other = next((e for e in t.succ if e.kind == ("false" if pol else "true")), None)
                if other is not None and q.branch_always_raises(cfg, other):
                    return True
        return False
    raw = [(cd, pol) for cd, pol in q.facts_at(wf, fl[0]) if not aborts(cd, pol)]
    def positive(cd: ast.AST, pol: bool):
        # 'x is None' known false is 'x is not None' known true (early return on a missing header)
        if not pol and isinstance(cd, ast.Compare) and len(cd.ops) == 1 and isinstance(cd.ops[0], (ast.Is, ast.Eq)) and isinstance(cd.comparators[0], ast.Constant) and cd.comparators[0].value is None:
            return norm(cd.left) + " is not None", True
        return norm(cd), pol
    facts = [positive(cd, pol) for cd, pol in raw]
    ok = ok and all(("_initialized" in cd or "header is not None" in cd) and pol for cd, pol in facts)
    ctx.check(ok, "R14.2", wf, wh[0], "packed data is flushed before the header is written", "_write_flush can write the header before the last folder is flushed (or skips the flush)")
    h = shared.szf(ctx, "_write_header")
    hcfg = cfg_of(h.node)
    hw = [c for c in q.calls(h) if norm(c.func).endswith("header.write")]
    sw = [c for c in q.calls(h) if norm(c.func).endswith("sig_header.write")]
    ctx.need(bool(hw) and bool(sw), "_write_header shape not recognised")
    ok = hcfg.dominates(q.node_for(h, hw[0]), q.node_for(h, sw[0]))
    ctx.check(ok, "R14.2", h, sw[0], "header is written before the signature header points to it", "the signature header is written before the header it points to")
    # nothing touches the archive handle after the signature header write
    sn = q.node_for(h, sw[0])
    later = [n for n in hcfg.reachable_from(sn) if n is not sn and n.kind == "stmt" and n.ast is not None and any(isinstance(x, ast.Call) and "self.fp" in norm(x) for x in ast.walk(n.ast))]
    ctx.check(not later, "R14.2", h, sw[0], "signature header write is the last write of _write_header", "_write_header writes to the archive after the signature header (the commit point)")
    cl = shared.szf(ctx, "close")
    ccfg = cfg_of(cl.node)
    flushes = [c for c in q.calls(cl) if attr_tail(c) == "_write_flush"]
    for c in flushes:
        cn = q.node_for(cl, c)
        bad = []
        for n in ccfg.reachable_from(cn):
            if n is cn or n.ast is None or n.kind != "stmt":
                continue
            for x in ast.walk(n.ast):
                if isinstance(x, ast.Call) and isinstance(x.func, ast.Attribute) and x.func.attr in ("write", "truncate", "seek") and "fp" in norm(x.func.value):
                    bad.append(x)
        ctx.check(not bad, "R14.2", cl, c, "close(): nothing is written after the commit", "close() writes/seeks the archive handle after the header was committed")
    # signature writer: seek(0) first (shared with R07.2) and asserts that the fields were computed
    sh = ctx.prog.func("archiveinfo", "SignatureHeader.write")
    scfg = cfg_of(sh.node)
    seeks = [c for c in q.calls(sh) if attr_tail(c) == "seek"]
    ok = bool(seeks) and all(scfg.dominates(q.node_for(sh, seeks[0]), q.node_for(sh, c)) for c in q.calls(sh) if attr_tail(c).startswith("write_"))
    ctx.check(ok, "R14.2", sh, sh.node, "signature header write seeks to offset 0 first", "SignatureHeader.write does not seek to 0 before writing", construct="sig write seek")
    # Header.write: encoded header: packed data written before its descriptor; positions from tell()
    eh = ctx.prog.func("archiveinfo", "Header._encode_header")
    ecfg = cfg_of(eh.node)
    comp = [c for c in q.calls(eh) if attr_tail(c) in ("compress", "flush") and norm(c.func.value) == "compressor"]
    desc = [c for c in q.calls(eh) if norm(c.func) == "headerstreams.write"]
    ok = bool(comp) and bool(desc) and all(ecfg.dominates(q.node_for(eh, c), q.node_for(eh, desc[0])) for c in comp)
    ctx.check(ok, "R14.2", eh, desc[0] if desc else eh.node, "packed header data precedes its descriptor", "the encoded-header descriptor is written before the packed header data")


def r14_6(ctx: Ctx) -> None:
    """the packed header is decoded to exactly its declared size before it is parsed."""
    f = ctx.prog.func("archiveinfo", "Header._read")
    loops = [n for n in walk(f.node) if isinstance(n, ast.While)]
    dec = [c for c in q.calls(f) if attr_tail(c) == "decompress"]
    ctx.floor("R14.6", len(dec), 1, "decompress call in Header._read")
    ok = False
    for lp in loops:
        if not any(d in list(ast.walk(lp)) for d in dec):
            continue
        t = lp.test
        if isinstance(t, ast.Compare) and isinstance(t.ops[0], ast.Gt) and isinstance(t.comparators[0], ast.Constant) and t.comparators[0].value == 0:
            var = norm(t.left)
            upd = [n for n in walk(lp) if isinstance(n, ast.Assign) and norm(n.targets[0]) == var]
            if upd and all(isinstance(u.value, ast.BinOp) and isinstance(u.value.op, ast.Sub) and "len(" in norm(u.value.right) for u in upd):
                ok = True
    # alternative: explicit length test that raises
    for n in walk(f.node):
        if isinstance(n, ast.If) and isinstance(n.test, ast.Compare) and isinstance(n.test.ops[0], ast.NotEq) and "len(folder_data)" in norm(n.test) and any(isinstance(x, ast.Raise) for x in n.body):
            ok = True
    ctx.check(ok, "R14.6", f, dec[0], "packed header decoded until exactly its declared size (or rejected)",
              "the packed header is handed to the parser without being decoded to its declared size: a packed stream that ends early (torn append) is parsed as whatever was produced")


def r14_9(ctx: Ctx) -> None:
    """an append session overwrites the old header (it lies right behind the packed data) long before close() commits the new one, and the old
    packed header may carry no digest (every archive written by py7zr before the F19 repair).  Before the first byte is written over it -
    the Worker.archive call of write()/_writef() and the flush in _write_flush - the start header is replaced by the placeholder (a call that
    reaches SignatureHeader._write_skeleton), so that no intermediate state can pass for an archive."""
    def reaches_skeleton(f: Func, c: ast.Call, depth: int = 3) -> bool:
        if attr_tail(c) == "_write_skeleton":
            return True
        if depth <= 0:
            return False
        for tq in shared.targets_of(ctx, f, c):
            g = ctx.res._func_by_q(tq)
            if g is not None and g.module == "py7zr" and any(reaches_skeleton(g, x, depth - 1) for x in q.calls(g)):
                return True
        return False
    n = 0
    for name, what in (("write", "Worker.archive"), ("_writef", "Worker.archive"), ("_write_flush", "flush")):
        f = shared.szf(ctx, name)
        cfg = cfg_of(f.node)
        if what == "Worker.archive":
            sinks = [c for c in q.calls(f) if "py7zr:Worker.archive" in shared.targets_of(ctx, f, c)]
        else:
            sinks = [c for c in q.calls(f) if attr_tail(c) in ("flush_archive", "_write_header")]
        voids = [c for c in q.calls(f) if reaches_skeleton(f, c)]
        for sgt in sinks:
            n += 1
            ok = any(cfg.dominates(q.node_for(f, v), q.node_for(f, sgt)) or
                     (cfg.reaches(q.node_for(f, v), q.node_for(f, sgt)) and not cfg.reaches(cfg.entry, q.node_for(f, sgt), avoid=[q.node_for(f, v)] + [
                         e for t in cfg.nodes if t.kind == "test" and "mode" in norm(t.ast) for e in t.succ if e.kind == "false"])) for v in voids)
            ctx.check(ok, "R14.9", f, sgt, f"{name}: the start header is voided before the old header is overwritten",
                      f"{name} lets `{norm(sgt)[:50]}` write over the old header of an archive opened for append while the old start header still verifies: when the old packed "
                      "header has no digest (archives written by py7zr itself before it stored one) a crash leaves a file that opens without error as an empty archive",
                      construct=f"{name} overwrites before voiding")
    ctx.floor("R14.9", n, 4, "writes over the old header in append sessions")
    # the voiding itself happens for an append session that has not voided yet: the placeholder write stands under exactly these conditions, with
    # these polarities (`"a" in self.mode` true, the done-flag false); a condition the wrong way round never voids in the one mode that needs it
    v = shared.szf(ctx, "_void_start_header")
    sk = [c for c in q.calls(v) if attr_tail(c) == "_write_skeleton"]
    ctx.floor("R14.9", len(sk), 1, "placeholder write in _void_start_header")
    for c in sk:
        bad = []
        for cd, pol in q.facts_at(v, c):
            t = norm(cd)
            if isinstance(cd, ast.BoolOp):
                bad.append((cd, pol))  # a compound condition that is FALSE here: not the conjunction the voiding needs
            elif isinstance(cd, ast.Compare) and "mode" in t and isinstance(cd.ops[0], (ast.In, ast.Eq)):
                if not (pol and any(isinstance(x, ast.Constant) and x.value == "a" for x in ast.walk(cd))):
                    bad.append((cd, pol))
            elif isinstance(cd, ast.Compare) and "mode" in t:
                bad.append((cd, pol))  # `"a" not in self.mode`, `mode != "a"` ...
            elif "voided" in t:
                if pol:
                    bad.append((cd, pol))
            else:
                bad.append((cd, pol))
        ctx.check(not bad, "R14.9", v, c, "the placeholder is written for an append session that has not written it yet",
                  "_void_start_header writes the placeholder under " + "; ".join(f"`{norm(cd)}` {'true' if pol else 'false'}" for cd, pol in bad) + ": not (exactly) for an append session "
                  "that has not voided yet, so the old start header keeps verifying while the session's data overwrites the old header", construct="voiding condition")


def run(ctx: Ctx) -> None:
    r14_9(ctx)
    from . import c08 as _c08
    _c08.r08_13(ctx, rule="R14.8")  # an archive the parser rejects must never be replaced by a new one
    shared.strict_reads(ctx, "R14.7")
    from . import c07 as _c07
    _c07.r07_2(ctx)  # the placeholder lands on the start header (offset 0), wherever the handle stands: it is what voids the old header of an append
    r14_1(ctx)
    r14_2(ctx)
    c04.r04_1(ctx)
    c04.r04_3(ctx)
    c04.r04_5(ctx)
    r14_6(ctx)
    c08.r08_3(ctx, rule="R14.4")
