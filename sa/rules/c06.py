"""C06 — reader conformance: header grammar, parsed-field consumers, digest counts, optional sections, member ids."""
from __future__ import annotations

import ast
from typing import Dict, List, Optional, Set, Tuple

from ..cfg import cfg_of
from ..model import AnalysisError, Func, attr_tail, dotted, norm, walk
from ..report import Ctx
from .. import q, spec7z
from . import shared

EXPLANATION = (
    "Grammar and consumer analysis of the header readers: per section reader the set of property ids compared against is "
    "matched with the frozen grammar (every id the format allows there is handled or falls into an explicit raise; nothing "
    "is silently skipped; optional sections have an 'absent' path); every parsed field that locates data (packpos, pack "
    "sizes) is read by each consumer family (extraction offsets, test(), append position); a digest vector reads one CRC per "
    "DEFINED entry in all three readers (sibling agreement); attributes that are None on valid archives (main_streams, "
    "files_info, substreamsinfo) are dereferenced only under a not-None guard or are materialised by the reader; per-folder "
    "member lists carry the members' own ids; every method id has a decoder class. "
    "Not decided: the substream cursor arithmetic for all layouts."
)
TRUSTED = ["CPython ast parser", "sa/spec7z.py grammar table", "sa.cfg guards", "sa.resolve (types of header attributes)"]

SECTION_READERS = {
    "Header": ("archiveinfo", "Header._extract_header_info"),
    "StreamsInfo": ("archiveinfo", "StreamsInfo.read"),
    "PackInfo": ("archiveinfo", "PackInfo._read"),
    "UnpackInfo": ("archiveinfo", ["UnpackInfo._read", "UnpackInfo._retrieve_coders_info"]),
    "SubstreamsInfo": ("archiveinfo", "SubstreamsInfo._read"),
    "FilesInfo": ("archiveinfo", "FilesInfo._read"),
}


def _ids_compared(f: Func) -> Set[str]:
    out = set()
    for n in walk(f.node):
        if isinstance(n, ast.Compare):
            for x in ast.walk(n):
                if isinstance(x, ast.Attribute) and isinstance(x.value, ast.Name) and x.value.id == "PROPERTY":
                    out.add(x.attr)
    return out


def _record_generators(ctx: Ctx, f: Func) -> list:
    """generator methods of f's class that f iterates over (`for ... in self._x(...)`)"""
    out = []
    if not f.cls:
        return out
    try:
        cls = ctx.prog.cls(f.cls, f.module)
    except Exception:
        return out
    for lp in [n for n in walk(f.node) if isinstance(n, ast.For)]:
        it = lp.iter
        if isinstance(it, ast.Call) and isinstance(it.func, ast.Attribute) and norm(it.func.value) == "self":
            m = ctx.prog.method(cls, it.func.attr)
            if m is not None and any(isinstance(y, (ast.Yield, ast.YieldFrom)) for y in walk(m.node)):
                out.append(m)
    return out


def r06_1(ctx: Ctx) -> None:
    for sec, (mod, quals) in SECTION_READERS.items():
        quals = quals if isinstance(quals, list) else [quals]
        funcs = [ctx.prog.func(mod, qn) for qn in quals]
        ids: Set[str] = set()
        for f in funcs:
            ids |= _ids_compared(f)
            for g_ in _record_generators(ctx, f):
                ids |= _ids_compared(g_)  # `for id, size in self._records(fp):` - the generator reads the id and knows the end marker
        want = set(spec7z.GRAMMAR[sec])
        missing = sorted(want - ids)
        ctx.check(not missing, "R06.1", funcs[0], funcs[0].node, f"{sec}: handles ids {sorted(want)}",
                  f"the {sec} reader never compares against property id(s) {missing}: a conforming archive that uses them is rejected or mis-parsed",
                  construct=f"{sec} grammar ids")
        # every reader ends with "anything else -> raise"
        for f in funcs:
            cfg = cfg_of(f.node)
            raises = [n for n in walk(f.node) if isinstance(n, ast.Raise)]
            ctx.check(bool(raises), "R06.1", f, f.node, f"{f.qname}: unexpected id raises", f"{f.qname} has no raise for an unexpected property id (unknown ids are silently skipped)",
                      construct=f"{f.name} unexpected id")
    # FilesInfo: the dispatch chain ends in else: raise; DUMMY skips exactly `size` bytes; END breaks
    f = ctx.prog.func("archiveinfo", "FilesInfo._read")
    loops = [n for n in walk(f.node) if isinstance(n, ast.While)]
    gen_sizes: Set[str] = set()
    if not loops:
        # the record loop written as a for statement over a generator of the class that reads the id and the size of each record
        for lp_ in [n for n in walk(f.node) if isinstance(n, ast.For)]:
            gs = [g_ for g_ in _record_generators(ctx, f) if isinstance(lp_.iter, ast.Call) and attr_tail(lp_.iter) == g_.name]
            if gs and any(isinstance(x, ast.Call) and attr_tail(x) == "read_uint64" for x in walk(gs[0].node)) and isinstance(lp_.target, ast.Tuple) and len(lp_.target.elts) == 2:
                loops = [lp_]
                gen_sizes = {lp_.target.elts[1].id} if isinstance(lp_.target.elts[1], ast.Name) else set()
    ctx.need(len(loops) == 1, "FilesInfo._read property loop not recognised")
    chain = [n for n in walk(loops[0]) if isinstance(n, ast.If) and any(isinstance(x, ast.Attribute) and x.attr == "EMPTY_STREAM" for x in ast.walk(n.test))]
    ctx.need(len(chain) == 1, "FilesInfo._read dispatch chain not recognised")
    node = chain[0]
    while node.orelse and len(node.orelse) == 1 and isinstance(node.orelse[0], ast.If):
        node = node.orelse[0]
    ends_raise = bool(node.orelse) and all(isinstance(s, ast.Raise) for s in node.orelse)
    ctx.check(ends_raise, "R06.1", f, chain[0], "FilesInfo dispatch ends in raise for unknown ids", "the FilesInfo property dispatch does not end in `else: raise` (unknown/unsupported properties such as kAnti are skipped silently)",
              construct="FilesInfo dispatch else")
    dummy = [n for n in walk(loops[0]) if isinstance(n, ast.If) and any(isinstance(x, ast.Attribute) and x.attr == "DUMMY" for x in ast.walk(n.test))]
    size_vars = {n.targets[0].id for n in walk(loops[0]) if isinstance(n, ast.Assign) and isinstance(n.targets[0], ast.Name) and isinstance(n.value, ast.Call) and attr_tail(n.value) == "read_uint64"}
    size_vars |= gen_sizes
    ok = bool(dummy) and any(isinstance(c, ast.Call) and attr_tail(c) == "seek" and len(c.args) == 2 and norm(c.args[0]) in size_vars for st in dummy[0].body for c in ast.walk(st)) \
        and any(isinstance(s, ast.Continue) for s in dummy[0].body)
    ctx.check(ok, "R06.1", f, dummy[0] if dummy else f.node, "kDummy skips exactly its size", "the kDummy padding record is not skipped by exactly its declared size", construct="FilesInfo DUMMY")
    # each record is parsed from a buffer of exactly `size` bytes (so a record cannot read into the next one)
    bufs = [n for n in walk(loops[0]) if isinstance(n, ast.Assign) and isinstance(n.value, ast.Call) and attr_tail(n.value) == "BytesIO"
            and n.value.args and isinstance(n.value.args[0], ast.Call) and attr_tail(n.value.args[0]) == "read" and norm(n.value.args[0].args[0]) in size_vars]
    ctx.check(len(bufs) == 1, "R06.1", f, loops[0], "each property record is parsed from a size-limited buffer", "property records are not parsed from a buffer limited to the declared record size",
              construct="FilesInfo record buffer")
    # optional sections: StreamsInfo.read / Header._extract_header_info use `if pid == X:` (not elif chains that require an order)
    for qn in ("StreamsInfo.read", "Header._extract_header_info"):
        g = ctx.prog.func("archiveinfo", qn)
        ifs = [n for n in g.node.body if isinstance(n, ast.If)]
        secs = [n for n in ifs if isinstance(n.test, ast.Compare) and isinstance(n.test.ops[0], ast.Eq)]
        idv = {norm(n.test.left) for n in secs} | {norm(n.test.comparators[0]) for n in secs}
        ok = len(secs) >= 2 and all(any(isinstance(s, ast.Assign) and norm(s.targets[0]) in idv and isinstance(s.value, ast.Call) and attr_tail(s.value) == "read" for s in n.body) for n in secs)
        ctx.check(ok, "R06.1", g, g.node, f"{qn}: every sub-section is optional and advances the id", f"{qn}: sub-sections are not parsed as independent optional blocks that read the next id",
                  construct=f"{qn} optional sections")


def r06_2(ctx: Ctx) -> None:
    """packpos must be consumed by extraction, test() and the append position."""
    ps = ctx.prog.method(ctx.prog.cls("SevenZipFile", "py7zr"), "_packed_start")
    if ps is not None:
        # the one place that turns packpos into a position: start of the packed area = end of the signature header PLUS packpos, whenever a
        # PackInfo exists (every fixture of the test suite has packpos 0, so the sign and the guard are invisible to it)
        rets = [r for r in walk(ps.node) if isinstance(r, ast.Return) and r.value is not None and any(isinstance(x, ast.Attribute) and x.attr == "packpos" for x in ast.walk(r.value))]
        ctx.check(bool(rets), "R06.2", ps, ps.node, "_packed_start uses packpos", "_packed_start never adds PackInfo.packpos: the packed area of an archive whose header precedes the data "
                  "(or that has a gap) is taken to start right behind the signature header", construct="_packed_start ignores packpos")
        for r in rets:
            v = r.value
            ok = isinstance(v, ast.BinOp) and isinstance(v.op, ast.Add) and {("afterheader" in norm(v.left)), ("afterheader" in norm(v.right))} == {True, False} \
                and ("packpos" in norm(v.left) or "packpos" in norm(v.right))
            wrong = [(cd, pol) for cd, pol in q.facts_at(ps, r) if (nt := q.is_none_test(cd)) is not None and nt[1] == pol]
            ctx.check(ok and not wrong, "R06.2", ps, r, "_packed_start = afterheader + packpos wherever a PackInfo exists",
                      f"_packed_start returns `{norm(v)}`" + (f" under `{norm(wrong[0][0])}` {'true' if wrong[0][1] else 'false'}" if wrong else "") + ": the packed area starts at the end of the "
                      "signature header plus PackInfo.packpos (archives whose header precedes the data, or with a gap); every member of such an archive is decoded from the wrong offset",
                      construct="_packed_start arithmetic")
    families = {
        "extraction start": [shared.szf(ctx, "__init__"), shared.szf(ctx, "reset"), shared.szf(ctx, "testzip")],
        "test()": [shared.szf(ctx, "test")],
        "append position": [shared.szf(ctx, "_prepare_append")],
    }

    def reads_packpos(f: Func, depth: int = 2) -> bool:
        if any(isinstance(n, ast.Attribute) and n.attr == "packpos" and isinstance(n.ctx, ast.Load) for n in walk(f.node)):
            return True
        if depth > 0:
            for cs in ctx.res.sites_in(f):
                for g in cs.targets:
                    if g.module == "py7zr" and g.cls == "SevenZipFile" and g.qname != f.qname and g.name.startswith("_") and reads_packpos(g, depth - 1):
                        return True
        return False
    for fam, funcs in families.items():
        for f in funcs:
            # every Worker(...) construction / seek that positions the handle must use a start that includes packpos
            starts = [c for c in q.calls(f) if attr_tail(c) == "Worker"] + [c for c in q.calls(f) if attr_tail(c) == "seek" and norm(c.func.value) == "self.fp"
                                                                              and not (len(c.args) == 1 and isinstance(c.args[0], ast.Constant) and c.args[0].value == 0)] \
                + ([c for c in q.calls(f) if attr_tail(c) == "_read_digest"] if f.name == "test" else [])
            if not starts:
                continue
            for c in starts:
                arg = c.args[1] if attr_tail(c) == "Worker" and len(c.args) > 1 else (c.args[0] if c.args else None)
                if arg is None:
                    continue
                srcs = q.sources_of(f, arg, depth=3)
                uses = any(isinstance(n, ast.Attribute) and n.attr == "packpos" for s in srcs for n in ast.walk(s))
                for s in srcs:
                    for call in [x for x in ast.walk(s) if isinstance(x, ast.Call)]:
                        for t in shared.targets_of(ctx, f, call) if any(call is y for y in q.calls(f)) else []:
                            g = ctx.res._func_by_q(t)
                            if g is not None and reads_packpos(g, 1):
                                uses = True
                        if attr_tail(call) == "_packed_start":
                            g = ctx.prog.find_func("py7zr", "SevenZipFile._packed_start")
                            uses = uses or (g is not None and reads_packpos(g, 0))
                ctx.check(uses, "R06.2", f, c, f"{f.qname} [{fam}]: start position includes PackInfo.packpos",
                          f"{f.qname} positions the {fam} at afterheader without PackInfo.packpos: an archive whose packed area starts at an offset is "
                          "read from the wrong place (CrcError on a valid archive; an append would overwrite packed data)")
    # folder CRC consumers: the decoder receives folder.crc, the end-of-folder check compares it
    gd = ctx.prog.func("archiveinfo", "Folder.get_decompressor")
    ok = any(isinstance(c, ast.Call) and attr_tail(c) == "SevenZipDecompressor" and any(norm(a) == "self.crc" for a in c.args) for c in q.calls(gd))
    ctx.check(ok, "R06.2", gd, gd.node, "folder CRC handed to the decoder", "Folder.get_decompressor does not pass the folder CRC to the decoder (folder-level digests are never verified)",
              construct="folder crc consumer")
    wd = ctx.prog.func("py7zr", "Worker.decompress")
    ok = any(isinstance(c, ast.Call) and attr_tail(c) == "check_crc" for c in q.calls(wd)) and any(isinstance(n, ast.Raise) for n in walk(wd.node))
    ctx.check(ok, "R06.2", wd, wd.node, "end-of-folder CRC check", "Worker.decompress no longer checks the folder CRC at the end of the folder", construct="end-of-folder check")
    # emptyfiles / emptystream consumers
    rg = shared.szf(ctx, "_real_get_contents")
    ok = any(isinstance(n, ast.Subscript) and isinstance(n.slice, ast.Constant) and n.slice.value == "emptystream" for n in walk(rg.node))
    ctx.check(ok, "R06.2", rg, rg.node, "EmptyStream flags decide which members take a stream", "_real_get_contents does not consult the EmptyStream flag", construct="emptystream consumer")


def r06_3(ctx: Ctx) -> None:
    """digest vectors: number of CRCs read = number of defined entries."""
    # the folder digests of UnpackInfo end up ON the folders: each folder gets its flag from the vector and, when defined, its CRC from the
    # compact list (the flag is what the extraction path, the substream hand-down and the header writer consult)
    rc = ctx.prog.func("archiveinfo", "UnpackInfo._retrieve_coders_info")
    for lp in [l for l in walk(rc.node) if isinstance(l, ast.For) and "folders" in norm(l.iter) and any(isinstance(x, ast.Attribute) and x.attr == "crc" and isinstance(x.ctx, ast.Store) for x in ast.walk(l))]:
        fv = [x.id for x in ast.walk(lp.target) if isinstance(x, ast.Name)]
        flag = [n for n in ast.walk(lp) if isinstance(n, ast.Assign) and isinstance(n.targets[0], ast.Attribute) and n.targets[0].attr == "digestdefined"
                and isinstance(n.targets[0].value, ast.Name) and n.targets[0].value.id in fv and isinstance(n.value, ast.Subscript)]
        uncond = [n for n in flag if n in lp.body]
        ctx.check(bool(uncond), "R06.3", rc, lp, "every folder's digestdefined flag is taken from the vector",
                  "UnpackInfo._retrieve_coders_info stores the folders' CRCs but not (for every folder, unconditionally) the flag that says whether a folder has one: "
                  "`folder.digestdefined` stays False, the folder CRC is never compared, never handed down to the single substream and never rewritten",
                  construct="folder digestdefined not stored")
    sites = [("archiveinfo", "UnpackInfo._retrieve_coders_info"), ("archiveinfo", "SubstreamsInfo._read"), ("archiveinfo", "PackInfo._read")]
    n = 0
    for mod, qn in sites:
        f = ctx.prog.func(mod, qn)
        defs = [x for x in walk(f.node) if isinstance(x, ast.Assign) and isinstance(x.value, ast.Call) and attr_tail(x.value) == "read_boolean"
                and any(k.arg == "checkall" for k in x.value.keywords) or
                (isinstance(x, ast.Assign) and isinstance(x.value, ast.Call) and attr_tail(x.value) == "read_boolean" and len(x.value.args) >= 3)]
        for d in defs:
            n += 1
            vec = norm(d.targets[0])
            cnt = norm(d.value.args[1])
            # CRC reads that follow: read_crcs(file, K) or a loop over the vector reading one uint32 per defined entry
            crc_reads = [c for c in q.calls(f) if attr_tail(c) == "read_crcs"]
            ok = False
            why = "no CRC read follows the defined-vector"
            for c in crc_reads:
                k = c.args[1]
                if isinstance(k, ast.Call) and attr_tail(k) == "count" and norm(k.func.value) == vec and k.args and isinstance(k.args[0], ast.Constant) and k.args[0].value is True:
                    ok = True
                elif norm(k) == cnt:
                    why = f"read_crcs(file, {cnt}) reads one CRC per ENTRY; the format stores a CRC only for defined entries"
            per = [c for c in q.calls(f) if attr_tail(c) == "read_uint32" and q.enclosing_loops(f, c)]
            for c in per:
                lp = q.enclosing_loops(f, c)[-1]
                if isinstance(lp, ast.For) and norm(lp.iter) == vec:
                    facts = q.facts_at(f, c)
                    if any(pol and isinstance(cd, ast.Name) and isinstance(lp.target, ast.Name) and cd.id == lp.target.id for cd, pol in facts):
                        ok = True
            ctx.check(ok, "R06.3", f, d, f"{qn}: one CRC per defined entry of {vec}", f"{qn}: {why}: a conforming archive with a partially defined digest vector is rejected", construct=f"{qn} digest count")
    ctx.floor("R06.3", n, 3, "digest vectors read with the all-defined shortcut")
    # SubStreamsInfo: the vector covers only streams whose digest is not already given by the folder CRC
    f = ctx.prog.func("archiveinfo", "SubstreamsInfo._read")
    rb = [c for c in q.calls(f) if attr_tail(c) == "read_boolean"]
    for c in rb:
        cnt = c.args[1]
        if not isinstance(cnt, ast.Name):
            ctx.fail("R06.3", f, c, "the number of substream digests is not a counted local")
            continue
        names = {cnt.id} | {n.id for s_ in q.sources_of(f, cnt, depth=3) for n in ast.walk(s_) if isinstance(n, ast.Name)}
        incs = [x for x in walk(f.node) if isinstance(x, ast.AugAssign) and isinstance(x.target, ast.Name) and x.target.id in names
                and not (isinstance(x.value, ast.Constant))]
        # of several counters reaching the vector size, the one that is actually passed must be the guarded one
        direct = [x for x in incs if x.target.id == cnt.id] or incs
        srcs0 = q.assigned_values(f, cnt.id)
        if srcs0 and not [x for x in incs if x.target.id == cnt.id]:
            first = srcs0[0]
            if isinstance(first, ast.Tuple) and False:
                pass
        incs = direct if [x for x in incs if x.target.id == cnt.id] else incs
        ok = bool(incs) and all(any("digestdefined" in norm(cd) for cd, pol in q.facts_at(f, i)) for i in incs)
        ctx.check(ok, "R06.3", f, c, "substream digest vector excludes single-stream folders that carry a folder CRC",
                  f"the SubStreamsInfo digest vector is sized by `{cnt.id}`, which also counts single-stream folders whose digest is the folder CRC: "
                  "a conforming archive mixing folder-level and per-file CRCs is over-read and rejected")
    # values are attached by walking the defined flags (no index shift)
    f = ctx.prog.func("archiveinfo", "SubstreamsInfo._read")
    ok = True
    for a in [c for c in q.calls(f) if attr_tail(c) == "append" and norm(c.func.value) == "self.digests" and c.args and isinstance(c.args[0], ast.Subscript)]:
        idx = norm(a.args[0].slice)
        incs = [n_ for n_ in walk(f.node) if isinstance(n_, ast.AugAssign) and norm(n_.target) == idx]
        dvars = {n.targets[0].id for n in walk(f.node) if isinstance(n, ast.Assign) and isinstance(n.targets[0], ast.Name) and isinstance(n.value, ast.Call) and attr_tail(n.value) == "read_boolean"}
        guarded = any(pol and isinstance(cd, ast.Subscript) and norm(cd.value) in dvars for cd, pol in q.facts_at(f, a))
        ok = ok and bool(incs) and guarded
    ctx.check(ok, "R06.3", f, f.node, "substream digests are attached by walking the defined flags", "substream CRC values are not consumed under their defined flag (index shift for partially defined vectors)",
              construct="substream digest walk")


NULLABLE_ON_VALID = {
    "main_streams": "None when the archive has no data streams (empty archive, only empty files / directories)",
    "files_info": "None for an empty archive",
    "substreamsinfo": "absent when the writer omits SubStreamsInfo (one stream per folder)",
}


def r06_4(ctx: Ctx) -> None:
    """an attribute that is None on VALID archives may not be dereferenced unguarded in the read closure."""
    clo = shared.read_closure(ctx)
    # substreamsinfo is acceptable without guards iff the reader materialises it whenever unpackinfo exists
    sr = ctx.prog.func("archiveinfo", "StreamsInfo.read")
    materialised = False
    for n in walk(sr.node):
        if isinstance(n, ast.Assign) and any(isinstance(t, ast.Attribute) and t.attr == "substreamsinfo" for t in n.targets):
            facts = q.facts_at(sr, n)
            if any(isinstance(cd, ast.Compare) and any(isinstance(x, ast.Attribute) and x.attr == "SUBSTREAMS_INFO" for x in ast.walk(cd)) and not pol for cd, pol in facts):
                materialised = True
    n_sites = 0
    for fq, f in sorted(clo.items()):
        if f.module not in ("py7zr", "cli"):
            continue
        for n in walk(f.node):
            if not (isinstance(n, ast.Attribute) and isinstance(n.ctx, ast.Load)):
                continue
            subj = n.value
            name = subj.attr if isinstance(subj, ast.Attribute) else (subj.id if isinstance(subj, ast.Name) else None)
            key = None
            if isinstance(subj, ast.Attribute) and subj.attr in NULLABLE_ON_VALID:
                key = subj.attr
            elif isinstance(subj, ast.Name) and subj.id == "subinfo":
                key = "substreamsinfo"
            if key is None:
                continue
            if key == "substreamsinfo" and materialised:
                continue
            n_sites += 1
            facts = q.facts_at(f, n)
            ok = q.known_not_none(facts, subj)
            if not ok and isinstance(subj, ast.Name):
                # local alias assigned under a guard, e.g. `subinfo = self.header.main_streams.substreamsinfo`
                ok = False
            # hasattr(...) and x is not None pattern
            if not ok:
                ok = any(pol and isinstance(cd, ast.Compare) and q.is_none_test(cd) is not None and not q.is_none_test(cd)[1]
                         and norm(q.is_none_test(cd)[0]) == norm(subj) for cd, pol in facts)
            ctx.check(ok, "R06.4", f, n, f"{fq}: {norm(subj)} dereferenced under a not-None guard",
                      f"{norm(subj)} is dereferenced without a not-None guard although it is {NULLABLE_ON_VALID[key]}: a valid archive makes this call raise "
                      "AttributeError instead of being read", construct=norm(n), path=ctx.res.call_path(shared.read_roots(ctx), fq))
    ctx.floor("R06.4", n_sites, 4, "dereferences of nullable header sections in the read closure")
    ctx.check(True, "R06.4", sr, sr.node, f"SubStreamsInfo materialised when absent: {materialised}", "")


def r06_5(ctx: Ctx, rule: str = "R06.5") -> None:
    """member-id bookkeeping: ids of per-folder lists are the members' positions in the archive (shared with C01/C08/C09)."""
    rg = shared.szf(ctx, "_real_get_contents")
    loops = [n for n in walk(rg.node) if isinstance(n, ast.For) and isinstance(n.iter, ast.Call) and dotted(n.iter.func) == "enumerate"
             and norm(n.iter.args[0]).endswith("files_info.files")]
    ctx.need(len(loops) == 1 and isinstance(loops[0].target, ast.Tuple), "member enumeration loop not recognised in _real_get_contents")
    idvar = loops[0].target.elts[0].id
    appends = [c for c in q.calls(rg) if attr_tail(c) == "append" and norm(c.func.value) in ("folder.files", "self.files")]
    ctx.floor(rule, len(appends), 2, "member list appends in _real_get_contents")
    afl = ctx.prog.cls("ArchiveFileList", "py7zr")
    gi = afl.methods["__getitem__"]
    for a in appends:
        tgt = norm(a.func.value)
        if tgt == "self.files":
            # global list: appended on every iteration -> position == id, offset 0
            lp_it = cfg_of(rg.node).by_ast[loops[0]]
            body = next(s for s in lp_it.succ if s.kind == "body")
            an = q.node_for(rg, a)
            every = not cfg_of(rg.node).reaches(body, lp_it, avoid=[an], normal_only=True)
            ctx.check(every, rule, rg, a, "global member list: appended on every iteration (position = id)",
                      "the global member list is not appended on every iteration of the enumeration: positions no longer equal member ids")
        else:
            # per-folder list: conditional append -> the id must be stored explicitly
            explicit = len(a.args) >= 2 and isinstance(a.args[1], ast.Name) and a.args[1].id == idvar or any(k.arg in ("file_id", "id") and norm(k.value) == idvar for k in a.keywords)
            # or the list element carries the id itself
            ctx.check(explicit, rule, rg, a, "per-folder member list stores the member's own id",
                      "per-folder member lists number their entries 'first id + position' although entries without a stream (directories, empty files) are "
                      "skipped: a directory stored between the files of a folder shifts the ids of the following members, whose output targets are then not found")
    # __getitem__ prefers the stored id
    src_ids = any(isinstance(n, ast.Subscript) and norm(n.value).endswith("_ids") for n in walk(gi.node))
    off_only = any(isinstance(n, ast.BinOp) and isinstance(n.op, ast.Add) and "offset" in norm(n) for n in walk(gi.node))
    per_folder_explicit = all((len(a.args) >= 2) for a in appends if norm(a.func.value) == "folder.files")
    ctx.check(src_ids or not per_folder_explicit, rule, gi, gi.node, "ArchiveFileList.__getitem__ uses the stored id",
              "ArchiveFileList.__getitem__ ignores the stored member id", construct="ArchiveFileList.__getitem__ id")
    ap = afl.methods["append"]
    if per_folder_explicit:
        ok = len(ap.params) >= 3 and any(isinstance(c, ast.Call) and attr_tail(c) == "append" and norm(c.func.value).endswith("_ids") for c in q.calls(ap))
        ctx.check(ok, rule, ap, ap.node, "ArchiveFileList.append records the id", "ArchiveFileList.append drops the member id it is given", construct="ArchiveFileList.append id")
    # consumers use f.id for registration and lookup
    ex = shared.szf(ctx, "_extract")
    regs = [c for c in q.calls(ex) if attr_tail(c) == "register_filelike"]
    ok = all(c.args and isinstance(c.args[0], ast.Attribute) and c.args[0].attr == "id" for c in regs) and bool(regs)
    ctx.check(ok, rule, ex, ex.node, "outputs registered under member.id", "_extract registers outputs under something other than member.id", construct="register key")
    es = ctx.prog.func("py7zr", "Worker._extract_single")
    gets = [c for c in q.calls(es) if attr_tail(c) == "get" and norm(c.func.value).endswith("target_filepath")]
    ok = bool(gets) and all(c.args and isinstance(c.args[0], ast.Attribute) and c.args[0].attr == "id" for c in gets)
    ctx.check(ok, rule, es, es.node, "outputs looked up by member.id", "_extract_single looks outputs up by something other than member.id", construct="lookup key")


def _nullable_keys(ctx: Ctx) -> Set[str]:
    """per-file keys the FilesInfo readers may set to None (`value if defined[i] else None`)."""
    fi = ctx.prog.cls("FilesInfo", "archiveinfo")
    keys: Set[str] = set()
    for m in fi.methods.values():
        if not m.name.startswith("_read"):
            continue
        for n in walk(m.node):
            if isinstance(n, ast.Assign) and isinstance(n.value, ast.IfExp) and isinstance(n.value.orelse, ast.Constant) and n.value.orelse.value is None:
                t = n.targets[0]
                if isinstance(t, ast.Subscript) and isinstance(t.slice, ast.Constant):
                    keys.add(t.slice.value)
                elif isinstance(t, ast.Subscript) and isinstance(t.slice, ast.Name) and t.slice.id in m.params:
                    for caller in fi.methods.values():
                        for c in q.calls(caller):
                            if attr_tail(c) == m.name:
                                keys |= {a.value for a in c.args if isinstance(a, ast.Constant) and isinstance(a.value, str)}
    return keys


def r06_7(ctx: Ctx) -> None:
    """undefined (None) timestamps / attributes of valid archives must not be fed to conversions unguarded."""
    keys = _nullable_keys(ctx)
    ctx.need({"lastwritetime", "attributes"} <= keys, f"nullable per-file keys not derived from the readers: {sorted(keys)}")
    clo = shared.read_closure(ctx)
    n_sites = 0
    for fq, f in sorted(clo.items()):
        if f.module != "py7zr":
            continue
        for n in walk(f.node):
            if not (isinstance(n, ast.Subscript) and isinstance(n.ctx, ast.Load) and isinstance(n.slice, ast.Constant) and n.slice.value in keys):
                continue
            # how is the value used?  (call argument / arithmetic) => needs a not-None guard
            pm = getattr(f, "_pm", None)
            if pm is None:
                from ..model import parent_map
                pm = parent_map(f.node)
                f._pm = pm  # type: ignore[attr-defined]
            par = pm.get(n)
            risky = isinstance(par, ast.Call) and n in par.args and dotted(par.func) not in ("isinstance", "str", "repr", "print") \
                or isinstance(par, (ast.BinOp, ast.UnaryOp)) and not isinstance(par, ast.BoolOp)
            if not risky:
                continue
            n_sites += 1
            facts = q.facts_at(f, n)
            ok = q.known_not_none(facts, n)
            ctx.check(ok, "R06.7", f, par, f"{fq}: {norm(n)} converted under a not-None guard",
                      f"{norm(n)} is None for a member whose {n.slice.value} is undefined (legal in the 7z format) but is passed to `{norm(par)[:60]}` without a not-None guard: "
                      "reading such a valid archive raises TypeError", path=ctx.res.call_path(shared.read_roots(ctx), fq))
    ctx.ok("R06.7", f"{n_sites} conversions of nullable per-file values inspected (keys {sorted(keys)})")


def r06_8(ctx: Ctx) -> None:
    """the folder-level CRC may only be compared once the WHOLE folder has been decoded."""
    wd = ctx.prog.func("py7zr", "Worker.decompress")
    raises = [n for n in walk(wd.node) if isinstance(n, ast.Raise) and isinstance(n.exc, ast.Call) and dotted(n.exc.func) == "CrcError"
              and any(isinstance(x, ast.Attribute) and x.attr in ("crc", "digest") and norm(x.value) == "decompressor" for x in ast.walk(n.exc))]
    ctx.floor("R06.8", len(raises), 1, "folder-level CrcError raise in Worker.decompress")
    dcls = ctx.prog.cls("SevenZipDecompressor", "compressor")
    for r in raises:
        facts = q.facts_at(wd, r)
        good = False
        def whole_folder(c: ast.AST) -> bool:
            if not (isinstance(c, ast.Call) and isinstance(c.func, ast.Attribute) and norm(c.func.value) == "decompressor"):
                return False
            m = ctx.prog.method(dcls, c.func.attr)
            return m is not None and any(isinstance(x, ast.Attribute) and x.attr in ("unpacksizes", "_unpacksizes") for x in walk(m.node))

        def implies(cd: ast.AST, pol: bool) -> bool:
            """does the fact (cd has truth value pol) imply that the whole folder was delivered?  `a or whole()` does not."""
            if isinstance(cd, ast.UnaryOp) and isinstance(cd.op, ast.Not):
                return implies(cd.operand, not pol)
            if isinstance(cd, ast.BoolOp):
                conj = isinstance(cd.op, ast.And) == pol  # (a and b) true / (a or b) false: every operand has that value
                vals = [implies(v, pol) for v in cd.values]
                return any(vals) if conj else all(vals)
            return pol and whole_folder(cd)
        for cd, pol in facts:
            if implies(cd, pol):
                good = True
        ctx.check(good, "R06.8", wd, r, "folder CRC compared only when the decoder has delivered the whole folder",
                  "the folder-level CRC is compared as soon as the packed input is exhausted (fp.tell() >= src_end), i.e. possibly after the FIRST member of a folder "
                  "that holds several members: a valid archive with a folder CRC on a multi-member folder raises CrcError")


def r06_6(ctx: Ctx) -> None:
    from . import c01
    c01.r01_1(ctx, rule="R06.6", decoder_only=True)


def _enclosing_conditions(f: Func, stmt: ast.AST):
    """[(test, polarity)] of the if-statements that enclose stmt (structural; else-arm => polarity False)."""
    from ..model import parent_map
    pm = parent_map(f.node)
    out = []
    cur = stmt
    while cur in pm:
        par = pm[cur]
        if isinstance(par, ast.If):
            if any(cur is x for x in par.body):
                out.append((par.test, True))
            elif any(cur is x for x in par.orelse):
                out.append((par.test, False))
        cur = par
    return out


def _prop_eval(f: Func, e: ast.AST, classify, env) -> Optional[bool]:
    """value of a propositional combination of classified atoms under env (atom key -> bool); None when an atom is unknown."""
    if isinstance(e, ast.BoolOp):
        vals = [_prop_eval(f, v, classify, env) for v in e.values]
        if any(v is None for v in vals):
            return None
        return all(vals) if isinstance(e.op, ast.And) else any(vals)
    if isinstance(e, ast.UnaryOp) and isinstance(e.op, ast.Not):
        v = _prop_eval(f, e.operand, classify, env)
        return None if v is None else (not v)
    c = classify(q.expand_locals(f, e))
    if c is None:
        return None
    key, positive = c
    return env[key] if positive else (not env[key])


def r06_9(ctx: Ctx) -> None:
    """SubStreamsInfo kCRC: the number of 'defined' flags that are READ (counting loop) and the number that are CONSUMED (distribution
    loop) are decided per folder by two separately written predicates over (stream count == 1, folder digest defined, folder crc
    present).  They must be propositionally equivalent (under 'digest defined => crc present', which Folder._read establishes);
    otherwise a valid archive with folder CRCs and a multi-stream folder is refused (IndexError) or digests go to the wrong member."""
    f = ctx.prog.func("archiveinfo", "SubstreamsInfo._read")

    def is_count(e: ast.AST) -> bool:
        """e denotes the per-folder stream count (directly, or a local every assignment of which reads it)."""
        if "num_unpackstreams_folders" in norm(e):
            return True
        if isinstance(e, ast.Name):
            vals = q.assigned_values(f, e.id)
            return bool(vals) and all("num_unpackstreams_folders" in norm(v) for v in vals)
        return False

    def classify(e: ast.AST):
        t = norm(e)
        if isinstance(e, ast.Compare) and len(e.ops) == 1 and isinstance(e.comparators[0], ast.Constant):
            nt = q.is_none_test(e)
            if nt is not None and "crc" in norm(nt[0]):
                return ("crc", not nt[1])
            if e.comparators[0].value == 1 and is_count(e.left):
                if isinstance(e.ops[0], ast.Eq):
                    return ("one", True)
                if isinstance(e.ops[0], ast.NotEq):
                    return ("one", False)
        if isinstance(e, ast.Attribute) and e.attr == "digestdefined":
            return ("dd", True)
        return None

    def formula_true(conds, env) -> Optional[bool]:
        for test, pol in conds:
            v = _prop_eval(f, test, classify, env)
            if v is None:
                return None
            if v != pol:
                return False
        return True

    counting = [n for n in walk(f.node) if isinstance(n, ast.AugAssign) and isinstance(n.op, ast.Add) and isinstance(n.target, ast.Name)
                and is_count(n.value) and _enclosing_conditions(f, n)]
    # the cursor into the flag vector: a name that indexes the result of read_boolean and is advanced by one
    flagvecs = {t.id for n in walk(f.node) if isinstance(n, ast.Assign) and isinstance(n.value, ast.Call) and attr_tail(n.value) == "read_boolean"
                for t in n.targets if isinstance(t, ast.Name)}
    cursors = {norm(x.slice) for x in walk(f.node) if isinstance(x, ast.Subscript) and isinstance(x.value, ast.Name) and x.value.id in flagvecs and isinstance(x.slice, ast.Name)}
    consuming = [n for n in walk(f.node) if isinstance(n, ast.AugAssign) and isinstance(n.op, ast.Add) and isinstance(n.target, ast.Name)
                 and n.target.id in cursors and isinstance(n.value, ast.Constant) and n.value.value == 1]
    ctx.floor("R06.9", len(counting), 1, "conditional count of substream digests")
    ctx.floor("R06.9", len(consuming), 1, "advance of the cursor into the defined-flags vector")
    if not counting or not consuming:
        return
    cnt, con = counting[0], consuming[0]
    c1 = _enclosing_conditions(f, cnt)
    # only conditions inside the per-folder loop matter for the consumer (drop the enclosing `if pid == CRC`, `if defined[didx]`)
    c2 = [(t, p) for t, p in _enclosing_conditions(f, con) if not any(isinstance(x, ast.Name) and x.id in ("pid",) for x in ast.walk(t))
          and not any(isinstance(x, ast.Subscript) and isinstance(x.value, ast.Name) and x.value.id in flagvecs for x in ast.walk(t))]
    diffs = []
    unknown = False
    for one in (True, False):
        for dd in (True, False):
            for crc in ((True,) if dd else (True, False)):
                env = {"one": one, "dd": dd, "crc": crc}
                a, b = formula_true(c1, env), formula_true(c2, env)
                if a is None or b is None:
                    unknown = True
                elif a != b:
                    diffs.append(f"count==1:{one} folder-digest:{dd} -> counted:{a} consumed:{b}")
    if unknown:
        ctx.fail("R06.9", f, con, "the per-folder predicates of the digest count / digest distribution use a test this rule cannot classify "
                 "(expected: stream count == 1, folder.digestdefined, folder.crc is not None)", construct="substream digest predicates")
        return
    ctx.check(not diffs, "R06.9", f, con, "SubStreamsInfo digests: counted flags == consumed flags for every folder shape",
              "the number of digest flags read and the number consumed disagree for " + "; ".join(diffs) +
              ": a valid archive with folder CRCs and such a folder fails to open (IndexError) or members get each other's digests",
              construct="substream digest predicates")


def r06_10(ctx: Ctx, rule: str = "R06.10") -> None:
    """folder task window: each folder task started by Worker.extract gets the member list of folder I and the byte window of folder I's
    OWN packed streams: [start + positions[first_I], start + positions[first_I + n_I]) where n_I is the folder's number of packed streams
    and first_I the running sum over the archive's full, unfiltered folder list (packpositions has one entry per packed stream, not per
    folder - F92).  A filtered folder list indexed by its own position, or the folder number used as stream number, reads later folders
    from the offsets of earlier ones."""
    ex = ctx.prog.func("py7zr", "Worker.extract")

    def ends_in(e: ast.AST, attr: str, depth: int = 4) -> bool:
        if isinstance(e, ast.Attribute):
            return e.attr == attr
        if isinstance(e, ast.Name) and depth > 0:
            vals = q.assigned_values(ex, e.id)
            return bool(vals) and all(ends_in(v, attr, depth - 1) for v in vals)
        return False

    sites = []
    for c in q.calls(ex):
        if "py7zr:Worker.extract_single" in shared.targets_of(ctx, ex, c) and len(c.args) >= 5:
            sites.append((c, c.args[1], c.args[3], c.args[4]))
        else:
            tup = next((k.value for k in c.keywords if k.arg == "args"), None)
            tgt = next((k.value for k in c.keywords if k.arg == "target"), None)
            if isinstance(tup, ast.Tuple) and tgt is not None and len(tup.elts) >= 5:
                sites.append((c, tup.elts[1], tup.elts[3], tup.elts[4]))
    def stream_table(name: str):
        """is `name` the table [(first packed stream, one past the last)] built over the archive's FULL folder list by a running sum of
        each folder's packed-stream count?  returns a reason when it is not."""
        apps = [c_ for c_ in q.calls(ex) if attr_tail(c_) == "append" and isinstance(c_.func.value, ast.Name) and c_.func.value.id == name]
        if len(apps) != 1:
            return f"`{name}` is not filled by exactly one append"
        ap = apps[0]
        lps = q.enclosing_loops(ex, ap)
        if not lps or not isinstance(lps[-1], ast.For) or not isinstance(lps[-1].target, ast.Name) or not ends_in(lps[-1].iter, "folders"):
            return f"`{name}` is not filled in a loop over the archive's full folder list"
        fv = lps[-1].target.id
        tup = ap.args[0] if ap.args else None
        if not (isinstance(tup, ast.Tuple) and len(tup.elts) == 2 and isinstance(tup.elts[0], ast.Name) and isinstance(tup.elts[1], ast.BinOp) and isinstance(tup.elts[1].op, ast.Add)
                and norm(tup.elts[1].left) == tup.elts[0].id):
            return f"`{name}` entries are not (first, first + count)"
        run, cnt = tup.elts[0].id, tup.elts[1].right

        def per_folder_count(e: ast.AST) -> bool:
            for x in list(ast.walk(e)) + [y for nm in ast.walk(e) if isinstance(nm, ast.Name) for v in q.assigned_values(ex, nm.id) for y in ast.walk(v)]:
                if isinstance(x, ast.Call) and isinstance(x.func, ast.Attribute) and norm(x.func.value) == fv:
                    m = ctx.prog.method(ctx.prog.cls("Folder", "archiveinfo"), x.func.attr)
                    if m is not None and any(isinstance(y, ast.Attribute) and y.attr in ("packed_indices", "coders") for y in walk(m.node)):
                        return True
                if isinstance(x, ast.Attribute) and x.attr in ("packed_indices", "coders") and norm(x.value) == fv:
                    return True
            return False
        if not per_folder_count(cnt):
            return f"the count `{norm(cnt)}` is not the folder's own number of packed streams"
        steps = [n_ for n_ in ast.walk(lps[-1]) if isinstance(n_, ast.AugAssign) and isinstance(n_.op, ast.Add) and norm(n_.target) == run]
        if len(steps) != 1 or norm(steps[0].value) != norm(cnt):
            return f"the running index `{run}` is not advanced by the same count"
        inits = [v for v in q.assigned_values(ex, run) if isinstance(v, ast.Constant)]
        if not inits or any(v.value != 0 for v in inits):
            return f"the running index `{run}` does not start at 0"
        return None

    def table_ref(e: ast.AST, which: int):
        """e == positions[T[idx][which]] or positions[name] with (a, b) = T[idx]: returns (positions expr, T, idx) or None"""
        subs = [x for x in ast.walk(e) if isinstance(x, ast.Subscript)]
        outer = [x for x in subs if ends_in(x.value, "packpositions")]
        if len(outer) != 1:
            return None
        ix = outer[0].slice
        if isinstance(ix, ast.Subscript) and isinstance(ix.slice, ast.Constant) and ix.slice.value == which and isinstance(ix.value, ast.Subscript) and isinstance(ix.value.value, ast.Name):
            return outer[0].value, ix.value.value.id, norm(ix.value.slice)
        if isinstance(ix, ast.Name):
            for st in walk(ex.node):
                if isinstance(st, ast.Assign) and isinstance(st.targets[0], ast.Tuple) and len(st.targets[0].elts) == 2 and isinstance(st.value, ast.Subscript) and isinstance(st.value.value, ast.Name):
                    el = st.targets[0].elts[which]
                    if isinstance(el, ast.Name) and el.id == ix.id:
                        return outer[0].value, st.value.value.id, norm(st.value.slice)
        return None

    n = 0
    for c, files, start, end in sites:
        if not q.enclosing_loops(ex, c):
            continue  # single-folder arm and the empty-file call carry no index
        n += 1
        fsub = files.value if isinstance(files, ast.Attribute) and files.attr == "files" else None
        ok = False
        why = "the member list is not `folders[I].files` (or the `.files` of the loop's own folder variable)"
        lp = q.enclosing_loops(ex, c)[-1]
        ssubs = [x for x in ast.walk(start) if isinstance(x, ast.Subscript)]
        esubs = [x for x in ast.walk(end) if isinstance(x, ast.Subscript)]

        def window_ok(idx: str) -> bool:
            return len(ssubs) == 1 and len(esubs) == 1 and norm(ssubs[0].slice) == idx and norm(esubs[0].slice).replace(" ", "") in (f"{idx}+1", f"1+{idx}") \
                and norm(ssubs[0].value) == norm(esubs[0].value)

        STREAM_NOTE = ("the pack positions have one entry per PACKED STREAM and a folder owns one or several (BCJ2: four): a window taken at the folder's own number is the "
                       "window of another folder as soon as an earlier folder has more than one packed stream")
        if isinstance(fsub, ast.Subscript):
            # (D) for I in range(n): folders[I].files, positions[T[I][0]] .. positions[T[I][1]], T = running sum of the folders' stream counts
            idx = norm(fsub.slice)
            ra, rb = table_ref(start, 0), table_ref(end, 1)
            if ra is not None and rb is not None:
                why = None
                if not (ra[1] == rb[1] and ra[2] == rb[2] == idx and norm(ra[0]) == norm(rb[0])):
                    why = f"window {norm(start)} .. {norm(end)} does not take both ends from one table entry of folder {idx}"
                elif not ends_in(fsub.value, "folders"):
                    why = f"`{norm(fsub.value)}` is not the archive's full folder list on every path (a filtered list still indexed by position)"
                else:
                    why = stream_table(ra[1])
                ok = why is None
                why = why or ""
            elif window_ok(idx):
                # (A) positions[I] .. positions[I + 1]: right only while every folder has exactly one packed stream
                ok = False
                why = f"window {norm(start)} .. {norm(end)} is indexed by the folder number; " + STREAM_NOTE
            else:
                why = f"window {norm(start)} .. {norm(end)} is not the stream range of folder {idx}"
        elif isinstance(fsub, ast.Name) and isinstance(lp, ast.For):
            it, tg = lp.iter, lp.target
            if isinstance(it, ast.Call) and dotted(it.func) == "enumerate" and it.args and isinstance(tg, ast.Tuple) and len(tg.elts) == 2 \
                    and isinstance(tg.elts[0], ast.Name) and isinstance(tg.elts[1], ast.Name) and tg.elts[1].id == fsub.id:
                # (B) for I, folder in enumerate(folders): the index is the folder's own only if the list is the full one
                idx = tg.elts[0].id
                ra, rb = table_ref(start, 0), table_ref(end, 1)
                if ra is not None and rb is not None and ra[1] == rb[1] and ra[2] == rb[2] == idx:
                    why = stream_table(ra[1])
                    if why is None and not (ends_in(it.args[0], "folders") and len(it.args) == 1):
                        why = f"`{norm(it.args[0])}` is enumerated but it is not the archive's full folder list on every path"
                    ok = why is None
                    why = why or ""
                else:
                    ok = False
                    why = f"window {norm(start)} .. {norm(end)} is not the stream range of folder {idx}; " + STREAM_NOTE
            elif isinstance(it, ast.Call) and dotted(it.func) == "zip" and len(it.args) == 2 and isinstance(tg, ast.Tuple) and len(tg.elts) == 2 \
                    and isinstance(tg.elts[0], ast.Name) and tg.elts[0].id == fsub.id and isinstance(tg.elts[1], ast.Tuple) and len(tg.elts[1].elts) == 2 \
                    and all(isinstance(e, ast.Name) for e in tg.elts[1].elts) and isinstance(it.args[1], ast.Name):
                # (D') for folder, (first, last) in zip(folders, T): each full-list folder with its own entry of the stream table
                a, b = tg.elts[1].elts[0].id, tg.elts[1].elts[1].id
                pa = [x for x in ast.walk(start) if isinstance(x, ast.Subscript) and ends_in(x.value, "packpositions")]
                pb = [x for x in ast.walk(end) if isinstance(x, ast.Subscript) and ends_in(x.value, "packpositions")]
                why = None
                if not (len(pa) == 1 and len(pb) == 1 and norm(pa[0].slice) == a and norm(pb[0].slice) == b):
                    why = f"window {norm(start)} .. {norm(end)} is not positions[{a}] .. positions[{b}] of the zipped table entry"
                elif not ends_in(it.args[0], "folders"):
                    why = f"`{norm(it.args[0])}` is not the archive's full folder list on every path"
                else:
                    why = stream_table(it.args[1].id)
                ok = why is None
                why = why or ""
            elif isinstance(it, ast.Call) and dotted(it.func) == "zip" and len(it.args) == 3 and isinstance(tg, ast.Tuple) and len(tg.elts) == 3 \
                    and all(isinstance(e, ast.Name) for e in tg.elts) and tg.elts[0].id == fsub.id:
                # (C) for folder, a, b in zip(folders, positions, positions[1:])
                a, b = tg.elts[1].id, tg.elts[2].id
                third = it.args[2]
                ok = any(isinstance(x, ast.Name) and x.id == a for x in ast.walk(start)) and any(isinstance(x, ast.Name) and x.id == b for x in ast.walk(end)) \
                    and isinstance(third, ast.Subscript) and isinstance(third.slice, ast.Slice) and norm(third.slice.lower) == "1" and third.slice.upper is None \
                    and norm(third.value) == norm(it.args[1]) and ends_in(it.args[0], "folders") and ends_in(it.args[1], "packpositions")
                ok = False  # pairs folder k with positions[k]: see STREAM_NOTE
                why = "the zip of folders, positions and positions[1:] pairs folder k with packed stream k; " + STREAM_NOTE
        ctx.check(ok, rule, ex, c, "folder task gets folders[I].files with the window of folder I's own packed streams",
                  "a folder task is started with a member list and a byte window that do not belong to the same folder: " + why +
                  "; later folders are decoded from the wrong offset (CrcError, or another member's bytes where no CRC is stored)",
                  construct=f"task window {norm(files)[:40]}")
    ctx.floor(rule, n, 2, "indexed folder task dispatches in Worker.extract")


def r06_11(ctx: Ctx) -> None:
    """7zAES coder properties are taken apart as the format lays them out (any legal salt/iv size, including iv size 0)."""
    from ..bitdom import aes_property_agreement, aes_flags_clear_accepted
    aes_property_agreement(ctx, "R06.11")
    aes_flags_clear_accepted(ctx, "R06.11")


def _cmp_with_small(e: ast.AST, is_count) -> bool:
    """does e contain a comparison of the stream count with 0 / 1 that separates 0 from the positive counts?"""
    for n in ast.walk(e):
        if isinstance(n, ast.Compare) and len(n.ops) == 1 and isinstance(n.comparators[0], ast.Constant) and is_count(n.left):
            v, op = n.comparators[0].value, n.ops[0]
            if (v == 0 and isinstance(op, (ast.Eq, ast.NotEq, ast.Gt, ast.LtE))) or (v == 1 and isinstance(op, (ast.GtE, ast.Lt))):
                return True
    return False


def r06_12(ctx: Ctx, rule: str = "R06.12") -> None:
    """folders WITHOUT substreams (NumUnpackStream 0 is legal, and py7zr's own append of only directories / empty files writes one):
    (a) the member->folder walk passes over them before it binds a member to `folders[cursor]`;
    (b) the SubStreamsInfo reader does not invent an implied 'last' size for them;
    (c) Folder.files (None until a member is bound) is not iterated without a not-None guard when folder tasks are dispatched."""
    # (a) ---------------------------------------------------------------------------------------------------------
    g = shared.szf(ctx, "_real_get_contents")

    def is_count_g(e: ast.AST) -> bool:
        return "num_unpackstreams_folders" in norm(q.expand_locals(g, e))

    def is_folders(e: ast.AST) -> bool:
        if norm(e).endswith("unpackinfo.folders"):
            return True
        return isinstance(e, ast.Name) and any(norm(v).endswith("unpackinfo.folders") for v in q.assigned_values(g, e.id))

    binds = [n for n in walk(g.node) if isinstance(n, ast.Assign) and isinstance(n.value, ast.Subscript) and is_folders(n.value.value)
             and not isinstance(n.value.slice, (ast.Constant, ast.Slice)) and q.enclosing_loops(g, n)]
    ctx.floor(rule, len(binds), 1, "member-to-folder binding in _real_get_contents")
    cfg = cfg_of(g.node)
    for b in binds:
        bn = q.node_for(g, b)
        tests = [t for t in cfg.nodes if t.kind == "test" and _cmp_with_small(t.ast, is_count_g) and cfg.dominates(t, bn)
                 and q.enclosing_loops(g, t.ast) and q.enclosing_loops(g, b) and q.enclosing_loops(g, t.ast)[0] is q.enclosing_loops(g, b)[0]]
        ctx.check(bool(tests), rule, g, b, "zero-stream folders are passed over before a member is bound to folders[cursor]",
                  "the member->folder walk binds the next non-empty member to `folders[cursor]` without first passing over folders that hold no substream: "
                  "after a folder with NumUnpackStream 0 every later member is bound to the wrong folder and byte position (valid archive refused or wrong data)",
                  construct="zero-stream folder skip")
        # ... ALL of them: several folders without substreams may follow one another (two sessions that appended only directories): the
        # passing-over repeats until a folder with substreams is reached (a `while` on the count, or a loop nested in the member loop)
        whiles = [w for w in walk(g.node) if isinstance(w, ast.While)]
        repeated = [t for t in tests if any(w.test is t.ast or any(x is t.ast for st in w.body for x in ast.walk(st)) for w in whiles)]
        if tests:
            ctx.check(bool(repeated), rule, g, tests[0].ast, "the passing-over of zero-stream folders repeats (a loop)",
                      f"`{norm(tests[0].ast)[:90]}` passes over ONE folder without substreams: when two or more such folders follow one another (w[a] a[dirs] a[dirs] a[b]: two sessions "
                      "that appended only directories) the next member is bound to an empty folder - the later members cannot be read (DecompressionError) or are read at "
                      "the wrong position", construct="zero-stream folder skip is not a loop")
    # the walk keeps TWO cursors: the folder number and the number of the folder's first packed stream.  Wherever the folder cursor is advanced
    # (passing over an empty folder, finishing a folder) the stream cursor is advanced in the same block by the folder's own packed-stream count
    fsteps = [n for n in walk(g.node) if isinstance(n, ast.AugAssign) and isinstance(n.op, ast.Add) and isinstance(n.target, ast.Attribute) and n.target.attr == "folder"]
    ctx.floor(rule, len(fsteps), 1, "advances of the folder cursor in _real_get_contents")
    from ..model import parent_map
    pm = parent_map(g.node)
    for st in fsteps:
        blk = pm.get(st)
        sibs = [x for fld in ("body", "orelse") for x in (getattr(blk, fld, []) if isinstance(getattr(blk, fld, None), list) else []) if any(y is st for y in getattr(blk, fld))]

        def is_stream_count(e: ast.AST) -> bool:
            t = norm(q.expand_locals(g, e))
            return "num_packed_streams" in t or "numinstreams" in t or "packed_indices" in t
        ok = any(isinstance(x, ast.AugAssign) and isinstance(x.op, ast.Add) and isinstance(x.target, ast.Attribute) and x.target.attr == "stream"
                 and norm(x.target.value) == norm(st.target.value) and is_stream_count(x.value) for x in sibs)
        ctx.check(ok, rule, g, st, "the stream cursor advances with the folder cursor, by the folder's packed-stream count",
                  f"`{norm(st)}` moves the walk to the next folder without moving the packed-stream cursor by that folder's number of packed streams: the sizes taken for every later "
                  "member (`compressed`, `packsizes`: what the decoder is told to read) are those of another folder's streams", construct="stream cursor not advanced with the folder")
    # (b) ---------------------------------------------------------------------------------------------------------
    f = ctx.prog.func("archiveinfo", "SubstreamsInfo._read")

    def is_count_f(e: ast.AST) -> bool:
        if "num_unpackstreams_folders" in norm(e):
            return True
        if isinstance(e, ast.Name):
            vals = q.assigned_values(f, e.id)
            return bool(vals) and all("num_unpackstreams_folders" in norm(v) for v in vals)
        return False

    implied = [c for c in q.calls(f) if attr_tail(c) == "append" and norm(c.func.value).endswith("unpacksizes") and c.args
               and isinstance(c.args[0], ast.BinOp) and isinstance(c.args[0].op, ast.Sub)
               and any(isinstance(x, ast.Call) and attr_tail(x) == "get_unpack_size" for x in ast.walk(c.args[0]))]
    ctx.floor(rule, len(implied), 1, "implied last-substream size in SubstreamsInfo._read")
    for c in implied:
        conds = _enclosing_conditions(f, q.node_for(f, c).ast if hasattr(q.node_for(f, c), "ast") else c)
        guarded = any(_cmp_with_small(t, is_count_f) for t, pol in conds) or any(_cmp_with_small(cd, is_count_f) for cd, pol in q.facts_at(f, c))
        ctx.check(guarded, rule, f, c, "the implied last size is appended only for folders with at least one substream",
                  "SubstreamsInfo._read appends an implied size (folder size minus the listed sizes) even for a folder with NumUnpackStream 0: the size list gets "
                  "an entry no member owns and every later member reads its neighbour's size", construct="implied size of empty folder")
    # (c) ---------------------------------------------------------------------------------------------------------
    ex = ctx.prog.func("py7zr", "Worker.extract")
    fol = ctx.prog.cls("Folder", "archiveinfo")
    init = fol.methods.get("__init__")
    never_none = init is not None and any(
        isinstance(n, (ast.Assign, ast.AnnAssign)) and any(isinstance(t, ast.Attribute) and t.attr == "files" for t in (n.targets if isinstance(n, ast.Assign) else [n.target]))
        and n.value is not None and not (isinstance(n.value, ast.Constant) and n.value.value is None) for n in walk(init.node))
    if never_none:
        ctx.ok(rule, "Folder.files is initialised to a container: iterating it needs no guard")
        return
    ecfg = cfg_of(ex.node)
    n_loops = 0
    for lp in [n for n in walk(ex.node) if isinstance(n, ast.For)]:
        # uses of a subscripted folder (folders[i]) in the loop
        def folder_list(e: ast.AST) -> bool:
            return isinstance(e, ast.Name) and any(norm(v).endswith("unpackinfo.folders") or isinstance(v, ast.ListComp) for v in q.assigned_values(ex, e.id))

        uses = [n for n in ast.walk(lp) if isinstance(n, ast.Subscript) and folder_list(n.value)]
        # `for folder in folders` / `for i, folder in enumerate(folders)` / `for folder, a, b in zip(folders, ...)`: the loop's own folder variable
        it = lp.iter
        src = it.args[0] if isinstance(it, ast.Call) and dotted(it.func) in ("enumerate", "zip") and it.args else it
        if folder_list(src):
            tnames = [t for t in ([lp.target] if isinstance(lp.target, ast.Name) else list(getattr(lp.target, "elts", []))) if isinstance(t, ast.Name)]
            fvar = None
            if isinstance(lp.target, ast.Name):
                fvar = lp.target.id
            elif isinstance(it, ast.Call) and dotted(it.func) == "enumerate" and len(tnames) == 2:
                fvar = tnames[1].id
            elif isinstance(it, ast.Call) and dotted(it.func) == "zip" and tnames:
                fvar = tnames[0].id
            if fvar is not None:
                uses += [n for st in lp.body for n in ast.walk(st) if isinstance(n, ast.Name) and n.id == fvar and isinstance(n.ctx, ast.Load)]
        if not uses:
            continue
        # a predicate helper extracted from the guards (`if self._passes_over(folders[i], ...): continue`): a method of Worker that is not among the
        # functions the rules were written against, whose body answers True for `<param>.files is None` before it looks at the member list
        wcls = ctx.prog.cls("Worker", "py7zr")
        from ..inline import known_functions

        def none_guard_helper(call: ast.AST):
            """the value a predicate helper answers with for a folder WITHOUT a member list (None when `call` is no such helper)"""
            v = _none_guard_method(call)
            if v is not None:
                return True
            e = shared.pred_helper_expr(ctx, ex, call)
            if e is None:
                return None
            try:
                vals = {bool(shared.folder_pred_eval(e, True, sk, se)) for sk in (True, False) for se in (True, False)}
            except (shared.Touched, shared.Unknown):
                return None
            return vals.pop() if len(vals) == 1 else None

        def _none_guard_method(call: ast.AST):
            if not (isinstance(call, ast.Call) and isinstance(call.func, ast.Attribute) and norm(call.func.value) == "self"):
                return None
            m = ctx.prog.method(wcls, call.func.attr)
            if m is None or (known_functions() and m.qname in known_functions()):
                return None
            mcfg = cfg_of(m.node)
            for t in mcfg.nodes:
                if t.kind == "test":
                    nt = q.is_none_test(t.ast)
                    if nt is not None and isinstance(nt[0], ast.Attribute) and nt[0].attr == "files" and isinstance(nt[0].value, ast.Name) and nt[0].value.id in m.params:
                        be = next((s_ for s_ in t.succ if s_.kind == ("true" if nt[1] else "false")), None)
                        rets = [n for n in mcfg.reachable_from(be) if n.kind == "stmt" and isinstance(n.ast, ast.Return)] if be is not None else []
                        first_true = be is not None and any(n.kind == "stmt" and isinstance(n.ast, ast.Return) and isinstance(n.ast.value, ast.Constant) and n.ast.value.value is True
                                                             for n in be.succ) or (len(rets) >= 1 and isinstance(rets[0].ast.value, ast.Constant) and rets[0].ast.value.value is True)
                        if first_true:
                            pi = m.params.index(nt[0].value.id) - 1
                            return pi
            return None
        helper_guarded = any(isinstance(n, ast.Call) and none_guard_helper(n) is not None for n in ast.walk(lp))
        if not any(isinstance(n, ast.Attribute) and n.attr == "files" for n in ast.walk(lp)) and not helper_guarded:
            continue  # a loop over the folders that never touches a member list (e.g. the running sum of packed-stream counts) dispatches nothing
        n_loops += 1
        guards = []
        for t in ecfg.nodes:
            if t.kind != "test" or not any(t.ast is x for x in ast.walk(lp)):
                continue
            call = t.ast.operand if isinstance(t.ast, ast.UnaryOp) and isinstance(t.ast.op, ast.Not) else t.ast
            pi = none_guard_helper(call)
            if pi is not None:
                neg = call is not t.ast
                # the edge taken for a folder without a member list: where the test has the value the helper answers with for such a folder
                guards.append((t, next((s_ for s_ in t.succ if s_.kind == ("true" if (pi != neg) else "false")), None)))
        for t in ecfg.nodes:
            if t.kind != "test" or not any(t.ast is x for x in ast.walk(lp)):
                continue
            nt = q.is_none_test(t.ast)
            if nt is not None and isinstance(nt[0], ast.Attribute) and nt[0].attr == "files":
                bad_edge = next((s_ for s_ in t.succ if s_.kind == ("true" if nt[1] else "false")), None)
                guards.append((t, bad_edge))
        for u in uses:
            if any(any(u is x for x in ast.walk(t.ast)) for t, _ in guards):
                continue
            un = q.node_for(ex, u)
            ok = any(ecfg.dominates(t, un) and be is not None and not ecfg.reaches(be, un, avoid=[ecfg.by_ast[lp]]) for t, be in guards)
            ctx.check(ok, rule, ex, u, "folder task dispatch uses folders[i] only behind a `files is None` guard",
                      f"`{norm(u)}` (its member list `.files` is None for a folder no member was bound to, e.g. NumUnpackStream 0) is used without a preceding "
                      "`files is None` guard in the dispatch loop: extractall()/testzip() of a valid multi-folder archive raise TypeError",
                      construct=f"unguarded {norm(u)}")
    ctx.floor(rule, n_loops, 2, "folder dispatch loops in Worker.extract")


def dispatch_forwards_skip(ctx: Ctx, rule: str) -> None:
    """sibling dispatch sites: every folder task Worker.extract starts (single folder, sequential loop, thread/process spawn) hands its
    own `skip_notarget` on to extract_single.  A site that drops it runs with the default (True): testzip()/test(), which register no
    targets and pass skip_notarget=False, then decode nothing on that path and report a damaged member as good."""
    ex = ctx.prog.func("py7zr", "Worker.extract")
    tgt = ctx.prog.func("py7zr", "Worker.extract_single")
    ctx.need("skip_notarget" in ex.params and "skip_notarget" in tgt.params, "skip_notarget parameter of Worker.extract / extract_single not found")
    pos = tgt.params.index("skip_notarget") - 1  # without self
    n = 0
    for c in q.calls(ex):
        args, kws = None, {}
        if "py7zr:Worker.extract_single" in shared.targets_of(ctx, ex, c):
            args, kws = list(c.args), {k.arg: k.value for k in c.keywords}
        else:
            tup = next((k.value for k in c.keywords if k.arg == "args"), None)
            if isinstance(tup, ast.Tuple) and any(k.arg == "target" for k in c.keywords):
                args = list(tup.elts)
                kw = next((k.value for k in c.keywords if k.arg == "kwargs"), None)
                if isinstance(kw, ast.Dict):
                    kws = {k.value: v for k, v in zip(kw.keys, kw.values) if isinstance(k, ast.Constant)}
        if args is None or len(args) < 5:
            continue
        # the empty-member call (window 0..0) decodes nothing
        if isinstance(args[3], ast.Constant) and isinstance(args[4], ast.Constant) and args[3].value == 0 and args[4].value == 0:
            continue
        n += 1
        val = kws.get("skip_notarget", args[pos] if len(args) > pos else None)
        ok = val is not None and any(isinstance(s_, ast.Name) and s_.id == "skip_notarget" for s_ in [val] + list(q.sources_of(ex, val, depth=2)))
        ctx.check(ok, rule, ex, c, "folder task receives Worker.extract's skip_notarget",
                  "a folder task is started without Worker.extract's own `skip_notarget` (the callee's default True applies): on this path testzip()/test() skip every "
                  "member instead of decoding it, so a damaged member is reported as good", construct="dispatch skip_notarget")
    ctx.floor(rule, n, 3, "folder task dispatch sites in Worker.extract")


def r06_13(ctx: Ctx, rule: str = "R06.13") -> None:
    """compact CRC lists: read_crcs returns one entry per DEFINED flag only.  An index into such a list must be a cursor that advances
    exactly where a flag was true; the flag vector itself is indexed by a cursor that advances on every stream.  Using the flag cursor
    for the compact list is invisible while all digests are defined (every py7zr-written archive) and gives wrong CRCs / IndexError for a
    partially defined vector."""
    n_sites = 0
    for f in ctx.prog.funcs_in("archiveinfo"):
        compact = {t.id for n in walk(f.node) if isinstance(n, ast.Assign) and isinstance(n.value, ast.Call) and attr_tail(n.value) == "read_crcs"
                   and any(isinstance(x, ast.Call) and attr_tail(x) == "count" for a in n.value.args for x in ast.walk(a))
                   for t in n.targets if isinstance(t, ast.Name)}
        flags = {t.id for n in walk(f.node) if isinstance(n, ast.Assign) and isinstance(n.value, ast.Call) and attr_tail(n.value) == "read_boolean"
                 for t in n.targets if isinstance(t, ast.Name)}
        if not compact or not flags:
            continue
        for sub in [x for x in walk(f.node) if isinstance(x, ast.Subscript) and isinstance(x.value, ast.Name) and x.value.id in compact and isinstance(x.ctx, ast.Load)]:
            n_sites += 1
            if not isinstance(sub.slice, ast.Name):
                ctx.fail(rule, f, sub, f"the compact CRC list `{sub.value.id}` is indexed by `{norm(sub.slice)}`, not by a dedicated cursor")
                continue
            cur = sub.slice.id
            incs = [n for n in walk(f.node) if isinstance(n, ast.AugAssign) and isinstance(n.target, ast.Name) and n.target.id == cur and isinstance(n.op, ast.Add)]
            def under_flag(node) -> bool:
                return any(pol and isinstance(cd, ast.Subscript) and isinstance(cd.value, ast.Name) and cd.value.id in flags for cd, pol in q.facts_at(f, node))
            unit = all(isinstance(i.value, ast.Constant) and i.value.value == 1 for i in incs)
            ok = bool(incs) and unit and all(under_flag(i) for i in incs) and under_flag(sub)
            ctx.check(ok, rule, f, sub, f"{f.qname}: compact CRC list indexed by a cursor that advances only for defined flags",
                      f"{f.qname}: `{norm(sub)}` indexes the compact list of stored CRCs (one entry per DEFINED flag) with `{cur}`, which does not advance exactly under a true "
                      "flag (it is the cursor of the flag vector): with a partially defined digest vector members get the wrong CRC or the header is refused with IndexError",
                      construct=f"compact index {norm(sub)}")
    if n_sites == 0:
        # no reader keeps a compact list apart from its flag vector (R06.3 decides whether only the defined CRCs are read at all)
        ctx.note(f"{rule}: no compact CRC list (read_crcs(file, flags.count(True))) is indexed in archiveinfo: nothing to decide")


def r06_14(ctx: Ctx, rule: str = "R06.14") -> None:
    """the 'no more data will come' verdict of the decoder pipeline (is_exhausted, on which Worker.decompress and the packed-header loop
    raise 'unexpected end of data') depends on what the STAGES did, not only on the packed input and the output buffer: a stage may
    legitimately return nothing for a call while data moves inside the chain (lzma/bz2 keep decoded bytes under max_length, a branch
    filter keeps an incomplete word).  Dataflow: some field read by is_exhausted is computed from the per-stage counters that
    _decompress updates."""
    cls = ctx.prog.cls("SevenZipDecompressor", "compressor")
    ex = cls.methods.get("is_exhausted")
    if ex is None:
        ctx.note(f"{rule}: SevenZipDecompressor.is_exhausted does not exist (no stall verdict to decide)")
        return
    dec = cls.methods["_decompress"]
    stage_fields = set()
    for lp in [n for n in walk(dec.node) if isinstance(n, ast.For)]:
        for n in ast.walk(lp):
            tg = n.targets if isinstance(n, ast.Assign) else ([n.target] if isinstance(n, (ast.AugAssign, ast.AnnAssign)) else [])
            for t in tg:
                base = t.value if isinstance(t, ast.Subscript) else t
                if isinstance(base, ast.Attribute) and isinstance(base.value, ast.Name) and base.value.id == "self":
                    stage_fields.add(base.attr)
    ctx.need(bool(stage_fields), "per-stage counters written by SevenZipDecompressor._decompress not found")
    reads = {n.attr for n in walk(ex.node) if isinstance(n, ast.Attribute) and isinstance(n.value, ast.Name) and n.value.id == "self"}
    # one level of derivation: a field assigned anywhere in the class from an expression that mentions a stage field
    derived = set()
    for m in cls.methods.values():
        for n in walk(m.node):
            if isinstance(n, (ast.Assign, ast.AnnAssign)) and n.value is not None:
                for t in (n.targets if isinstance(n, ast.Assign) else [n.target]):
                    if isinstance(t, ast.Attribute) and isinstance(t.value, ast.Name) and t.value.id == "self":
                        mentions = {x.attr for x in ast.walk(q.expand_locals(m, n.value)) if isinstance(x, ast.Attribute)}
                        if mentions & stage_fields:
                            derived.add(t.attr)
    ok = bool(reads & (stage_fields | derived)) or any(attr_tail(c) in ("needs_input", "eof") for c in q.calls(ex)) \
        or bool({n.attr for n in walk(ex.node) if isinstance(n, ast.Attribute)} & {"needs_input", "eof"})
    ctx.check(ok, rule, ex, ex.node, "the stall verdict depends on stage-level progress",
              f"SevenZipDecompressor.is_exhausted reads only {sorted(reads)}: it reports 'exhausted' while data is still moving between the stages of the chain "
              f"(per-stage state {sorted(stage_fields)} is ignored), so a valid solid folder coded as branch filter + LZMA/BZip2/PPMd whose member ends inside the "
              "filter's work unit is refused with 'Unexpected end of data'", construct="is_exhausted inputs")


# fields the header parser fills that the read path legitimately never consults (one reason each; confirmed by reading)
PARSED_UNUSED_OK = {
    "version": "format version of the signature header: informational, no layout depends on it",
    "numstreams": "redundant with len(packsizes); kept for the writer",
    "enable_digests": "writer-side switch derived from the parsed CRC list",
    "_start_pos": "offset bookkeeping of the header object, not archive data",
    "[startpos]": "kStartPos (offset of a member inside a volume set) has no effect on a single archive file",
    "num_bindpairs": "count only; the pairs themselves are parsed into bindpairs",
    "num_packedstreams": "count only; the indices are parsed into packed_indices",
    "num_coders": "count only",
    "antifiles": "anti-items are refused while parsing (unsupported feature fails loudly)",
    "was_encrypted": "a note for the APPEND path (was the packed header 7zAES-coded?): consulted by SevenZipFile._prepare_append, R11.9; reading needs nothing of it",
}


def r06_15(ctx: Ctx, rule: str = "R06.15") -> None:
    """no format information is dropped on the floor: every field the header parser (archiveinfo `_read*` / `read` / `_retrieve*`
    methods) fills from the archive is consulted somewhere on the read path - another statement of the parser, the member walk, the
    decoder set-up or a listing accessor.  A field that only the WRITER reads (or nobody) means the reader ignores what the format says
    (EmptyFile vector: a directory without an attribute word is taken for an empty file; bind pairs: the coder graph is assumed linear)."""
    clo = shared.read_closure(ctx)
    mod = ctx.prog.module("archiveinfo")
    assigned: Dict[str, Tuple[Func, ast.AST]] = {}
    for cls in mod.classes.values():
        for m in cls.methods.values():
            if not (m.name.startswith("_read") or m.name in ("read",) or m.name.startswith("_retrieve")) or m.qname not in clo:
                continue
            for n in walk(m.node):
                tg = n.targets if isinstance(n, ast.Assign) else ([n.target] if isinstance(n, (ast.AnnAssign, ast.AugAssign)) else [])
                for t in tg:
                    for t1 in (t.elts if isinstance(t, ast.Tuple) else [t]):
                        if isinstance(t1, ast.Attribute) and isinstance(t1.value, ast.Name) and t1.value.id != "cls":
                            assigned.setdefault(t1.attr, (m, n))
                        if isinstance(t1, ast.Subscript) and isinstance(t1.slice, ast.Constant) and isinstance(t1.slice.value, str):
                            assigned.setdefault("[" + t1.slice.value + "]", (m, n))
                if isinstance(n, ast.Call) and isinstance(n.func, ast.Attribute) and n.func.attr in ("append", "extend", "update") and isinstance(n.func.value, ast.Attribute):
                    assigned.setdefault(n.func.value.attr, (m, n))
                    if n.func.attr == "update" and n.args and isinstance(n.args[0], ast.Dict):
                        for k in n.args[0].keys:
                            if isinstance(k, ast.Constant) and isinstance(k.value, str):
                                assigned.setdefault("[" + k.value + "]", (m, n))
    ctx.floor(rule, len(assigned), 20, "fields filled by the header parser")
    reads: Dict[str, int] = {}
    for fq, f in clo.items():
        for n in walk(f.node):
            key = None
            if isinstance(n, ast.Attribute) and isinstance(n.ctx, ast.Load):
                # `self.x.append(...)` is a store into x, not a use of it
                key = n.attr
            elif isinstance(n, ast.Subscript) and isinstance(n.ctx, ast.Load) and isinstance(n.slice, ast.Constant) and isinstance(n.slice.value, str):
                key = "[" + n.slice.value + "]"
            elif isinstance(n, ast.Call) and attr_tail(n) in ("get", "_get_property") and n.args and isinstance(n.args[0], ast.Constant) and isinstance(n.args[0].value, str):
                key = "[" + n.args[0].value + "]"
            elif isinstance(n, ast.Call) and isinstance(n.func, ast.Name) and n.func.id == "getattr" and len(n.args) > 1 and isinstance(n.args[1], ast.Constant):
                key = n.args[1].value
            if key is not None:
                reads[key] = reads.get(key, 0) + 1
    # subtract the loads that are only the receiver of a mutating call (self.x.append(v))
    for fq, f in clo.items():
        for n in walk(f.node):
            if isinstance(n, ast.Call) and isinstance(n.func, ast.Attribute) and n.func.attr in ("append", "extend", "update", "clear") and isinstance(n.func.value, ast.Attribute):
                reads[n.func.value.attr] = reads.get(n.func.value.attr, 0) - 1
    for name, (m, node) in sorted(assigned.items()):
        if name in PARSED_UNUSED_OK:
            ctx.ok(rule, f"{name}: not consulted by design ({PARSED_UNUSED_OK[name]})")
            continue
        ctx.check(reads.get(name, 0) > 0, rule, m, node, f"parsed field {name} is consulted on the read path",
                  f"{m.qname} fills `{name}` from the archive, but nothing on the read path ever consults it: the information the format stores there is ignored "
                  "(only the writer, or nobody, reads it)", construct=f"parsed field {name}")


def r06_16(ctx: Ctx, rule: str = "R06.16") -> None:
    """a raw liblzma chain must end in LZMA1/LZMA2: `_get_lzma_decompressor` hands `lzma.LZMADecompressor(format=FORMAT_RAW, filters=...)`
    whatever 'native' coders it was given.  Delta and IA64 are native FILTERS; chained with a non-LZMA compressor (BZip2, Deflate, Copy,
    PPMd, ZStd: what `7z a -m0=Delta -m1=BZip2` writes) they arrive here alone and liblzma refuses the chain.  Necessary condition: the
    raw decoder is only built on a path that has established that a LZMA1/LZMA2 coder is part of the chain (otherwise the filter needs a
    stand-alone decoder)."""
    f = ctx.prog.func("compressor", "SevenZipDecompressor._get_lzma_decompressor")
    cfg = cfg_of(f.node)
    raws = [c for c in q.calls(f) if dotted(c.func) == "lzma.LZMADecompressor" and any(k.arg == "format" and norm(k.value).endswith("FORMAT_RAW") for k in c.keywords)]
    ctx.floor(rule, len(raws), 1, "raw LZMADecompressor constructions")
    for c in raws:
        facts = q.facts_at(f, c)
        established = any(("FILTER_LZMA2" in norm(cd) or "is_compressor" in norm(cd) or "lzma2" in norm(cd).lower()) for cd, pol in facts)
        # or: a dominating test that raises when no LZMA coder is present
        for t in cfg.nodes:
            if t.kind == "test" and ("FILTER_LZMA2" in norm(t.ast) or "is_compressor" in norm(t.ast)) and cfg.dominates(t, q.node_for(f, c)):
                for e in t.succ:
                    if e.kind in ("true", "false") and q.branch_always_raises(cfg, e):
                        established = True
        ctx.check(established, rule, f, c, "a raw liblzma chain is built only where it is known to end in LZMA1/LZMA2",
                  "`lzma.LZMADecompressor(format=FORMAT_RAW, filters=...)` is built for any list of 'native' coders: a folder that chains Delta (or IA64) with BZip2 / Deflate / "
                  "Copy / PPMd / ZStd reaches it with the filter alone and every read fails with LZMAError('Invalid or unsupported options') although each coder is supported",
                  construct="raw lzma chain without compressor")


def r06_20(ctx: Ctx, rule: str = "R06.20") -> None:
    """the decoder chain follows the coder GRAPH, not the listing order: Folder.get_decompressor hands the coders to SevenZipDecompressor,
    which chains them by list position.  The format lets a writer list the coders in any order and states the data flow in the bind pairs
    (and which coder input is fed from the pack, in the packed-stream indices).  Necessary condition: the function that orders the chain
    (get_decompressor or the decompressor's constructor) consults the bind pairs."""
    g = ctx.prog.func("archiveinfo", "Folder.get_decompressor")
    k = ctx.prog.func("compressor", "SevenZipDecompressor.__init__")
    builds = [c for c in q.calls(g) if attr_tail(c) == "SevenZipDecompressor"]
    ctx.floor(rule, len(builds), 1, "decoder construction in Folder.get_decompressor")
    uses_graph = any(isinstance(x, ast.Attribute) and x.attr in ("bindpairs", "_find_in_bin_pair", "_find_out_bin_pair") for x in walk(g.node)) or \
        any(isinstance(x, (ast.Attribute, ast.Name)) and ("bindpair" in norm(x) or "bond" in norm(x).lower()) for x in walk(k.node))
    ctx.check(uses_graph, rule, g, builds[0], "the decoder chain is ordered by the bind pairs",
              "Folder.get_decompressor passes `self.coders` to SevenZipDecompressor as listed and nothing on the way consults the bind pairs: a folder whose coders are listed in another "
              "order than the data flows is decoded back to front", construct="coder chain in listing order")


def r06_21(ctx: Ctx, rule: str = "R06.21") -> None:
    """every part of MainStreamsInfo is optional in the format ('04 00', '04 08 00 00' are written for archives of directories and empty
    files), while the rest of the reader takes `main_streams is not None` to mean that PackInfo and UnpackInfo exist.  The one place
    that stores the record (Header._extract_header_info) therefore normalises it: where `unpackinfo` / `packinfo` is None the function
    raises or resets `self.main_streams` to None before it returns."""
    f = ctx.prog.func("archiveinfo", "Header._extract_header_info")
    cfg = cfg_of(f.node)
    stores = [n for n in walk(f.node) if isinstance(n, ast.Assign) and norm(n.targets[0]) == "self.main_streams" and not (isinstance(n.value, ast.Constant) and n.value.value is None)]
    resets = [q.node_for(f, n) for n in walk(f.node) if isinstance(n, ast.Assign) and norm(n.targets[0]) == "self.main_streams" and isinstance(n.value, ast.Constant) and n.value.value is None]
    ctx.floor(rule, len(stores), 1, "`self.main_streams = ...` in _extract_header_info")
    for part in ("unpackinfo", "packinfo"):
        # every normal way from the store to the end of the function passes a reset of main_streams, or an edge on which `part is not None` is known
        good = []
        for t in cfg.nodes:
            if t.kind != "test":
                continue
            for pol in (True, False):
                for a_, ap in q.atoms(t.ast, pol):
                    nt = q.is_none_test(a_)
                    if nt is not None and norm(nt[0]) == f"self.main_streams.{part}" and nt[1] != ap:
                        good += [e for e in t.succ if e.kind == ("true" if pol else "false")]
        ok = all(cfg.every_path_to_exit_passes(q.node_for(f, st_), resets + good) for st_ in stores)
        ctx.check(ok, rule, f, stores[0], f"a MainStreamsInfo record without {part} is normalised (reset to None, or refused)",
                  f"Header._extract_header_info stores a MainStreamsInfo record whose `{part}` may be None (every part is optional; some writers emit an empty record for archives of "
                  f"directories and empty files): _real_get_contents, Worker.extract, test() and the append path dereference `main_streams.{part}` whenever main_streams is not None "
                  "(AttributeError on a valid archive)", construct=f"main_streams.{part} not normalised")


def r06_17(ctx: Ctx, rule: str = "R06.17") -> None:
    """type agreement of header comparisons: what `<stream>.read(n)` returns is bytes, what read_byte()/ord()/x[i] return is an int.  A
    comparison (==, !=, in) of one kind with a CONSTANT of the other kind has a fixed outcome: `assert fp.read(1) == 0x00` fails for
    every archive that carries the record (kStartPos), a dispatch arm of that shape is dead."""
    clo = shared.read_closure(ctx)
    n = 0
    for fq, f in sorted(clo.items()):
        if f.module not in ("archiveinfo", "py7zr", "compressor", "helpers"):
            continue

        def kind(e: ast.AST, depth: int = 3) -> Optional[str]:
            if isinstance(e, ast.Constant):
                if isinstance(e.value, bytes):
                    return "bytes"
                if isinstance(e.value, int) and not isinstance(e.value, bool):
                    return "int"
                return None
            if isinstance(e, ast.Call):
                if isinstance(e.func, ast.Attribute) and e.func.attr == "read" and len(e.args) <= 1 and not isinstance(e.func.value, ast.Attribute):
                    return "bytes"
                if attr_tail(e) in ("read_byte",) or dotted(e.func) in ("ord", "len", "int"):
                    return "int"
                if dotted(e.func) in ("unhexlify", "binascii.unhexlify", "bytes"):
                    return "bytes"
                return None
            if isinstance(e, ast.Attribute) and isinstance(e.value, ast.Name) and e.value.id == "PROPERTY":
                return "bytes"
            if isinstance(e, ast.Name) and depth > 0 and e.id not in f.params:
                vals = q.assigned_values(f, e.id)
                ks = {kind(v, depth - 1) for v in vals}
                return ks.pop() if len(ks) == 1 else None
            return None

        for c in walk(f.node):
            if not (isinstance(c, ast.Compare) and len(c.ops) == 1 and isinstance(c.ops[0], (ast.Eq, ast.NotEq))):
                continue
            a, b = c.left, c.comparators[0]
            ka, kb = kind(a), kind(b)
            if ka is None or kb is None or not (isinstance(a, ast.Constant) or isinstance(b, ast.Constant)):
                continue
            n += 1
            ctx.check(ka == kb, rule, f, c, f"{fq}: comparison of like kinds",
                      f"`{norm(c)}` compares {ka} with {kb}: the outcome is the same for every input (a bytes object never equals an int), so the assertion/branch it guards "
                      "fails or is dead for every archive that reaches it", construct=f"bytes/int comparison {norm(c)[:50]}")
    ctx.floor(rule, n, 5, "typed constant comparisons in the read closure")


class _Reject(Exception):
    pass


def _id_words(f: Func) -> Tuple[Optional[List[List[str]]], str]:
    """the set of property-id words a sequential section reader ACCEPTS (returns normally on), by structural path enumeration over
    its statements: the id variable is the name assigned from `<file>.read(1)`; `idvar == PROPERTY.X` / `!=` tests split on what is
    known about the current id; every other test forks; loops that do not assign the id variable are skipped; raise rejects the path.
    An id that is never pinned down on an accepted path is reported as '*' (anything accepted there)."""
    idvars = {t.id for n in walk(f.node) if isinstance(n, ast.Assign) and isinstance(n.value, ast.Call) and attr_tail(n.value) == "read" and n.value.args
              and isinstance(n.value.args[0], ast.Constant) and n.value.args[0].value == 1 for t in n.targets if isinstance(t, ast.Name)}
    if len(idvars) != 1:
        return None, f"id variable not unique ({sorted(idvars)})"
    idv = next(iter(idvars))
    # parts of the record the reader itself stores (`self.<part> = ...` somewhere in the function, None until then)
    parts = {n.targets[0].attr for n in walk(f.node) if isinstance(n, ast.Assign) and len(n.targets) == 1 and isinstance(n.targets[0], ast.Attribute)
             and norm(n.targets[0].value) == "self" and not (isinstance(n.value, ast.Constant) and n.value.value is None)}
    accepted: List[List[str]] = []
    budget = [4000]

    def prop_of(e: ast.AST) -> Optional[str]:
        return e.attr if isinstance(e, ast.Attribute) and isinstance(e.value, ast.Name) and e.value.id == "PROPERTY" else None

    def close_sym(st):
        if st["cur"] is not None:
            st["word"].append(st["cur"]["eq"] if st["cur"]["eq"] is not None else "*")

    def run_block(body: List[ast.stmt], st: dict, k):
        """continuation-passing: k(st) is called for every way control falls out of the block."""
        if budget[0] <= 0:
            raise AnalysisError("id-word enumeration exceeded its path budget")
        if not body:
            return k(st)
        s0, rest = body[0], body[1:]
        cont = lambda st2: run_block(rest, st2, k)  # noqa: E731
        if isinstance(s0, ast.Raise):
            return
        if isinstance(s0, ast.Return):
            budget[0] -= 1
            st = dict(st, word=list(st["word"]))
            close_sym(st)
            accepted.append(st["word"])
            return
        if isinstance(s0, ast.Assign) and any(isinstance(t, ast.Name) and t.id == idv for t in s0.targets):
            st = dict(st, word=list(st["word"]))
            close_sym(st)
            st["cur"] = {"eq": None, "neq": set()}
            return cont(st)
        if isinstance(s0, ast.Assign) and len(s0.targets) == 1 and isinstance(s0.targets[0], ast.Attribute) and norm(s0.targets[0].value) == "self" \
                and not (isinstance(s0.value, ast.Constant) and s0.value.value is None):
            # a part of the record that this path has stored: `self.<part> is None` tests later on the path are decided by it
            return cont(dict(st, stored=st.get("stored", frozenset()) | {s0.targets[0].attr}))
        if isinstance(s0, (ast.For, ast.While)):
            if any(isinstance(n, ast.Assign) and any(isinstance(t, ast.Name) and t.id == idv for t in n.targets) for n in ast.walk(s0)):
                raise AnalysisError(f"{f.qname}: the id variable is re-read inside a loop (not a sequential section reader)")
            # a raise inside the loop body only rejects some inputs of the same word; skipping the body keeps the accepted id words
            return cont(st)
        if isinstance(s0, ast.If):
            t = s0.test
            neg = False
            if isinstance(t, ast.UnaryOp) and isinstance(t.op, ast.Not):
                t, neg = t.operand, True
            pid = None
            if isinstance(t, ast.Compare) and len(t.ops) == 1 and isinstance(t.left, ast.Name) and t.left.id == idv and isinstance(t.ops[0], (ast.Eq, ast.NotEq)):
                pid = prop_of(t.comparators[0])
            if pid is not None and st["cur"] is not None:
                want_eq = isinstance(t.ops[0], ast.Eq) != neg   # true arm means id == pid
                cur = st["cur"]
                arms = []
                if cur["eq"] is not None:
                    arms = [(cur["eq"] == pid) == want_eq]
                elif pid in cur["neq"]:
                    arms = [not want_eq]
                else:
                    arms = [True, False]
                for arm in arms:
                    st2 = dict(st, word=list(st["word"]), cur={"eq": cur["eq"], "neq": set(cur["neq"])})
                    is_eq = (arm == want_eq)
                    if cur["eq"] is None:
                        if is_eq:
                            st2["cur"]["eq"] = pid
                        else:
                            st2["cur"]["neq"].add(pid)
                    run_block((s0.body if arm else s0.orelse), st2, cont)
                return
            nt = q.is_none_test(t)
            if nt is not None and isinstance(nt[0], ast.Attribute) and norm(nt[0].value) == "self" and nt[0].attr in parts:
                # correlated with the records seen so far: the part is None exactly when this path has not stored it
                is_none = nt[0].attr not in st.get("stored", frozenset())
                truth = (is_none == nt[1]) != neg
                return run_block((s0.body if truth else s0.orelse), st, cont)
            # any other condition: both arms are possible
            for arm_body in (s0.body, s0.orelse):
                run_block(arm_body, dict(st, word=list(st["word"]), cur=None if st["cur"] is None else {"eq": st["cur"]["eq"], "neq": set(st["cur"]["neq"])}), cont)
            return
        if isinstance(s0, (ast.With, ast.Try)):
            inner = s0.body
            return run_block(inner + rest, st, k)
        return cont(st)

    def fall_off(st):
        budget[0] -= 1
        st = dict(st, word=list(st["word"]))
        close_sym(st)
        accepted.append(st["word"])

    run_block(list(f.node.body), {"word": [], "cur": None}, fall_off)
    uniq = sorted({tuple(w) for w in accepted})
    return [list(w) for w in uniq], idv


def r06_18(ctx: Ctx, rule: str = "R06.18") -> None:
    """grammar conformance of the sequential section readers: the set of property-id words a reader accepts (returns normally on) is
    exactly the format's - optional records in format order, closed by kEnd, nothing else; an id the reader never pins down ('*') means
    unknown records are silently taken for something else."""
    n = 0
    for fq, want in sorted(spec7z.SECTION_WORDS.items()):
        mod, qual = fq.split(":")
        f = ctx.prog.func(mod, qual)
        got, info = _id_words(f)
        if got is None:
            ctx.fail(rule, f, f.node, f"{fq}: section reader shape not recognised ({info})", construct=f"{qual} id words")
            continue
        n += 1
        want_s = sorted(tuple(w) for w in want)
        got_s = sorted(tuple(w) for w in got)
        missing = [" ".join(w) for w in want_s if w not in got_s]
        extra = [" ".join(w) for w in got_s if w not in want_s]
        ctx.check(not missing and not extra, rule, f, f.node, f"{fq} accepts exactly the id words {[' '.join(w) for w in want_s]}",
                  f"{fq} does not accept exactly the record sequences of the format: not accepted {missing or '-'}; accepted although not in the grammar {extra or '-'} "
                  "('*' = any id): a conforming archive is refused, or a malformed / unknown record is parsed as something else",
                  construct=f"{qual} id words")
    ctx.floor(rule, n, 4, "sequential section readers")


def r06_23(ctx: Ctx, rule: str = "R06.23") -> None:
    """members without a stream (empty files, directories handled by the member loop) belong to no folder: in an archive with several folders
    Worker.extract collects them (`[f for f in self.files if f.emptystream]`) and hands them to extract_single on every path that follows -
    the sequential arm, the parallel arm, and the arm of an archive without streams.  And each folder task's window is src_start PLUS the
    positions of the folder's streams."""
    f = ctx.prog.func("py7zr", "Worker.extract")
    cfg = cfg_of(f.node)
    colls = [n for n in walk(f.node) if isinstance(n, ast.Assign) and isinstance(n.targets[0], ast.Name) and isinstance(n.value, (ast.ListComp, ast.GeneratorExp))
             and any(isinstance(x, ast.Attribute) and x.attr == "emptystream" for i_ in n.value.generators[0].ifs for x in ast.walk(i_)) and norm(n.value.generators[0].iter) == "self.files"]
    ctx.floor(rule, len(colls), 2, "collections of stream-less members in Worker.extract")
    for n in colls:
        nm = n.targets[0].id
        uses = [c for c in q.calls(f) if attr_tail(c) == "extract_single" and any(isinstance(a_, ast.Name) and a_.id == nm for a_ in c.args)]
        ok = bool(uses) and cfg.every_path_to_exit_passes(q.node_for(f, n), [q.node_for(f, c) for c in uses])
        ctx.check(ok, rule, f, n, "stream-less members are handed to extract_single on every path",
                  f"Worker.extract collects the members without a stream in `{nm}` but does not hand them to extract_single on every path that follows: in an archive with several folders "
                  "the empty files are never created (every fixture of the suite with empty files has one folder)", construct="empty members of a multi-folder archive")
    for c in [c for c in q.calls(f) if q.enclosing_loops(f, c)]:
        tup = next((k.value for k in c.keywords if k.arg == "args"), None)
        args = list(tup.elts) if isinstance(tup, ast.Tuple) else (list(c.args) if attr_tail(c) == "extract_single" else [])
        if len(args) < 5:
            continue
        for a_ in (args[3], args[4]):
            if not any(isinstance(x, ast.Subscript) for x in ast.walk(a_)):
                continue
            ok = isinstance(a_, ast.BinOp) and isinstance(a_.op, ast.Add) and ("src_start" in norm(a_.left)) != ("src_start" in norm(a_.right))
            ctx.check(ok, rule, f, c, "a folder's window is src_start + position",
                      f"`{norm(a_)}` is not `self.src_start + positions[...]`: the folder task is given a window that does not start where the packed area starts", construct="window arithmetic")


# library knowledge: the decoder object that reads EVERYTHING the coder's format allows in one packed stream
STREAM_DECODERS = {"ZstdDecompressor": ("pyzstd", "EndlessZstdDecompressor",
                                        "Zstandard data is one or more frames, skippable frames included (RFC 8878; the multi-threaded 7-Zip-zstd builds write several per "
                                        "stream): pyzstd.ZstdDecompressor stops behind the first frame and raises EOFError on the next call")}


def r06_30(ctx: Ctx, rule: str = "R06.30") -> None:
    """a packed stream is decoded to its end, whatever legal internal structure it has: the wrapper classes build the library decoder that
    continues across the units the format allows to be concatenated (table STREAM_DECODERS)."""
    n = 0
    for cname, (lib, want, why) in sorted(STREAM_DECODERS.items()):
        if not ctx.prog.has_cls(cname):
            continue
        cls = ctx.prog.cls(cname, "compressor")
        ini = cls.methods.get("__init__")
        ctx.need(ini is not None, f"{cname}.__init__ vanished")
        mk = [c for c in q.calls(ini) if (dotted(c.func) or "").startswith(lib + ".") and (dotted(c.func) or "").endswith("Decompressor")]
        ctx.floor(rule, len(mk), 1, f"{lib} decoder constructions in {cname}.__init__")
        for c in mk:
            n += 1
            ctx.check(dotted(c.func) == f"{lib}.{want}", rule, ini, c, f"{cname} builds {lib}.{want}",
                      f"`{norm(c)}`: {why} - a folder whose packed stream holds more than one unit cannot be extracted or tested although the archive is valid",
                      construct=f"{cname} single-unit decoder")
    ctx.floor(rule, n, 1, "stream decoder constructions checked")


def run(ctx: Ctx) -> None:
    r06_30(ctx)
    from . import c04 as _c04s
    _c04s.r04_18(ctx, rule="R06.25")  # the decoder's predicates say what their names say
    r06_23(ctx)
    from . import c04 as _c04
    _c04.r04_17(ctx, rule="R06.22")  # a member / folder without a stored CRC is a valid archive
    from . import c10 as _c10
    _c10.r10_11(ctx)  # kinds as the format assigns them (is_directory), under C06 too
    _c10.r10_13(ctx, rule="R06.24")
    shared.layout_agreement(ctx, "R06.19")
    shared.field_order_agreement(ctx, "R06.26")
    shared.windowed_traversal(ctx, "R06.27")
    shared.per_member_values(ctx, "R06.28")
    _c04s.r04_12(ctx)  # a packed header with a packed-stream CRC is read once for the CRC and once more by the decoder
    from . import c08 as _c08x
    _c08x.r08_14(ctx, rule="R06.29")  # folder-level instead of per-file CRCs: the digests go to the right members
    r06_21(ctx)
    r06_18(ctx)
    r06_17(ctx)
    r06_20(ctx)
    r06_16(ctx)
    r06_15(ctx)
    r06_14(ctx)
    r06_13(ctx)
    r06_12(ctx)
    r06_11(ctx)
    r06_10(ctx)
    r06_9(ctx)
    r06_1(ctx)
    r06_2(ctx)
    r06_3(ctx)
    r06_4(ctx)
    r06_5(ctx)
    r06_6(ctx)
    r06_7(ctx)
    r06_8(ctx)
