"""C15 — a failed write call does not poison the archive."""
from __future__ import annotations

import ast
from typing import List, Optional, Tuple

from ..cfg import cfg_of
from ..model import Func, attr_tail, dotted, norm, walk
from ..report import Ctx
from .. import q
from . import shared

EXPLANATION = (
    "Commit-after-fallible analysis of the write entry points (write, _writef): the three registrations of a member "
    "(files_info.files, files_info.emptyfiles, SevenZipFile.files) either all follow the fallible Worker.archive call or that "
    "call sits in a try whose catch-all handler removes all three and re-raises (CFG + handler inspection); argument checks "
    "precede every state change; the member record is complete before registration (definite assignment of 'emptystream' on "
    "every returning path of _make_file_info); __exit__ always calls close. Not decided: archive contents after a source "
    "fails midway through being read."
)
TRUSTED = ["CPython ast parser", "sa.cfg paths/dominators", "sa.resolve (Worker.archive call sites)"]

REG_LISTS = ("files", "emptyfiles")


def _registrations(f: Func, ctx: Optional[Ctx] = None) -> List[Tuple[str, ast.Call]]:
    """(registry, node in f) for every member registration performed by f, directly or inside a private helper (attributed to the helper call)."""
    out = []
    items = q.deep_nodes(ctx, f, depth=1) if ctx is not None else ((f, n, None) for n in walk(f.node))
    for g, c, via in items:
        if isinstance(c, ast.Call) and isinstance(c.func, ast.Attribute) and c.func.attr == "append":
            tgt = q.chain(g, c.func.value)
            at = via if via is not None else c
            if via is not None and attr_tail(via) in ("archive", "initialize"):
                continue
            if tgt.endswith("files_info.files"):
                out.append(("files_info.files", at))
            elif tgt.endswith("files_info.emptyfiles"):
                out.append(("files_info.emptyfiles", at))
            elif tgt == "self.files":
                out.append(("self.files", at))
    return out


def _undoes(h: ast.ExceptHandler, ctx: Optional[Ctx] = None, f: Optional[Func] = None) -> set:
    undone = set()
    nodes = list(ast.walk(h))
    if ctx is not None and f is not None:
        # statements of private helpers called from the handler count as the handler's own
        for c in [x for x in ast.walk(h) if isinstance(x, ast.Call)]:
            for tq in shared.targets_of(ctx, f, c):
                g = ctx.res._func_by_q(tq)
                if g is not None and g.module == f.module and g.cls == f.cls:
                    nodes += list(walk(g.node))
    for n in nodes:
        if isinstance(n, ast.Call) and isinstance(n.func, ast.Attribute) and n.func.attr in ("pop", "remove", "rollback", "discard_last"):
            t = norm(n.func.value)
            for key in ("files_info.files", "files_info.emptyfiles", "self.files"):
                if t.endswith(key) or (key == "self.files" and t.startswith("self.files")):
                    undone.add(key)
        if isinstance(n, ast.Delete):
            for t in n.targets:
                s = norm(t)
                for key in ("files_info.files", "files_info.emptyfiles", "self.files"):
                    if key in s:
                        undone.add(key)
        if isinstance(n, ast.Call) and attr_tail(n) in ("_rollback_registration", "_unregister_last", "_discard_last_member"):
            undone |= {"files_info.files", "files_info.emptyfiles", "self.files"}
    return undone


def r15_1(ctx: Ctx, rule: str = "R15.1") -> None:
    for name in ("write", "_writef"):
        f = shared.szf(ctx, name)
        cfg = cfg_of(f.node)
        regs = _registrations(f, ctx)
        arch = [c for c in q.calls(f) if "py7zr:Worker.archive" in shared.targets_of(ctx, f, c)]
        ctx.floor(rule, len(arch), 1, f"Worker.archive call in {name}")
        ctx.floor(rule, len(regs), 3, f"member registrations in {name}")
        for a in arch:
            an = q.node_for(f, a)
            before = [(k, r) for k, r in regs if cfg.reaches(q.node_for(f, r), an)]
            if not before:
                ctx.ok(rule, f"{name}: registrations follow Worker.archive")
                continue
            # must be protected by a catch-all handler that undoes the registrations and re-raises
            good = False
            why = "Worker.archive (which opens and reads the source) is not inside a try"
            for tr in [n for n in walk(f.node) if isinstance(n, ast.Try)]:
                if not any(a in list(ast.walk(st)) for st in tr.body):
                    continue
                for h in tr.handlers:
                    names = {n.id for n in ast.walk(h.type) if isinstance(n, ast.Name)} if h.type is not None else {"BaseException"}
                    if not names & {"BaseException"}:
                        # `except Exception` misses KeyboardInterrupt/SystemExit (and whatever else a source's read() raises outside Exception):
                        # the member stays registered and the close() of the with block commits more members than streams
                        why = "the handler around Worker.archive does not catch BaseException (an interrupt while the source is read leaves the member registered: close() then commits a header that cannot be read)"
                        continue
                    undone = _undoes(h, ctx, f)
                    hn = cfg.by_ast[h]
                    reraises = cfg.exit not in cfg.reachable_from(hn) and any(isinstance(x, ast.Raise) for x in ast.walk(h))
                    need = {k for k, _ in before}
                    if need <= undone and reraises:
                        good = True
                    else:
                        why = f"the handler undoes {sorted(undone)} of {sorted(need)} and {'re-raises' if reraises else 'does not re-raise'}"
            ctx.check(good, rule, f, a, f"{name}: registrations before Worker.archive are rolled back on failure",
                      f"{name} registers the member ({', '.join(k for k, _ in before)}) before Worker.archive opens/reads the source and {why}: "
                      "a source that cannot be opened leaves a half-registered member, the next call retries it and close() fails")
        # lock-step of the three registrations: on every path either all or none
        if regs:
            kinds = {k for k, _ in regs}
            ctx.check(kinds == {"files_info.files", "files_info.emptyfiles", "self.files"}, rule, f, f.node, f"{name}: all three registries updated",
                      f"{name} updates only {sorted(kinds)} of the three member registries", construct=f"{name} registries")


def r15_2(ctx: Ctx) -> None:
    # definite assignment of emptystream in _make_file_info
    f = shared.szf(ctx, "_make_file_info")
    cfg = cfg_of(f.node)
    sets = [n for n in walk(f.node) if isinstance(n, ast.Assign) and any(
        isinstance(t, ast.Subscript) and isinstance(t.slice, ast.Constant) and t.slice.value == "emptystream" for t in n.targets)]
    rets = [n for n in walk(f.node) if isinstance(n, ast.Return)]
    ctx.floor("R15.2", len(sets), 4, "emptystream assignments in _make_file_info")
    for r in rets:
        rn = q.node_for(f, r)
        bypass = cfg.reaches(cfg.entry, rn, avoid=[q.node_for(f, s) for s in sets])
        if bypass:
            # an explicit completeness test before the return: `if "emptystream" not in f: raise`
            for cd, pol in q.facts_at(f, r):
                if isinstance(cd, ast.Compare) and len(cd.ops) == 1 and isinstance(cd.left, ast.Constant) and cd.left.value == "emptystream":
                    if (isinstance(cd.ops[0], ast.NotIn) and not pol) or (isinstance(cd.ops[0], ast.In) and pol):
                        bypass = False
        ctx.check(not bypass, "R15.2", f, r, "'emptystream' definitely assigned before the record is returned",
                  "_make_file_info can return a record without 'emptystream' (source that is neither link, directory nor regular file): "
                  "write() has already appended the record to files_info.files when the KeyError is raised, and close() then fails",
                  construct="_make_file_info return without emptystream")
    # argument checks precede state changes in write/_writef/_writestr
    for name in ("write", "_writef", "_writestr"):
        g = shared.szf(ctx, name)
        gcfg = cfg_of(g.node)
        raises = [n for n in walk(g.node) if isinstance(n, ast.Raise) and isinstance(n.exc, ast.Call) and dotted(n.exc.func) in ("ValueError", "TypeError")]
        effects = [c for c in q.calls(g) if attr_tail(c) in ("initialize", "append", "archive")]
        for r in raises:
            rn = q.node_for(g, r)
            late = [e for e in effects if gcfg.reaches(q.node_for(g, e), rn)]
            ctx.check(not late, "R15.2", g, r, f"{name}: argument rejection precedes any state change",
                      f"{name} raises {norm(r.exc)} after the archive state was already changed ({norm(late[0]) if late else ''})")
    # sanitiser (may raise AbsolutePathError) precedes initialize in write
    w = shared.szf(ctx, "write")
    wcfg = cfg_of(w.node)
    san = [c for c in q.calls(w) if attr_tail(c) == "_sanitize_archive_arcname"]
    ini = [c for c in q.calls(w) if attr_tail(c) == "initialize"]
    for i in ini:
        ok = all(not wcfg.reaches(q.node_for(w, i), q.node_for(w, s)) for s in san)
        ctx.check(ok, "R15.2", w, i, "write: name sanitiser runs before header.initialize", "write() initialises the header before the name is validated")
    # the record is built (lstat may fail) before registration
    mk = [c for c in q.calls(w) if attr_tail(c) == "_make_file_info"]
    regs = _registrations(w, ctx)
    for m in mk:
        ok = all(wcfg.dominates(q.node_for(w, m), q.node_for(w, r)) for _, r in regs)
        ctx.check(ok, "R15.2", w, m, "write: member record built before registration", "write() registers a member before its record (stat) is complete")


def r15_4(ctx: Ctx) -> None:
    """the member cursor of the worker advances only after the fallible source access succeeded."""
    f = ctx.prog.func("py7zr", "Worker.archive")
    cfg = cfg_of(f.node)
    incs = [n for n in walk(f.node) if isinstance(n, (ast.AugAssign, ast.Assign)) and norm(n.target if isinstance(n, ast.AugAssign) else n.targets[0]) == "self.current_file_index"]
    fallible = [c for c in q.calls(f) if any(t in ("py7zr:Worker.write", "py7zr:Worker.writestr") for t in shared.targets_of(ctx, f, c))]
    ctx.floor("R15.4", len(incs), 1, "advance of Worker.current_file_index")
    ctx.floor("R15.4", len(fallible), 2, "fallible source accesses in Worker.archive")
    for i in incs:
        late = [c for c in fallible if cfg.reaches(q.node_for(f, i), q.node_for(f, c))]
        ctx.check(not late, "R15.4", f, i, "the member cursor advances only after the source was archived",
                  "Worker.archive advances current_file_index before the source is opened/compressed: after a failed (and rolled back) write the cursor is one ahead of the "
                  "member list, so every later write raises IndexError and the members are lost")
    # the 'last member with data' marker (flush_archive adds the flushed tail to files[last_file_index]) is committed after success too
    marks = [n for n in walk(f.node) if isinstance(n, ast.Assign) and norm(n.targets[0]) == "self.last_file_index"]
    # ... or a call of a helper of the same class that sets it (its arguments are evaluated before the helper runs)
    for c in q.calls(f):
        for tq in shared.targets_of(ctx, f, c):
            g = ctx.res._func_by_q(tq)
            if g is not None and g is not f and g.module == f.module and g.cls == f.cls and tq not in ("py7zr:Worker.write", "py7zr:Worker.writestr") \
                    and any(isinstance(n, ast.Assign) and norm(n.targets[0]) == "self.last_file_index" for n in walk(g.node)):
                marks.append(c)
    ctx.floor("R15.4", len(marks), 1, "updates of Worker.last_file_index in Worker.archive")
    for m in marks:
        late = [c for c in fallible if cfg.reaches(q.node_for(f, m), q.node_for(f, c))]
        ctx.check(not late, "R15.4", f, m, "last_file_index is set only after the source was archived",
                  "Worker.archive points last_file_index at the member BEFORE its source is opened/compressed: when that call fails and the member is rolled back, "
                  "last_file_index is one past the member list and close() (flush_archive) raises IndexError: the earlier members are lost",
                  construct="last_file_index before fallible call")
    # and it advances on every normal path (a member without a stream still moves the cursor)
    ok = cfg.every_path_to_exit_passes(cfg.entry, [q.node_for(f, i) for i in incs])
    ctx.check(ok, "R15.4", f, f.node, "the member cursor advances on every successful path", "some successful path through Worker.archive does not advance current_file_index", construct="cursor advance paths")
    # flush at close: the last-member bookkeeping tolerates a session without surviving members
    fa = ctx.prog.func("py7zr", "Worker.flush_archive")
    subs = [n for n in walk(fa.node) if isinstance(n, ast.Subscript) and isinstance(n.slice, ast.Attribute) and n.slice.attr == "last_file_index"]
    ctx.floor("R15.4", len(subs), 1, "files[last_file_index] accesses in flush_archive")
    for s_ in subs:
        facts = [(norm(cd), pol) for cd, pol in q.facts_at(fa, s_)]
        ok = any(pol and ("len(self.files) > 0" == cd or cd in ("self.files", "len(self.files)")) or (cd.endswith("last_file_index >= 0") and pol) for cd, pol in facts)
        ctx.check(ok, "R15.4", fa, s_, "files[last_file_index] only when a member exists",
                  "flush_archive indexes files[last_file_index] without checking that any member exists: a session in which every write failed (nothing registered) makes close() raise "
                  "IndexError and leaves an invalid file instead of a valid empty archive")


def r15_5(ctx: Ctx) -> None:
    """the rollback handler only covers the fallible archive call: nothing that can fail BEFORE the registrations is inside its try."""
    for name in ("write", "_writef"):
        f = shared.szf(ctx, name)
        regs = _registrations(f, ctx)
        for tr in [n for n in walk(f.node) if isinstance(n, ast.Try)]:
            handlers = [h for h in tr.handlers if _undoes(h, ctx, f)]
            if not handlers:
                continue
            inside = [r for _, r in regs if any(r in list(ast.walk(st)) for st in tr.body)]
            before_fallible = []
            for st in tr.body:
                if any(r in list(ast.walk(st)) for _, r in regs):
                    break
                if any(isinstance(x, ast.Call) for x in ast.walk(st)):
                    before_fallible.append(st)
            partial = bool(inside) and (bool(before_fallible) or len(inside) > 0)
            ctx.check(not inside, "R15.5", f, tr, f"{name}: registrations precede the protected region",
                      f"{name}: the try whose handler un-registers the member also contains the registration itself (and `{norm(before_fallible[0])[:60] if before_fallible else 'the registrations'}`): "
                      "when a step before the registration fails (e.g. stat of a missing source) the handler pops a PREVIOUS, good member", construct=f"{name} rollback scope")


def r15_3(ctx: Ctx) -> None:
    f = shared.szf(ctx, "__exit__")
    cfg = cfg_of(f.node)
    cl = [c for c in q.calls(f) if attr_tail(c) == "close"]
    ok = bool(cl) and all(cfg.postdominates(q.node_for(f, c), cfg.entry) for c in cl[:1])
    ctx.check(ok, "R15.3", f, f.node, "__exit__ always calls close", "__exit__ does not call close() on every path", construct="__exit__ close")


def r15_6(ctx: Ctx) -> None:
    """the write side swallows no I/O error on POSIX except the documented one: a handler for OSError (or broader) in the write
    closure leaves without re-raising only where the facts restrict errno to ELOOP under dereference, or the platform to win32.
    Anything else makes a vanished/unreadable source disappear from the archive without the caller being told."""
    roots = [shared.szf(ctx, n) for n in ("write", "writeall", "writef", "writestr")]
    clo = ctx.res.closure(roots)
    n_h = 0
    for fq, f in sorted(clo.items()):
        if f.module != "py7zr":
            continue
        cfg = cfg_of(f.node)
        own_try = {id(h): t for t in walk(f.node) if isinstance(t, ast.Try) for h in t.handlers}
        params = set(f.params) - {"self"}
        for h in [n for n in walk(f.node) if isinstance(n, ast.ExceptHandler)]:
            t = own_try.get(id(h))
            if t is not None:
                # a try whose body touches neither a parameter of the function nor another method (only the archive's own handle,
                # `self.fp...`) cannot fail because of a SOURCE: nothing of the caller's is dropped by its handler
                body_nodes = [x for st in t.body for x in ast.walk(st)]
                touches = any(isinstance(x, ast.Name) and x.id in params for x in body_nodes) or \
                    any(isinstance(x, ast.Call) and isinstance(x.func, ast.Attribute) and norm(x.func.value) == "self" for x in body_nodes) or \
                    any(isinstance(x, ast.Call) and isinstance(x.func, ast.Name) and (x.func.id in ctx.prog.module(f.module).funcs or x.func.id in ctx.prog.module(f.module).imports) for x in body_nodes)
                if not touches:
                    continue
            names = {n.id for n in ast.walk(h.type) if isinstance(n, ast.Name)} | {n.attr for n in ast.walk(h.type) if isinstance(n, ast.Attribute)} if h.type is not None else {"BaseException"}
            if not names & {"OSError", "IOError", "EnvironmentError", "Exception", "BaseException"}:
                continue
            n_h += 1
            hn = cfg.by_ast.get(h)
            if hn is None:
                continue
            # statements inside the handler after which control leaves the handler normally
            leaves = []
            inside = {id(x) for st in h.body for x in ast.walk(st)}
            for nd in cfg.reachable_from(hn):
                if nd.kind == "stmt" and id(nd.ast) in inside and not isinstance(nd.ast, ast.Raise):
                    if any((s_.kind not in ("exc",)) and (s_ is cfg.exit or (getattr(s_, "ast", None) is not None and id(s_.ast) not in inside)) for s_ in nd.succ):
                        leaves.append(nd.ast)
            for lv in leaves:
                facts = q.facts_at(f, lv)
                eloop_only = False
                win = False
                for cd, pol in facts:
                    if not pol:
                        continue
                    if isinstance(cd, ast.Compare) and len(cd.ops) == 1 and isinstance(cd.ops[0], (ast.In, ast.Eq)) and "errno" in norm(cd.left):
                        consts = cd.comparators[0].elts if isinstance(cd.comparators[0], (ast.List, ast.Tuple, ast.Set)) else [cd.comparators[0]]
                        if consts and all(norm(x).endswith("ELOOP") for x in consts):
                            eloop_only = True
                    if isinstance(cd, ast.Compare) and "platform" in norm(cd.left) and isinstance(cd.comparators[0], ast.Constant) and cd.comparators[0].value == "win32" \
                            and isinstance(cd.ops[0], ast.Eq):
                        win = True
                ctx.check(eloop_only or win, "R15.6", f, lv, f"{fq}: an OSError is dropped only for ELOOP (or on win32)",
                          f"{fq}: the handler `except {norm(h.type) if h.type else ''}` leaves without re-raising on a path that is not restricted to errno ELOOP (or to win32): "
                          "on POSIX a source that vanishes or cannot be read (ENOENT, EACCES, EIO) is silently left out of the archive and the caller is not told",
                          construct=f"swallowing handler exit {norm(lv)[:40]}", path=ctx.res.call_path(roots, fq))
    ctx.floor("R15.6", n_h, 1, "OSError/catch-all handlers in the write closure")


def r15_7(ctx: Ctx) -> None:
    """a source that fails MIDWAY leaves bytes in the packed stream that no member accounts for; the rollback of R15.1 is only sound when
    nothing was consumed.  The handler around Worker.archive therefore records (in a field of the archive object) whether the
    compressor took any input during the failed call, and _write_flush refuses to write the header when it did - the file keeps the
    placeholder / overwritten header and never opens with wrong contents."""
    flush = shared.szf(ctx, "_write_flush")
    fcfg = cfg_of(flush.node)
    # fields whose truth makes _write_flush raise before anything is written
    poison = set()
    for t in fcfg.nodes:
        if t.kind != "test":
            continue
        for pol in (True, False):
            e = next((x for x in t.succ if x.kind == ("true" if pol else "false")), None)
            if e is not None and q.branch_always_raises(fcfg, e):
                for a, ap in q.atoms(t.ast, pol):
                    if isinstance(a, ast.Attribute) and isinstance(a.value, ast.Name) and a.value.id == "self" and ap:
                        poison.add(a.attr)
    for name in ("write", "_writef"):
        f = shared.szf(ctx, name)
        arch = [c for c in q.calls(f) if "py7zr:Worker.archive" in shared.targets_of(ctx, f, c)]
        for tr in [n for n in walk(f.node) if isinstance(n, ast.Try) and any(a in list(ast.walk(st)) for a in arch for st in n.body)]:
            for h in tr.handlers:
                sets = [n for n in ast.walk(h) if isinstance(n, ast.Assign) and any(isinstance(t, ast.Attribute) and isinstance(t.value, ast.Name) and t.value.id == "self"
                                                                                      and t.attr in poison for t in n.targets)]
                looks = any(isinstance(x, ast.Attribute) and x.attr in ("consumed", "_unpacksizes", "unpacksizes", "packsize") for s_ in sets for x in ast.walk(s_.value)) or \
                    any(isinstance(x, ast.Attribute) and x.attr in ("consumed", "_unpacksizes", "unpacksizes", "packsize") for x in ast.walk(h) if sets)
                # ... and the field is set (stays set) whenever the compressor's count differs from the one taken before the call: `old or now != before`;
                # `old and ...`, `now == before` do not do
                def differs(e: ast.AST) -> bool:
                    return isinstance(e, ast.Compare) and len(e.ops) == 1 and isinstance(e.ops[0], ast.NotEq) and any(
                        isinstance(x, ast.Attribute) and x.attr in ("consumed", "_unpacksizes", "unpacksizes", "packsize") for x in ast.walk(e))
                looks = looks and all(shared.on_when(f, s_.value, differs) for s_ in sets)
                # ... and a flag that is set STAYS set: a later call that fails cleanly (nothing consumed) must not clear it
                def same_field(e: ast.AST, _sets=sets) -> bool:
                    return isinstance(e, ast.Attribute) and any(norm(e) == norm(t) for s2 in _sets for t in s2.targets)
                sticky = all(shared.on_when(f, s_.value, same_field) or (isinstance(s_.value, ast.Constant) and s_.value.value is True) for s_ in sets)
                ctx.check(sticky or not sets, "R15.7", f, h, f"{name}: the session stays poisoned once a source failed midway",
                          f"the handler around Worker.archive in {name} assigns the poison flag from this call alone (not `flag or ...`): a source that fails midway sets it, a later call that "
                          "fails before anything is read (a missing file) clears it again, and close() writes a header over a packed stream that holds the bytes of no member",
                          construct=f"{name} poison flag not sticky")
                ctx.check(bool(sets) and looks, "R15.7", f, h, f"{name}: a source that failed midway poisons the session",
                          f"{name} rolls the registration back and re-raises also when the source failed after part of it had been compressed: those bytes stay in the packed "
                          "stream and in the folder's size, later writes and close() succeed and the archive is silently corrupt (members after the failure cannot be extracted). "
                          + ("No field that makes _write_flush refuse is set in the handler." if not sets else "The handler does not look at what the compressor consumed."),
                          construct=f"{name} mid-read failure")
                # the handler compares with a value taken BEFORE the call: every local it reads is defined on the way into the try
                tn = next((q.node_for(f, a_) for a_ in arch if any(a_ in list(ast.walk(st)) for st in tr.body)), None)
                for nm in sorted({x.id for s_ in sets for x in ast.walk(s_.value) if isinstance(x, ast.Name) and x.id not in ("self",) and x.id not in f.params}):
                    defs = [n for n in walk(f.node) if isinstance(n, ast.Assign) and any(isinstance(t, ast.Name) and t.id == nm for t in n.targets)]
                    cfg_ = cfg_of(f.node)
                    ok = bool(defs) and tn is not None and any(cfg_.dominates(q.node_for(f, d), tn) for d in defs)
                    ctx.check(ok, "R15.7", f, h, f"{name}: `{nm}`, which the handler compares with, is taken before the call",
                              f"the handler around Worker.archive in {name} reads `{nm}`, which is not assigned on the way into the try: when a source fails the handler itself dies with "
                              "NameError, which replaces the source's error and skips the rest of the bookkeeping", construct=f"{name} handler reads undefined {nm}")


def r15_8(ctx: Ctx) -> None:
    """registration and archiving go in lock-step: Worker.archive advances the worker's member cursor, so a member that is put into the
    member table without a following Worker.archive call (on some normal path of write()/_writef()) leaves the cursor behind: every later
    write archives the wrong source and close() writes a header that cannot be read."""
    n = 0
    for name in ("write", "_writef"):
        f = shared.szf(ctx, name)
        cfg = cfg_of(f.node)
        regs = [r for k, r in _registrations(f, ctx) if k == "files_info.files"]
        arch = [q.node_for(f, c) for c in q.calls(f) if "py7zr:Worker.archive" in shared.targets_of(ctx, f, c)]
        for r in regs:
            n += 1
            ok = bool(arch) and cfg.every_path_to_exit_passes(q.node_for(f, r), arch)
            ctx.check(ok, "R15.8", f, r, f"{name}: a registered member is archived on every path",
                      f"{name} puts a member into the member table on a path that returns without calling Worker.archive (a stream positioned behind its end gives a negative "
                      "size): the worker's cursor falls behind, the next write archives the stale entry instead of its own source and the closed archive cannot be opened",
                      construct=f"{name} registration without archive")
    ctx.floor("R15.8", n, 2, "member registrations in write/_writef")


def r15_9(ctx: Ctx) -> None:
    """what a session that cannot be completed leaves behind: (a) close() closes the archive handle on every path, also when
    _write_flush raises (the `_fpclose` call sits in a `finally`, or nothing before it can raise); (b) in append mode the refusing arm of
    _write_flush first writes a header again (the one the archive had when it was opened), because the old header has already been
    overwritten by the session's data - refusing alone would lose every member the archive had before the session."""
    cl = shared.szf(ctx, "close")
    closes = [c for c in q.calls(cl) if attr_tail(c) == "_fpclose"]
    flushes = [c for c in q.calls(cl) if attr_tail(c) == "_write_flush"]
    ctx.floor("R15.9", len(closes), 1, "_fpclose in close()")
    in_finally = any(isinstance(t, ast.Try) and any(c in list(ast.walk(st)) for st in t.finalbody for c in closes) and
                     all(any(fl in list(ast.walk(st)) for st in t.body) for fl in flushes) for t in walk(cl.node))
    ctx.check(in_finally, "R15.9", cl, closes[0], "close() closes the handle even when the flush raises",
              "close() calls _fpclose after _write_flush outside a `finally`: when the flush refuses (a source failed midway) or fails, the archive handle is never closed "
              "and every later close() raises again", construct="close without finally")
    wf = shared.szf(ctx, "_write_flush")
    cfg = cfg_of(wf.node)
    refusals = [r for r in walk(wf.node) if isinstance(r, ast.Raise) and any(pol and isinstance(cd, ast.Attribute) and cd.attr.startswith("_") for cd, pol in q.facts_at(wf, r))]
    ctx.floor("R15.9", len(refusals), 1, "refusing raise in _write_flush")
    for r in refusals:
        rn = q.node_for(wf, r)
        # on the append path a header write precedes the refusal
        hw = [c for c in q.calls(wf) if attr_tail(c) == "_write_header" and cfg.reaches(q.node_for(wf, c), rn) and _restoring_write(wf, c)]
        ctx.check(bool(hw), "R15.9", wf, r, "a refused append session puts a header back before it gives up",
                  "_write_flush refuses to complete a broken session without writing any header: in append mode the old header has been overwritten by the session's data by then, "
                  "so the archive that existed before the session cannot be opened any more and all its members are lost", construct="refusal without header in append mode")


def _restoring_write(wf, x: ast.Call) -> bool:
    """is this `_write_header` call the write-back of the header the archive had at open?  It stands under `"a" in self.mode` TRUE (not
    `not in`), not under `_header_at_open is None`, and `self.header = self._header_at_open` comes before it on the way."""
    facts = q.facts_at(wf, x)
    append = any(pol and isinstance(cd, ast.Compare) and "mode" in norm(cd) and isinstance(cd.ops[0], (ast.In, ast.Eq)) and any(isinstance(y, ast.Constant) and y.value == "a" for y in ast.walk(cd))
                 for cd, pol in facts) or any((not pol) and isinstance(cd, ast.Compare) and "mode" in norm(cd) and isinstance(cd.ops[0], (ast.NotIn, ast.NotEq)) and
                                              any(isinstance(y, ast.Constant) and y.value == "a" for y in ast.walk(cd)) for cd, pol in facts)
    absent = any((nt := q.is_none_test(cd)) is not None and "_header_at_open" in norm(nt[0]) and nt[1] == pol for cd, pol in facts)
    cfg = cfg_of(wf.node)
    swaps = [n for n in walk(wf.node) if isinstance(n, ast.Assign) and norm(n.targets[0]) == "self.header" and norm(n.value) == "self._header_at_open"]
    swapped = any(cfg.dominates(q.node_for(wf, n), q.node_for(wf, x)) for n in swaps)
    return append and not absent and swapped


def r15_14(ctx: Ctx) -> None:
    """'source missing: the exception reaches the caller': writeall() of a path that does not exist raises.  The tree walk answers a path that
    is neither link, file nor directory by returning quietly (that is how it passes over sockets and looped links), so the public function
    has to refuse it first: a Raise under `not path.exists()` that the walk cannot be reached around."""
    f = shared.szf(ctx, "writeall")
    cfg = cfg_of(f.node)
    walks = [c for c in q.calls(f) if attr_tail(c) == "_writeall"]
    ctx.floor("R15.14", len(walks), 1, "walk call in writeall")
    for c in walks:
        def says_exists(cd: ast.AST) -> bool:
            if isinstance(cd, ast.Call):
                return attr_tail(cd) in ("exists", "lexists", "is_dir", "is_file", "is_symlink")
            return isinstance(cd, ast.BoolOp) and isinstance(cd.op, ast.Or) and all(says_exists(v) for v in cd.values)
        exists_known = any(pol and says_exists(cd) for cd, pol in q.facts_at(f, c))
        refusing = [t for t in cfg.nodes if t.kind == "test" and any(isinstance(x, ast.Call) and attr_tail(x) in ("exists", "lexists") for x in ast.walk(t.ast)) and cfg.dominates(t, q.node_for(f, c))
                    and any(q.branch_always_raises(cfg, e) for e in t.succ if e.kind in ("true", "false"))]
        ctx.check(exists_known or bool(refusing), "R15.14", f, c, "writeall refuses a path that does not exist",
                  "writeall() hands a path that does not exist to the tree walk, which returns quietly for anything that is neither link, file nor directory: the call succeeds, nothing "
                  "is archived and the caller is not told that the source is missing", construct="writeall of a missing path")


def r15_13(ctx: Ctx) -> None:
    """(a) the snapshot the fallback needs is taken: _prepare_append stores a copy (copy.deepcopy / copy.copy) of the parsed header in
    `_header_at_open` on every path; (b) a `with` block does not end quietly when close() could not complete the session: the ArchiveError
    handler of __exit__ re-raises when the block itself raised nothing (`exc_type is None`) - swallowing it would turn a lost session into
    a successful-looking one."""
    pa = shared.szf(ctx, "_prepare_append")
    cfg = cfg_of(pa.node)
    snaps = [n for n in walk(pa.node) if isinstance(n, ast.Assign) and norm(n.targets[0]) == "self._header_at_open" and isinstance(n.value, ast.Call)
             and dotted(n.value.func) == "copy.deepcopy" and n.value.args and norm(n.value.args[0]) == "self.header"]
    # ... a DEEP copy, and nothing of it is re-bound to live parts afterwards (a shallow copy shares the member list with the session: after one good
    # and one failing write the restored header lists a member no folder accounts for)
    ok = bool(snaps) and cfg.every_path_to_exit_passes(cfg.entry, [q.node_for(pa, n) for n in snaps])
    ctx.check(ok, "R15.13", pa, snaps[0] if snaps else pa.node, "an append session keeps a copy of the header it found",
              "_prepare_append does not store a copy of the parsed header in `_header_at_open` (on every path): a session that cannot be completed has nothing to fall back to, "
              "close() leaves the placeholder start header and every member the archive had is lost", construct="no header snapshot")
    ex = shared.szf(ctx, "__exit__")
    hs = [h for h in walk(ex.node) if isinstance(h, ast.ExceptHandler)]
    for h in hs:
        raises = [r for r in ast.walk(h) if isinstance(r, ast.Raise)]
        ok = any(any((nt := q.is_none_test(cd)) is not None and norm(nt[0]) == ex.params[1] and nt[1] == pol for cd, pol in q.facts_at(ex, r)) or not q.facts_at(ex, r) for r in raises)
        ctx.check(ok, "R15.13", ex, h, "__exit__ lets close()'s error out when the block raised nothing",
                  f"the `except {norm(h.type) if h.type else ''}` handler of __exit__ does not re-raise when `{ex.params[1]} is None`: a `with` block whose session could not be "
                  "completed (a source failed midway) ends without any error and the caller takes the archive for written", construct="__exit__ swallows the close error")
    ctx.floor("R15.13", len(hs) + 1, 1, "snapshot / __exit__ obligations")
    # who may poison the session: only the handlers around Worker.archive (write, _writef), which know whether anything was consumed.  An exception
    # that leaves a `with` block - a missing source, a rejected name - says nothing about the packed stream; poisoning there loses every member
    # written before it
    cls = ctx.prog.cls("SevenZipFile", "py7zr")
    for name, m in sorted(cls.methods.items()):
        for n in [n for n in walk(m.node) if isinstance(n, ast.Assign) and any(norm(t_) == "self._broken" for t_ in n.targets)]:
            harmless = isinstance(n.value, ast.Constant) and n.value.value is False
            # (wherever that block lives: the assignment stands in a handler of a try whose body calls Worker.archive)
            in_archive_handler = any(isinstance(t_, ast.Try) and any(isinstance(x, ast.Call) and attr_tail(x) == "archive" and "worker" in norm(x.func) for st in t_.body for x in ast.walk(st))
                                     and any(any(y is n for y in ast.walk(h_)) for h_ in t_.handlers) for t_ in walk(m.node))
            ctx.check(harmless or in_archive_handler, "R15.13", m, n, "the session is poisoned only where a source was being archived",
                      f"`{norm(n)}` in {name}: the flag that makes close() refuse the header is set outside the handlers around Worker.archive: a harmless failed call (a missing source, "
                      "a rejected name) whose exception leaves the `with` block makes close() drop every member written before it", construct=f"{name} poisons the session")


def r15_10(ctx: Ctx, rule: str = "R15.10") -> None:
    """a session that fails in its FIRST step or in its LAST leaves an appended-to archive as it was: (a) Header.initialize raises its
    'initialised' flag only after the folder's coder chain has been built (prepare_coderinfo dominates the assignment) - a chain that
    cannot be built (AES without password, wrong filter order) otherwise leaves the flag set with no folder, and close() flushes the OLD
    archive's last folder (AssertionError) after it has voided the start header; (b) in _write_flush every committing call behind
    _void_start_header (flush_archive, _write_header) lies in a try whose catch-all handler, in append mode, writes the header the
    archive had at open and re-raises - a header that cannot be written (time stamp out of range, header encryption without password)
    otherwise costs every member the archive had."""
    ini = ctx.prog.func("archiveinfo", "Header.initialize")
    cfg = cfg_of(ini.node)
    sets = [n for n in walk(ini.node) if isinstance(n, ast.Assign) and norm(n.targets[0]) == "self._initialized" and isinstance(n.value, ast.Constant) and n.value.value is True]
    prep = [c for c in q.calls(ini) if attr_tail(c) == "prepare_coderinfo"]
    ctx.floor(rule, len(sets), 1, "`self._initialized = True` in Header.initialize")
    ctx.floor(rule, len(prep), 1, "prepare_coderinfo call in Header.initialize")
    for a_ in sets:
        ok = all(cfg.dominates(q.node_for(ini, p_), q.node_for(ini, a_)) for p_ in prep)
        ctx.check(ok, rule, ini, a_, "the header counts as initialised only after the coder chain has been built",
                  "Header.initialize sets `_initialized` before prepare_coderinfo has succeeded: when the filter chain cannot be built the first write call raises, but close() then takes "
                  "the header for initialised, voids the start header and flushes the last folder of the OLD archive (`assert self.compressor`): the archive that existed before the "
                  "append session can no longer be opened", construct="initialised before coder chain")
    # ... and nothing of the new folder is registered in the header before the chain exists: every append / assignment on the header's lists in
    # initialize() comes behind prepare_coderinfo (a chain that cannot be built otherwise leaves a folder without coders for close() to serialise)
    regs = [c for c in q.calls(ini) if attr_tail(c) == "append" and "main_streams" in norm(c.func)] + \
           [n for n in walk(ini.node) if isinstance(n, (ast.Assign, ast.AugAssign)) and any("main_streams" in norm(t_) for t_ in (n.targets if isinstance(n, ast.Assign) else [n.target]))]
    for r_ in regs:
        ok = all(cfg.dominates(q.node_for(ini, p_), q.node_for(ini, r_)) for p_ in prep)
        ctx.check(ok, rule, ini, r_, "the new folder is registered only after its coder chain has been built",
                  f"`{norm(r_)[:80]}` in Header.initialize comes before prepare_coderinfo: when the chain cannot be built (a lone branch filter, 7zAES without a password) the first write call "
                  "raises with the folder already registered - close() serialises a folder without coders, sizes or a packed stream", construct="folder registered before its chain")
    wf = shared.szf(ctx, "_write_flush")
    commits = []
    for c in q.calls(wf):
        if attr_tail(c) not in ("flush_archive", "_write_header"):
            continue
        facts = q.facts_at(wf, c)
        if any(pol and isinstance(cd, ast.Attribute) and cd.attr == "_broken" for cd, pol in facts):
            continue  # the refusing arm (R15.9)
        if any(isinstance(h, ast.ExceptHandler) and c in list(ast.walk(h)) for h in walk(wf.node)):
            continue  # the restoring write itself
        commits.append(c)
    ctx.floor(rule, len(commits), 2, "committing calls in _write_flush")
    for c in commits:
        ok = False
        for t in [t for t in walk(wf.node) if isinstance(t, ast.Try) and any(c in list(ast.walk(st)) for st in t.body)]:
            for h in t.handlers:
                broad = h.type is None or any(isinstance(x, ast.Name) and x.id in ("Exception", "BaseException") for x in ast.walk(h.type))
                restores = [x for st in h.body for x in ast.walk(st) if isinstance(x, ast.Call) and attr_tail(x) == "_write_header" and _restoring_write(wf, x)]
                reraises = bool(h.body) and isinstance(h.body[-1], ast.Raise)
                if broad and restores and reraises:
                    ok = True
        ctx.check(ok, rule, wf, c, f"`{attr_tail(c)}` failing in close() leaves an appended-to archive with the header it had at open",
                  f"_write_flush calls `{attr_tail(c)}` after the start header has been voided with no handler that restores the old header: anything that makes it raise (a member's time stamp "
                  "outside the FILETIME range, header encryption requested without a password, a coder that cannot be built) leaves the placeholder start header - every member the "
                  "archive had before the append session is lost", construct=f"commit step {attr_tail(c)} without restore")


def r15_11(ctx: Ctx) -> None:
    """only what can be read like a file gets a data stream: every `f["emptystream"] = False` in _make_file_info (the member's source
    will be opened and read by Worker.archive) stands under a POSITIVE kind test - `is_file()`, `S_ISREG(...)`, or a symbolic link that
    is stored as a link (`is_symlink()` true, `dereference` false).  An `else` behind `S_ISDIR` lets a dereferenced link to a FIFO or
    device through: the write call blocks for ever (or stores the special file), where write(fifo) raises 'Unsupported file type'."""
    f = shared.szf(ctx, "_make_file_info")
    sets = [n for n in walk(f.node) if isinstance(n, ast.Assign) and any(isinstance(t, ast.Subscript) and isinstance(t.slice, ast.Constant) and t.slice.value == "emptystream" for t in n.targets)
            and isinstance(n.value, ast.Constant) and n.value.value is False]
    ctx.floor("R15.11", len(sets), 3, "`emptystream = False` assignments in _make_file_info")
    for a_ in sets:
        facts = q.facts_at(f, a_)
        regular = any(pol and isinstance(cd, ast.Call) and attr_tail(cd) in ("is_file", "S_ISREG") for cd, pol in facts)
        link = any(pol and isinstance(cd, ast.Call) and attr_tail(cd) == "is_symlink" for cd, pol in facts) and \
            any((not pol) and isinstance(cd, ast.Name) and cd.id == "dereference" for cd, pol in facts)
        ctx.check(regular or link, "R15.11", f, a_, "a data stream is promised only for a regular file or a link stored as a link",
                  "_make_file_info gives `emptystream = False` to whatever is not a directory: with dereference=True a symbolic link to a FIFO or device is registered as a regular "
                  "member and Worker.archive opens it - write(link) blocks for ever instead of raising ValueError('Unsupported file type') as write(fifo) does",
                  construct="data stream for an untested kind")


def r15_12(ctx: Ctx) -> None:
    """writeall() is ONE call: when an entry of the tree fails, the entries archived before it must not stay behind as members no
    successful call wrote.  write() undoes only the failing member, so writeall has to do the rest: the walk stands in a try whose
    catch-all handler takes the earlier entries back (or marks the session as one that cannot be completed), or a validating pass over the
    tree precedes the walk."""
    f = shared.szf(ctx, "writeall")
    walks = [c for c in q.calls(f) if attr_tail(c) == "_writeall"]
    ctx.floor("R15.12", len(walks), 1, "walk call in writeall")
    for c in walks:
        ok = False
        for t in [t for t in walk(f.node) if isinstance(t, ast.Try) and any(c in list(ast.walk(st)) for st in t.body)]:
            for h in t.handlers:
                broad = h.type is None or any(isinstance(x, ast.Name) and x.id in ("Exception", "BaseException") for x in ast.walk(h.type))
                acts = any(isinstance(x, ast.Attribute) and x.attr == "_broken" and isinstance(x.ctx, ast.Store) for x in ast.walk(h)) or \
                    any(isinstance(x, ast.Call) and attr_tail(x) in ("pop", "truncate_to", "_rollback") for x in ast.walk(h))
                if broad and acts:
                    ok = True
        cn = q.node_for(f, c)
        cfg = cfg_of(f.node)
        pre = [x for x in q.calls(f) if x is not c and isinstance(x.func, ast.Attribute) and norm(x.func.value) == "self" and "valid" in x.func.attr.lower()
               and cfg.dominates(q.node_for(f, x), cn)]
        ctx.check(ok or bool(pre), "R15.12", f, c, "a writeall() that fails part-way leaves no members of its own behind",
                  "writeall() hands the tree to _writeall, which calls write() per entry; write() undoes only the entry that failed, and nothing undoes (or refuses to commit) the "
                  "entries of the same call archived before it: after close the archive holds 'tree', 'tree/a.txt' although the writeall('tree') call raised", construct="writeall not all-or-nothing")


def r15_15(ctx: Ctx, rule: str = "R15.15") -> None:
    """what R15.7's handlers compare is the number of SOURCE bytes taken: SevenZipCompressor.consumed returns the counter of the FIRST
    stage of the chain (the entry of `_unpacksizes` that compress() increases by the length of what it read, before any coder has seen it:
    index 0 of the enumeration over `self.chain`).  The counter of a later stage moves only when the stages before it emit output - LZMA2
    in front of 7zAES buffers a whole block - so a source that fails after a full block has been read would pass for untouched."""
    try:
        f = ctx.prog.func("compressor", "SevenZipCompressor.consumed")
    except Exception:
        f = None
    if f is None:
        ctx.note(f"{rule}: SevenZipCompressor.consumed not present (R15.7 decides what the handlers look at)")
        return
    comp = ctx.prog.func("compressor", "SevenZipCompressor.compress")
    # the per-stage counters: `self.X[i] += len(data)` inside `for i, c in enumerate(self.chain)`
    staged = set()
    direct = set()
    for n in walk(comp.node):
        if isinstance(n, ast.AugAssign) and isinstance(n.op, ast.Add):
            lps = q.enclosing_loops(comp, n)
            in_chain = any(isinstance(l, ast.For) and "self.chain" in norm(l.iter) for l in lps)
            if isinstance(n.target, ast.Subscript) and isinstance(n.target.value, ast.Attribute) and in_chain:
                staged.add(n.target.value.attr)
            elif isinstance(n.target, ast.Attribute) and not in_chain and isinstance(n.value, ast.Call) and dotted(n.value.func) == "len":
                # a counter of SOURCE bytes is raised before the block goes through the chain (what is counted behind the chain loop is packed output)
                ccfg = cfg_of(comp.node)
                chain_loops = [l for l in walk(comp.node) if isinstance(l, ast.For) and "self.chain" in norm(l.iter)]
                if chain_loops and all(ccfg.reaches(q.node_for(comp, n), ccfg.by_ast[l]) and not any(
                        ccfg.reaches(ccfg.by_ast[l], q.node_for(comp, n), avoid=[ccfg.by_ast[w_] for w_ in walk(comp.node) if isinstance(w_, ast.While)]) for _ in [0]) for l in chain_loops):
                    direct.add(n.target.attr)
    rets = [r for r in walk(f.node) if isinstance(r, ast.Return) and r.value is not None]
    ctx.floor(rule, len(rets), 1, "returns of SevenZipCompressor.consumed")
    for r in rets:
        subs = [x for x in ast.walk(r.value) if isinstance(x, ast.Subscript) and isinstance(x.value, ast.Attribute) and x.value.attr in staged]
        ok = True
        for sb in subs:
            try:
                v = ast.literal_eval(sb.slice)
            except Exception:
                v = None
            ok = ok and v == 0
        attrs = [x for x in ast.walk(r.value) if isinstance(x, ast.Attribute) and isinstance(x.ctx, ast.Load) and x.attr not in staged
                 and isinstance(x.value, ast.Name) and x.value.id == "self" and not any(x is s_.value for s_ in subs)]
        ok = ok and (bool(subs) or any(a.attr in direct for a in attrs)) and all(a.attr in direct or a.attr in staged for a in attrs)
        ctx.check(ok, rule, f, r, "consumed is the count of source bytes (first stage)",
                  f"`{norm(r)}`: SevenZipCompressor.consumed does not return the first stage's counter (`_unpacksizes[0]`, which compress() raises by the length of every block it read from "
                  "the source): a later stage only moves when the stages before it emit output (LZMA2 before 7zAES buffers a full block), so a source that fails after part of it was "
                  "taken is held for untouched - close() completes and a member written after the failure does not extract", construct="consumed counts a later stage")


def r15_16(ctx: Ctx, rule: str = "R15.16") -> None:
    """the header an unfinished append session puts back is the header that was FOUND, in the form it was found: _restore_header_at_open
    sets `header_encryption` from the snapshot's `was_encrypted` (unconditionally, before _write_header) - not from what the failed
    session had asked for.  Otherwise a public archive comes back with its header encrypted under the failed session's password, or an
    archive with encrypted names comes back with the names in the clear."""
    try:
        f = shared.szf(ctx, "_restore_header_at_open")
    except Exception:
        ctx.note(f"{rule}: no _restore_header_at_open (R15.10 decides the fallback)")
        return
    cfg = cfg_of(f.node)
    wh = [c for c in q.calls(f) if attr_tail(c) == "_write_header"]
    ctx.floor(rule, len(wh), 1, "_write_header call in _restore_header_at_open")
    sets = [n for n in walk(f.node) if isinstance(n, ast.Assign) and norm(n.targets[0]) == "self.header_encryption"]
    good = [n for n in sets if any(isinstance(x, ast.Attribute) and x.attr == "was_encrypted" for x in ast.walk(q.expand_locals(f, n.value)))
            and not [cd for cd, pol in q.facts_at(f, n)] and all(cfg.dominates(q.node_for(f, n), q.node_for(f, c)) for c in wh)]
    late = [n for n in sets if n not in good and any(cfg.reaches(q.node_for(f, g), q.node_for(f, n)) for g in good)]
    ctx.check(bool(good) and not late, rule, f, (late or sets or [f.node])[0], "the restored header is encrypted exactly when the header found at open was",
              "_restore_header_at_open writes the old header back in the header mode of the FAILED session (it does not set `header_encryption` from the snapshot's `was_encrypted` "
              "before _write_header): after a failed append that had asked for header encryption a public archive can only be opened with that session's password; after one that had "
              "switched it off the names of an encrypted archive lie in the clear", construct="restored header in the failed session's mode")
    enc = [n for n in walk(f.node) if isinstance(n, ast.Assign) and norm(n.targets[0]) == "self.encoded_header_mode" and isinstance(n.value, ast.Constant) and n.value.value is True]
    ok = any(any(pol and "header_encryption" in norm(cd) or pol and "was_encrypted" in norm(cd) for cd, pol in q.facts_at(f, n)) for n in enc)
    ctx.check(ok, rule, f, enc[0] if enc else f.node, "an encrypted header is written back as an encoded header",
              "_restore_header_at_open does not switch the encoded-header mode on when the restored header is to be encrypted: Header.write only encrypts an encoded header "
              "(a session that had chosen a plain header would put the names back in the clear)", construct="restored encrypted header not encoded")


def run(ctx: Ctx) -> None:
    from . import c16 as _c16r
    _c16r.r16_15(ctx, rule="R15.17")  # a rejected name leaves the archive readable: the root is no member name
    r15_16(ctx)
    r15_15(ctx)
    from . import c07 as _c07
    _c07.r07_8(ctx)  # a failed only-write of an append session leaves a folder without substreams: its count must be written
    r15_14(ctx)
    r15_13(ctx)
    r15_12(ctx)
    r15_11(ctx)
    r15_10(ctx)
    r15_9(ctx)
    r15_8(ctx)
    r15_7(ctx)
    r15_6(ctx)
    r15_1(ctx)
    r15_2(ctx)
    r15_3(ctx)
    r15_4(ctx)
    r15_5(ctx)
