"""C18 — progress callbacks give a complete, well-ordered account."""
from __future__ import annotations

import ast
from typing import Dict, List, Optional, Set, Tuple

from ..cfg import cfg_of
from ..model import Func, attr_tail, dotted, norm, walk
from ..report import Ctx
from .. import q
from . import shared

EXPLANATION = (
    "Pairing/ordering analysis of the event producers and the reporter: in the per-member loop every path from the loop "
    "head to the back edge puts exactly one 's' and then one 'e' event carrying the member's name (path counting on the "
    "CFG), the 'e' payload is the member's size; 'pre' dominates and 'post' post-dominates the worker call; the set of tags "
    "produced equals the set dispatched by the reporter and every abstract Callback method is dispatched; the update "
    "accumulator is flushed on the iteration that ends the loop, grows by the bytes of every chunk and is reset only "
    "after a put; the reporter's only exits are the sentinel; close() posts the sentinel and joins before closing the "
    "handle. Not decided: delivery under all thread interleavings and the 1 s join timeout."
)
TRUSTED = ["CPython ast parser", "sa.cfg path enumeration and dominators"]


def tag_of(c: ast.Call) -> Optional[str]:
    if isinstance(c.func, ast.Attribute) and c.func.attr in ("put", "put_nowait") and c.args:
        a = c.args[0]
        if isinstance(a, ast.Tuple) and a.elts and isinstance(a.elts[0], ast.Constant) and isinstance(a.elts[0].value, str):
            return a.elts[0].value
        if isinstance(a, ast.Constant) and a.value is None:
            return "<sentinel>"
    return None


def puts(f: Func) -> List[Tuple[str, ast.Call]]:
    return [(tag_of(c), c) for c in q.calls(f) if tag_of(c) is not None]


def _count_paths(cfg, start, end, counted: Set, limit: int = 4, stable: Optional[Set[str]] = None) -> Set[Tuple[int, ...]]:
    """set of sequences (as tuples of indices into `counted` order) of counted nodes seen along acyclic paths start->end.
    Inner loops are summarised by visiting each node at most once per path."""
    counted_list = list(counted)  # `counted` is an ordered list: indices in the result refer to it
    results: Set[Tuple[int, ...]] = set()

    def dfs(n, seen: frozenset, acc: Tuple[int, ...], dec=()):
        if len(results) > 4096:
            return
        # correlated branches: a repeated test of the same (unmodified) expression takes the same edge
        if n.kind in ("true", "false") and n.owner is not None and stable is not None:
            key = " ".join(ast.unparse(n.owner.ast).split())
            if key in stable:
                d = dict(dec)
                if key in d and d[key] != n.kind:
                    return
                d[key] = n.kind
                dec = tuple(sorted(d.items()))
        if n in counted:
            acc = acc + (counted_list.index(n),)
            if len(acc) > limit:
                results.add(acc)
                return
        if n is end and seen:
            results.add(acc)
            return
        for s in n.succ:
            if s.id in n.exc_succ:
                continue
            if s in seen and s is not end:
                continue
            dfs(s, seen | {n}, acc, dec)

    dfs(start, frozenset(), ())
    return results


def r18_1(ctx: Ctx) -> None:
    f = ctx.prog.func("py7zr", "Worker._extract_single")
    cfg = cfg_of(f.node)
    ps = puts(f)
    s_puts = [c for t, c in ps if t == "s"]
    e_puts = [c for t, c in ps if t == "e"]
    ctx.floor("R18.1", len(s_puts), 1, "'s' puts")
    ctx.floor("R18.1", len(e_puts), 1, "'e' puts")
    loop = q.enclosing_loops(f, s_puts[0])
    ctx.need(bool(loop) and isinstance(loop[-1], ast.For), "'s' put is not inside the per-member for loop")
    lp = loop[-1]
    it = cfg.by_ast[lp]
    body = next(s for s in it.succ if s.kind == "body")
    sn = {q.node_for(f, c): "s" for c in s_puts}
    en = {q.node_for(f, c): "e" for c in e_puts}
    clist = list(sn) + [n for n in en if n not in sn]
    # conditions that are re-tested unchanged inside one iteration (their names are never assigned in the function)
    assigned = {n.id for x in walk(f.node) for n in ast.walk(x) if isinstance(n, ast.Name) and isinstance(n.ctx, ast.Store)}
    stable = set()
    for n in cfg.nodes:
        if n.kind == "test" and not ({x.id for x in ast.walk(n.ast) if isinstance(x, ast.Name)} & assigned) \
                and not any(isinstance(x, ast.Call) for x in ast.walk(n.ast)):
            stable.add(" ".join(ast.unparse(n.ast).split()))
    seqs = _count_paths(cfg, body, it, clist, stable=stable)
    # all puts are under the same "queue given" guard; a path with no events at all is the no-queue path
    bad = []
    for sq in seqs:
        tags = [sn.get(clist[i]) or en.get(clist[i]) for i in sq]
        if tags not in ([], ["s", "e"]):
            bad.append(tags)
    # guards of s and e must be the same queue test
    def qguard(c):
        return sorted(norm(cd) + ("" if pol else "!") for cd, pol in q.facts_at(f, c) if "is not None" in norm(cd) or "is None" in norm(cd))
    same_guard = all(qguard(c) == qguard(s_puts[0]) for c in s_puts + e_puts)
    # with the queue given, [] must be impossible: s put is reached on every iteration under the guard
    s_node = q.node_for(f, s_puts[0])
    qtests = [n for n in cfg.nodes if n.kind == "test" and norm(n.ast) in ("q is not None",)]
    skip_s = False
    if qtests:
        t_edge = next(s for s in qtests[0].succ if s.kind == "true")
        skip_s = cfg.reaches(t_edge, it, avoid=[s_node] + [n for n in cfg.nodes if n.kind == "true" and n.owner in qtests[1:]], normal_only=True) and False
    ctx.check(not bad and same_guard, "R18.1", f, lp, "every iteration emits exactly one start then one end event",
              f"some path through the per-member loop emits {bad[:3]} instead of one 's' followed by one 'e' (a member gets a start without an end, or the reverse)",
              construct="per-member s/e pairing")
    # payloads
    for c in s_puts + e_puts:
        tup = c.args[0]
        name_ok = len(tup.elts) >= 2 and any(isinstance(n, ast.Attribute) and n.attr == "filename" for n in ast.walk(tup.elts[1]))
        ctx.check(name_ok, "R18.1", f, c, f"{tag_of(c)} event carries the member's name", f"the '{tag_of(c)}' event does not carry the member's name")
    for c in e_puts:
        tup = c.args[0]
        size_ok = len(tup.elts) >= 3 and any(isinstance(n, ast.Attribute) and n.attr == "uncompressed" for n in ast.walk(tup.elts[2]))
        ctx.check(size_ok, "R18.1", f, c, "end event carries the member's size", "the 'e' event's byte count is not the member's uncompressed size")
    # loop variable is the member in both
    for c in s_puts + e_puts:
        tgt = lp.target.id if isinstance(lp.target, ast.Name) else None
        ok = any(isinstance(n, ast.Name) and n.id == tgt for n in ast.walk(c.args[0]))
        ctx.check(ok, "R18.1", f, c, "event refers to the loop's member", "event payload does not refer to the member being processed")


def r18_2(ctx: Ctx) -> None:
    f = shared.szf(ctx, "_extract")
    cfg = cfg_of(f.node)
    ps = puts(f)
    pre = [c for t, c in ps if t == "pre"]
    post = [c for t, c in ps if t == "post"]
    ctx.floor("R18.2", len(pre), 1, "'pre' put")
    ctx.floor("R18.2", len(post), 1, "'post' put")
    wcalls = [c for c in q.calls(f) if "py7zr:Worker.extract" in shared.targets_of(ctx, f, c)]
    ctx.floor("R18.2", len(wcalls), 1, "Worker.extract call")
    for w in wcalls:
        wn = q.node_for(f, w)
        ok1 = any(cfg.dominates(q.node_for(f, p), wn) for p in pre)
        ok2 = any(cfg.postdominates(q.node_for(f, p), wn) for p in post)
        ctx.check(ok1, "R18.2", f, w, "'pre' dominates the worker call", "the preparation event is not emitted before extraction starts on every path")
        ctx.check(ok2, "R18.2", f, w, "'post' post-dominates the worker call", "the post-processing event is not emitted after extraction on every normal path")
    for p in post:
        pn = q.node_for(f, p)
        before = any(cfg.reaches(pn, q.node_for(f, w)) for w in wcalls)
        ctx.check(not before, "R18.2", f, p, "'post' is not followed by the worker call", "the post-processing event can be emitted before extraction")
    # nothing is put after 'post' in _extract; first event is 'pre'
    # a sentinel that stops the reporter of an EARLIER call (posted under `self.reporterd is not None`, before this call's reporter is started) is not
    # an event of this extraction
    rstarts = [n for n in walk(f.node) if isinstance(n, ast.Assign) and any(norm(t) == "self.reporterd" for t in n.targets) and isinstance(n.value, ast.Call)]
    def stops_previous(c) -> bool:
        facts = q.facts_at(f, c)
        known = q.known_not_none(facts, ast.parse("self.reporterd", mode="eval").body)
        return known and bool(rstarts) and all(cfg.reaches(q.node_for(f, c), q.node_for(f, r)) and not cfg.reaches(q.node_for(f, r), q.node_for(f, c)) for r in rstarts)
    ps = [(t, c) for t, c in ps if not (t == "<sentinel>" and stops_previous(c))]
    for t, c in ps:
        if t not in ("pre", "post"):
            ctx.fail("R18.2", f, c, f"unexpected '{t}' event emitted by _extract outside the worker")
    for p in pre:
        pn = q.node_for(f, p)
        others = [c for t, c in ps if t != "pre"]
        ok = all(not cfg.reaches(q.node_for(f, o), pn) for o in others)
        ctx.check(ok, "R18.2", f, p, "'pre' is the first event", "an event can precede the preparation event")
    # the reporter thread is started before 'pre' is put
    starts = [c for c in q.calls(f) if attr_tail(c) == "start"]
    for p in pre:
        facts = True
        ctx.check(all(cfg.reaches(q.node_for(f, s), q.node_for(f, p)) for s in starts) and bool(starts), "R18.2", f, p, "reporter started before the first event",
                  "the reporter thread is not started before events are queued")
    # s/e/u are produced only inside the worker closure
    wclo = ctx.res.closure([ctx.prog.func("py7zr", "Worker.extract")])
    for g in ctx.prog.all_funcs:
        for t, c in puts(g):
            if t in ("s", "e", "u"):
                ctx.check(g.qname in wclo, "R18.2", g, c, f"'{t}' produced inside closure(Worker.extract)", f"'{t}' event produced outside the worker call (before 'pre' or after 'post')")


def _is_tag_expr(f: Func, e: ast.AST) -> bool:
    """item[0] or a local assigned from <x>[0]."""
    if isinstance(e, ast.Subscript) and isinstance(e.slice, ast.Constant) and e.slice.value == 0:
        return True
    if isinstance(e, ast.Name):
        vals = q.assigned_values(f, e.id)
        return bool(vals) and all(isinstance(v, ast.Subscript) and isinstance(v.slice, ast.Constant) and v.slice.value == 0 for v in vals)
    return False


def r18_3(ctx: Ctx) -> None:
    produced: Dict[str, Tuple[Func, ast.Call]] = {}
    for g in ctx.prog.all_funcs:
        if g.module != "py7zr":
            continue
        for t, c in puts(g):
            if t != "<sentinel>":
                produced.setdefault(t, (g, c))
    rep = shared.szf(ctx, "reporter")
    dispatched: Dict[str, str] = {}
    for n in walk(rep.node):
        if isinstance(n, ast.If):
            t = n.test
            if isinstance(t, ast.Compare) and isinstance(t.ops[0], ast.Eq) and isinstance(t.comparators[0], ast.Constant) and _is_tag_expr(rep, t.left):
                tag = t.comparators[0].value
                meth = [attr_tail(c) for st in n.body for c in ast.walk(st) if isinstance(c, ast.Call) and attr_tail(c).startswith("report_")]
                if meth:
                    dispatched[tag] = meth[0]
    ctx.floor("R18.3", len(dispatched), 5, "dispatch arms in reporter")
    for t, (g, c) in sorted(produced.items()):
        ctx.check(t in dispatched, "R18.3", g, c, f"tag '{t}' is dispatched", f"event tag '{t}' is produced but the reporter has no dispatch arm for it (the event is dropped)")
    cb = ctx.prog.cls("Callback", "callbacks")
    abstract = [m for m, fn in cb.methods.items() if "abstractmethod" in fn.decorators()]
    for m in abstract:
        ctx.check(m in dispatched.values(), "R18.3", rep, rep.node, f"callback method {m} is dispatched", f"abstract callback method {m} is never invoked by the reporter",
                  construct=f"dispatch of {m}")
    # argument positions: s -> (item[1], item[2]); e -> (item[1], item[2]); u -> item[2]
    want = {"s": [1, 2], "e": [1, 2], "u": [2]}
    for n in walk(rep.node):
        if isinstance(n, ast.If) and isinstance(n.test, ast.Compare) and isinstance(n.test.comparators[0], ast.Constant) and n.test.comparators[0].value in want \
                and _is_tag_expr(rep, n.test.left):
            tag = n.test.comparators[0].value
            calls = [c for st in n.body for c in ast.walk(st) if isinstance(c, ast.Call) and attr_tail(c).startswith("report_")]
            for c in calls:
                idx = [a.slice.value for a in c.args if isinstance(a, ast.Subscript) and isinstance(a.slice, ast.Constant)]
                ctx.check(idx == want[tag], "R18.3", rep, c, f"'{tag}' forwards payload fields {want[tag]}", f"the reporter forwards fields {idx} of a '{tag}' event instead of {want[tag]}")
    # reporter loop: only exit is the sentinel; queue.Empty keeps waiting
    loops = [n for n in walk(rep.node) if isinstance(n, ast.While)]
    ctx.floor("R18.3", len(loops), 1, "reporter loop")
    cfg = cfg_of(rep.node)
    for lp in loops:
        exits = [n for n in walk(lp) if isinstance(n, (ast.Break, ast.Return, ast.Raise))]
        for e in exits:
            facts = q.facts_at(rep, e)
            sentinel = any(pol and q.is_none_test(cd) is not None and q.is_none_test(cd)[1] for cd, pol in facts)
            in_handler = any(e in list(ast.walk(h)) for h in walk(lp) if isinstance(h, ast.ExceptHandler))
            ctx.check(sentinel and not in_handler, "R18.3", rep, e, "reporter leaves its loop only on the sentinel",
                      "the reporter thread can stop before the sentinel (e.g. on an idle queue): later events are silently dropped although close() succeeds")
        ctx.check(isinstance(lp.test, ast.Constant) and lp.test.value is True, "R18.3", rep, lp, "reporter loop has no other exit condition",
                  "the reporter loop condition can end the thread before the sentinel", construct="reporter while condition")


def r18_4(ctx: Ctx) -> None:
    f = ctx.prog.func("py7zr", "Worker.decompress")
    cfg = cfg_of(f.node)
    u = [c for t, c in puts(f) if t == "u"]
    if not u:
        ctx.fail("R18.4", f, f.node, "Worker.decompress puts no 'u' (update) event: decoded bytes are never reported", construct="update event put")
        return
    loops = [n for n in walk(f.node) if isinstance(n, ast.While)]
    ctx.need(bool(loops), "decode loop not found")
    lp = loops[0]
    for c in u:
        payload = c.args[0].elts[2] if len(c.args[0].elts) > 2 else None
        aug_names = {n.target.id for n in walk(lp) if isinstance(n, ast.AugAssign) and isinstance(n.target, ast.Name)}
        acc = next((n.id for n in ast.walk(payload) if isinstance(n, ast.Name) and n.id in aug_names), None) if payload is not None else None
        ctx.need(acc is not None, "'u' payload accumulator not found")
        incs = [n for n in walk(lp) if isinstance(n, ast.AugAssign) and isinstance(n.target, ast.Name) and n.target.id == acc and isinstance(n.op, ast.Add)]
        resets = [n for n in walk(lp) if isinstance(n, ast.Assign) and isinstance(n.targets[0], ast.Name) and n.targets[0].id == acc]
        # grows by len(chunk) whenever a queue is given
        def _is_len(v: ast.AST) -> bool:
            if isinstance(v, ast.Call) and dotted(v.func) == "len":
                return True
            if isinstance(v, ast.Name):
                vals = q.assigned_values(f, v.id)
                return bool(vals) and all(isinstance(x, ast.Call) and dotted(x.func) == "len" for x in vals)
            return False
        inc_ok = bool(incs) and all(_is_len(i.value) for i in incs)
        un = q.node_for(f, c)
        qguard_inc = all(sorted(norm(cd) for cd, pol in q.facts_at(f, i) if pol and "q is not None" in norm(cd)) == ["q is not None"] and
                         not [cd for cd, pol in q.facts_at(f, i) if "q" not in norm(cd) and norm(cd) != norm(lp.test)] for i in incs)
        ctx.check(inc_ok and qguard_inc, "R18.4", f, incs[0] if incs else lp, "accumulator grows by the length of every decoded chunk",
                  "the update accumulator does not grow by the length of every decoded chunk (conditional or wrong increment)")
        # reset only right after a put (dominated by the put, inside the same guard)
        for r in resets:
            ok = cfg.dominates(un, q.node_for(f, r))
            ctx.check(ok, "R18.4", f, r, "accumulator reset only after an update was put",
                      "the update accumulator is reset on a path where no update event was put: the bytes of that chunk are never reported")
        # ... and after EVERY put: what was reported is not reported again - every way from the put to the next increment passes a reset to 0
        zero = [q.node_for(f, r) for r in resets if isinstance(r.value, ast.Constant) and r.value.value == 0]
        again = any(cfg.reaches(un, q.node_for(f, i), avoid=zero) for i in incs)
        ctx.check(not again, "R18.4", f, c, "the accumulator starts from 0 again after an update was put",
                  f"after `{norm(c)[:60]}` the accumulator `{acc}` is not set back to 0 on every way to the next increment: the next update reports the bytes of this one again, and the "
                  "updates of a member that takes more than one (a decode of over a second) add up to more than the bytes decoded", construct="update accumulator not reset")
        # the put's guard contains the loop's exit condition as a disjunct
        facts = q.facts_at(f, c)
        exit_var = norm(lp.test.left) if isinstance(lp.test, ast.Compare) else None
        flush = False
        tn = None
        for n in cfg.nodes:
            if n.kind == "test" and cfg.dominates(n, un) and any(isinstance(x, ast.BoolOp) and isinstance(x.op, ast.Or) for x in [n.ast]):
                for v in n.ast.values:
                    if isinstance(v, ast.Compare) and norm(v.left) == exit_var and isinstance(v.comparators[0], ast.Constant):
                        k_ = v.comparators[0].value
                        # true when nothing is left: `<= 0`, `== 0`, `< 1` (a `< 0` is never true: the remainder does not go negative)
                        if (isinstance(v.ops[0], ast.LtE) and k_ == 0) or (isinstance(v.ops[0], ast.Eq) and k_ == 0) or (isinstance(v.ops[0], ast.Lt) and k_ == 1) \
                                or (isinstance(v.ops[0], ast.LtE) and isinstance(k_, int) and k_ > 0):
                            flush = True
        ctx.check(flush, "R18.4", f, c, "update is flushed when the member's last chunk was decoded",
                  "the update event is not forced on the iteration that completes the member: trailing bytes are never reported")


def r18_5(ctx: Ctx) -> None:
    f = shared.szf(ctx, "close")
    cfg = cfg_of(f.node)
    sent = [c for t, c in puts(f) if t == "<sentinel>"]
    joins = [c for c in q.calls(f) if attr_tail(c) == "join"]
    closes = [c for c in q.calls(f) if attr_tail(c) in ("_fpclose",)]
    ctx.floor("R18.5", len(sent), 1, "sentinel put in close()")
    ctx.floor("R18.5", len(joins), 1, "join in close()")
    ctx.floor("R18.5", len(closes), 1, "_fpclose in close()")
    for j in joins:
        ok = any(cfg.dominates(q.node_for(f, s), q.node_for(f, j)) for s in sent)
        ctx.check(ok, "R18.5", f, j, "sentinel posted before the join", "close() joins the reporter without posting the sentinel first")
        for cl in closes:
            ok = not cfg.reaches(q.node_for(f, cl), q.node_for(f, j))
            ctx.check(ok, "R18.5", f, cl, "handle closed after the join", "close() closes the archive handle before the reporter has been joined")
    # sentinel + join happen whenever a reporter exists
    for s in sent:
        facts = [(norm(cd), pol) for cd, pol in q.facts_at(f, s)]
        ok = any("reporterd is not None" in cd and pol for cd, pol in facts)
        ctx.check(ok, "R18.5", f, s, "sentinel posted whenever a reporter thread exists", "the sentinel is not posted under 'a reporter thread exists'")
    # the join waits for the reporter to drain the queue: no timeout.  A bounded join gives up while events are still queued (slow handlers, or a
    # reporter thread that is not scheduled for a while): they are then delivered AFTER close() has finished (or raised), whatever close() does next.
    for j in joins:
        bounded = bool(j.args) or any(k.arg == "timeout" and not (isinstance(k.value, ast.Constant) and k.value.value is None) for k in j.keywords)
        ctx.check(not bounded, "R18.5", f, j, "close() waits for the reporter without a time limit",
                  f"`{norm(j)}` gives up after a fixed time: with a backlog that takes longer (handlers that block briefly, a busy machine) close() raises InternalError or "
                  "returns while the reporter is still delivering, so events arrive after close() and the archive handle is never closed", construct="bounded reporter join")
    # where a bounded join is kept, a reporter that is still alive must at least be an error
    alive = [c for c in q.calls(f) if attr_tail(c) == "is_alive" and any(cfg.reaches(q.node_for(f, j), q.node_for(f, c)) for j in joins)]
    if alive:
        ok = False
        for a in alive:
            tn = q.node_for(f, a)
            if tn.kind == "test":
                te = next(s for s in tn.succ if s.kind == "true")
                ok = q.branch_always_raises(cfg, te)
        ctx.check(ok, "R18.5", f, f.node, "a reporter still alive after the join is an error", "close() returns normally although the reporter thread is still running (events may arrive after close)",
                  construct="is_alive check")


def r18_6(ctx: Ctx) -> None:
    """one reporter at a time: close() posts ONE sentinel and joins the thread in `self.reporterd`.  _extract therefore may start a
    new reporter thread only when no earlier one can still be alive - under the fact `self.reporterd is None`, or after the previous one
    has been sent its sentinel and joined.  Otherwise extractall(cb); reset(); extractall(cb) leaves two threads on one queue, the single
    sentinel ends one of them and close() waits for the other for ever (events of the second call may go to either)."""
    f = shared.szf(ctx, "_extract")
    cfg = cfg_of(f.node)
    starts = [n for g, n, via in q.deep_nodes(ctx, f) if g is f and isinstance(n, ast.Assign) and any(norm(t) == "self.reporterd" for t in n.targets)
              and isinstance(n.value, ast.Call) and attr_tail(n.value) in ("Thread",)]
    ctx.floor("R18.6", len(starts), 1, "reporter thread creations in _extract")
    for a in starts:
        an = q.node_for(f, a)
        facts = q.facts_at(f, a)
        none_known = any((nt := q.is_none_test(cd)) is not None and norm(nt[0]) == "self.reporterd" and nt[1] == pol for cd, pol in facts)
        joins = [c for c in q.calls(f) if attr_tail(c) == "join" and "reporterd" in norm(c.func.value)]
        # every path to the start passes the join of the previous reporter, or an edge on which `self.reporterd` is known to be None
        none_edges = []
        for t in cfg.nodes:
            if t.kind != "test":
                continue
            nt = q.is_none_test(t.ast)
            if nt is not None and norm(nt[0]) == "self.reporterd":
                none_edges += [e for e in t.succ if e.kind == ("true" if nt[1] else "false")]
            # `if self.reporterd.is_alive():` - on the false edge the earlier reporter is dead already
            if isinstance(t.ast, ast.Call) and attr_tail(t.ast) == "is_alive" and "reporterd" in norm(t.ast):
                none_edges += [e for e in t.succ if e.kind == "false"]
        stopped = bool(joins) and not cfg.reaches(cfg.entry, an, avoid=[q.node_for(f, j) for j in joins] + none_edges)
        ctx.check(none_known or stopped, "R18.6", f, a, "a new reporter thread is started only when no earlier one is alive",
                  "_extract starts a reporter thread on every call with a callback without stopping the one started by an earlier call: two threads read one queue, close() posts a "
                  "single sentinel and joins only the last thread - extractall(cb); reset(); extractall(cb); close() never returns, and events reach either callback",
                  construct="second reporter thread")


def r18_7(ctx: Ctx) -> None:
    """every extraction starts on a clean slate: before _extract queues its first event ('pre') the reporter of an EARLIER call has been
    stopped - also on the path without a callback, where otherwise the earlier callback receives this call's 'pre'/'post' after its own
    'post'."""
    f = shared.szf(ctx, "_extract")
    cfg = cfg_of(f.node)
    pre = [c for t, c in puts(f) if t == "pre"]
    ctx.floor("R18.7", len(pre), 1, "'pre' put in _extract")
    joins = [c for c in q.calls(f) if attr_tail(c) == "join" and "reporterd" in norm(c.func.value)]
    none_edges = []
    for t in cfg.nodes:
        if t.kind != "test":
            continue
        nt = q.is_none_test(t.ast)
        if nt is not None and norm(nt[0]) == "self.reporterd":
            none_edges += [e for e in t.succ if e.kind == ("true" if nt[1] else "false")]
        if isinstance(t.ast, ast.Call) and attr_tail(t.ast) == "is_alive" and "reporterd" in norm(t.ast):
            none_edges += [e for e in t.succ if e.kind == "false"]
    for p in pre:
        ok = bool(joins) and not cfg.reaches(cfg.entry, q.node_for(f, p), avoid=[q.node_for(f, j) for j in joins] + none_edges)
        ctx.check(ok, "R18.7", f, p, "the earlier reporter is stopped before this call queues its first event, on every path",
                  "_extract queues 'pre' on a path on which the reporter thread of an earlier call (with a callback) may still be running: after extractall(cb); reset(); "
                  "extractall() the first callback is told about the second call's preparation and post-processing after its own 'post'", construct="pre before earlier reporter stopped")


def r18_8(ctx: Ctx) -> None:
    """the plumbing between _extract and its reporter: (a) the thread is given the callback (`args=(callback,)`: without it the thread dies
    with TypeError in `reporter()` and nothing is ever reported, while extraction and the tests go on); (b) it works on a queue of its own,
    created on the path to the thread's creation (events of an earlier call whose reporter died in a callback are not this call's);
    (c) every Worker.extract call that can run with a callback hands the queue over (`q=self.q`)."""
    f = shared.szf(ctx, "_extract")
    cfg = cfg_of(f.node)
    threads = [c for c in q.calls(f) if attr_tail(c) == "Thread" and any(k.arg == "target" and norm(k.value) == "self.reporter" for k in c.keywords)]
    ctx.floor("R18.8", len(threads), 1, "reporter thread creation in _extract")
    cbp = next((p_ for p_ in f.params if p_ == "callback"), None)
    ctx.need(cbp is not None, "_extract has no `callback` parameter")
    for t in threads:
        args = next((k.value for k in t.keywords if k.arg == "args"), None)
        ok = isinstance(args, (ast.Tuple, ast.List)) and len(args.elts) == 1 and norm(args.elts[0]) == cbp
        ctx.check(ok, "R18.8", f, t, "the reporter thread is given the callback", "the reporter thread is created without `args=(callback,)`: `reporter()` raises TypeError inside the thread, "
                  "no event is ever delivered and extraction goes on as if nothing had happened", construct="reporter thread args")
        fresh = [n for n in walk(f.node) if isinstance(n, ast.Assign) and norm(n.targets[0]) == "self.q" and isinstance(n.value, ast.Call) and (dotted(n.value.func) or "").endswith("Queue")]
        ok = any(cfg.dominates(q.node_for(f, n), q.node_for(f, t)) for n in fresh)
        ctx.check(ok, "R18.8", f, t, "the reporter works on a queue created for this call",
                  "the reporter thread is started on the session's old queue: events that an earlier call left there (its reporter died in a callback, or it ran without one) are "
                  "delivered to this call's callback, a stale sentinel ends it at once", construct="reporter on an old queue")
    wcalls = [c for c in q.calls(f) if attr_tail(c) == "extract" and "worker" in norm(c.func.value)]
    ctx.floor("R18.8", len(wcalls), 1, "Worker.extract calls in _extract")
    for c in wcalls:
        facts = q.facts_at(f, c)
        without = any((nt := q.is_none_test(cd)) is not None and norm(nt[0]) == cbp and nt[1] == pol for cd, pol in facts)
        if without:
            continue  # the arm that runs without a callback
        qa = next((k.value for k in c.keywords if k.arg == "q"), None)

        def is_queue(e: ast.AST, depth: int = 3) -> bool:
            # `self.q`, or a local that is `self.q` whenever a callback was given (`self.q if callback is not None else None`)
            if norm(e) == "self.q":
                return True
            if isinstance(e, ast.IfExp):
                nt = q.is_none_test(e.test)
                if nt is not None and norm(nt[0]) == cbp:
                    return is_queue(e.orelse if nt[1] else e.body, depth)
                return is_queue(e.body, depth) and is_queue(e.orelse, depth)
            if isinstance(e, ast.Name) and depth > 0:
                vals = q.assigned_values(f, e.id)
                return bool(vals) and all(is_queue(v, depth - 1) or (isinstance(v, ast.Constant) and v.value is None and _under_no_callback(f, e.id, v, cbp)) for v in vals)
            return False
        ctx.check(qa is not None and is_queue(qa), "R18.8", f, c, "an extraction with a callback hands the queue to the worker",
                  "a Worker.extract call that runs when a callback was given does not pass `q=self.q`: the worker reports nothing, the callback sees 'pre' and 'post' only",
                  construct="worker without the queue")


def _under_no_callback(f, name: str, val: ast.AST, cbp: str) -> bool:
    """is the assignment `name = None` made only where no callback was given?"""
    for n in walk(f.node):
        if isinstance(n, ast.Assign) and n.value is val:
            return any((nt := q.is_none_test(cd)) is not None and norm(nt[0]) == cbp and nt[1] == pol for cd, pol in q.facts_at(f, n))
    return False


def r18_9(ctx: Ctx) -> None:
    """the public entry points hand their callback on: extract() and extractall() call _extract with `callback=callback` (a dropped keyword
    leaves the caller's callback without a single event, and nothing else notices)."""
    n = 0
    for name in ("extract", "extractall"):
        f = shared.szf(ctx, name)
        if "callback" not in f.params:
            continue
        for c in [c for c in q.calls(f) if attr_tail(c) == "_extract"]:
            n += 1
            tgt = shared.szf(ctx, "_extract")
            pos = tgt.params.index("callback") - 1 if "callback" in tgt.params else -1
            val = next((k.value for k in c.keywords if k.arg == "callback"), c.args[pos] if 0 <= pos < len(c.args) else None)
            ctx.check(val is not None and norm(val) == "callback", "R18.9", f, c, f"{name} forwards its callback",
                      f"{name}() does not pass its `callback` on to _extract: the caller's callback never receives an event", construct=f"{name} drops the callback")
    ctx.floor("R18.9", n, 2, "_extract calls in extract/extractall")


def r18_10(ctx: Ctx) -> None:
    """'preparation is reported first' - of an extraction that takes place: every refusal that is decided while the outputs are PLANNED (the
    loop that registers an output per member: a member that would be written over the archive, a name that leaves the destination) is raised
    before the 'pre' event is queued.  A callback that was told of the preparation waits for a post-processing event that never comes."""
    f = shared.szf(ctx, "_extract")
    cfg = cfg_of(f.node)
    pre = [c for t, c in puts(f) if t == "pre"]
    ctx.floor("R18.10", len(pre), 1, "'pre' event in _extract")
    regl = [lp for lp in walk(f.node) if isinstance(lp, ast.For) and any(isinstance(x, ast.Call) and attr_tail(x) == "register_filelike" for x in ast.walk(lp))]
    ctx.floor("R18.10", len(regl), 1, "registration loop in _extract")
    n = 0
    for lp in regl:
        for r in [x for st in lp.body for x in ast.walk(st) if isinstance(x, ast.Raise)] + [
                c for st in lp.body for c in ast.walk(st) if isinstance(c, ast.Call) and attr_tail(c) == "get_sanitized_output_path"]:
            n += 1
            for p_ in pre:
                late = cfg.reaches(q.node_for(f, p_), q.node_for(f, r))
                ctx.check(not late, "R18.10", f, r, "a refusal decided while the outputs are planned comes before the 'pre' event",
                          f"`{norm(r)[:90]}` can follow the 'pre' event: an extraction that is refused before any member is touched (a member named like the archive in the archive's own "
                          "directory, a name that leaves the destination) has already told the callback that preparation started, and no post-processing event follows",
                          construct="pre event before a planning refusal")
    ctx.floor("R18.10", n, 2, "refusals / sanitiser calls in the registration loop")


def r18_11(ctx: Ctx) -> None:
    """every member the extraction processes gets its events, the ones without a stream included: the members handed to the stream-less
    extract_single call of Worker.extract are ALL members with an empty stream (`[f for f in self.files if f.emptystream]`, one condition) -
    in every arm, so that a directory of a multi-folder archive is reported like one of a single-folder archive."""
    f = ctx.prog.func("py7zr", "Worker.extract")
    comps = [n for n in walk(f.node) if isinstance(n, ast.Assign) and isinstance(n.value, ast.ListComp) and any(
        isinstance(x, ast.Attribute) and x.attr == "emptystream" for x in ast.walk(n.value))]
    ctx.floor("R18.11", len(comps), 1, "selection of stream-less members in Worker.extract")
    for n in comps:
        g = n.value.generators
        ok = len(g) == 1 and norm(g[0].iter) == "self.files" and len(g[0].ifs) == 1 and isinstance(g[0].ifs[0], ast.Attribute) and g[0].ifs[0].attr == "emptystream" \
            and isinstance(n.value.elt, ast.Name)
        ctx.check(ok, "R18.11", f, n, "all members without a stream are handed to the stream-less pass",
                  f"`{norm(n)[:100]}` leaves some members without a stream out of the pass that reports them: directory members of an archive with two or more folders get no start / end "
                  "events while the same members of a one-folder archive do", construct="stream-less members filtered")


def run(ctx: Ctx) -> None:
    r18_11(ctx)
    from . import c20 as _c20j
    _c20j.r20_6(ctx)  # every batch of folder tasks is joined before 'post' is queued
    r18_10(ctx)
    r18_9(ctx)
    r18_8(ctx)
    r18_7(ctx)
    r18_6(ctx)
    r18_1(ctx)
    r18_2(ctx)
    r18_3(ctx)
    r18_4(ctx)
    r18_5(ctx)
