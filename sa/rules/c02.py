"""C02 — directory tree round trip with metadata."""
from __future__ import annotations

import ast
import stat as pystat
from fractions import Fraction
from typing import Dict, List, Optional, Tuple

from ..bitdom import BitEval, Word
from ..cfg import cfg_of
from ..consteval import NotConst
from ..model import AnalysisError, Func, attr_tail, dotted, norm, walk
from ..report import Ctx
from .. import q
from . import shared

EXPLANATION = (
    "Algebraic and ordering facts behind the tree round trip: for every kind branch of _make_file_info the attribute word is "
    "evaluated in the bit-provenance domain with the 12 permission bits symbolic, and the reader's predicates (directory bit, "
    "unix-extension symlink test, S_IMODE) are evaluated on that word: directory/file/link are told apart and the permission "
    "bits come back in place; dereferenced entries use the re-stat'ed mode; from_datetime and totimestamp are inverse affine "
    "maps with the same epoch constant (no truncation before scaling) and filetime_to_dt uses the same epoch; link text is "
    "encoded and decoded with the same codec; utime/chmod run only after the content pass and link members are excluded from "
    "that pass; the tree walk has an arm for link, file and directory and recurses over all sorted entries. "
    "Not decided: equality of trees; the 5 microsecond bound (float rounding)."
)
TRUSTED = ["CPython ast parser", "sa.bitdom", "stat module constants (S_IFDIR, S_IFLNK, FILE_ATTRIBUTE_*)", "sa.cfg dominators"]

UNIX_EXT = 0x8000


def _kind_blocks(f: Func):
    """yield (block statements, facts) for each block that assigns f['attributes']."""
    for n in walk(f.node):
        bodies = []
        if isinstance(n, ast.If):
            bodies = [n.body, n.orelse]
        for body in bodies:
            if any(isinstance(s, ast.Assign) and _is_key(s.targets[0], "attributes") for s in body):
                yield body


def _is_key(t: ast.AST, key: str) -> bool:
    return isinstance(t, ast.Subscript) and isinstance(t.slice, ast.Constant) and t.slice.value == key


def r02_1(ctx: Ctx) -> None:
    f = shared.szf(ctx, "_make_file_info")
    mode_field = Word.field("mode", 12)

    def const_lookup(e):
        return ctx.ce.eval(e, "py7zr")
    n_blocks = 0
    for body in _kind_blocks(f):
        first = next(s for s in body if isinstance(s, ast.Assign) and _is_key(s.targets[0], "attributes"))
        facts = [(norm(cd), pol) for cd, pol in q.facts_at(f, first)]
        posix = any("sys.platform" in cd and "linux" in cd and pol for cd, pol in facts) or any("darwin" in cd and pol for cd, pol in facts)
        if not posix:
            continue
        n_blocks += 1
        env: Dict[str, Word] = {"stat.S_IMODE(fstat.st_mode)": mode_field}
        for x in ast.walk(ast.Module(body=list(body), type_ignores=[])):
            if isinstance(x, ast.Call) and dotted(x.func) == "stat.S_IMODE":
                env[norm(x)] = mode_field  # the permission bits of whatever stat result is used (its provenance is checked below)
        be = BitEval(env, const_lookup=const_lookup, func=f)
        word: Optional[Word] = None
        empty = None
        for s in body:
            if isinstance(s, ast.Assign) and _is_key(s.targets[0], "attributes"):
                word = be.ev(s.value)
            elif isinstance(s, ast.AugAssign) and _is_key(s.target, "attributes") and isinstance(s.op, ast.BitOr):
                word = word.or_(be.ev(s.value))
            elif isinstance(s, ast.Assign) and _is_key(s.targets[0], "emptystream") and isinstance(s.value, ast.Constant):
                empty = s.value.value
        ctx.need(word is not None and empty is not None, "attribute block without emptystream/attributes")
        is_link_branch = any(cd == "target.is_symlink()" and pol for cd, pol in facts) and any(cd == "dereference" and not pol for cd, pol in facts)
        kind = "directory" if empty else ("symlink" if is_link_branch else "file")
        # reader predicates on the word
        dirbit = word.b[4]  # FILE_ATTRIBUTE_DIRECTORY = 0x10
        unix = word.b[15]
        e = word.shr(16)
        fmt_bits = [e.b[i] for i in range(12, 16)]
        fmt_const = all(b in (0, 1) for b in fmt_bits)
        fmt = sum((1 << (12 + i)) for i, b in enumerate(fmt_bits) if b == 1) if fmt_const else None
        is_dir = dirbit == 1
        is_lnk = unix == 1 and fmt == pystat.S_IFLNK
        perm = Word(e.b[:12])
        site = f"_make_file_info[{kind}{' (dereferenced)' if any(cd == 'dereference' and pol for cd, pol in facts) else ''}] word={word}"
        okk = unix == 1 and fmt_const and perm == mode_field
        if kind == "directory":
            okk = okk and is_dir and not is_lnk and fmt == pystat.S_IFDIR
        elif kind == "symlink":
            okk = okk and is_lnk and not is_dir
        else:
            okk = okk and not is_dir and not is_lnk and fmt in (0, pystat.S_IFREG)
        ctx.check(okk, "R02.1", f, first, site,
                  f"the attribute word of a {kind} entry is {word}: the reader's predicates give is_directory={is_dir}, is_symlink={is_lnk}, "
                  f"unix-extension bit={unix}, permission bits={perm}; expected a {kind} with the 12 mode bits at bits 16..27", construct=f"attributes of {kind}: {norm(first.value)}")
        # names used: only the freshly stat'ed result
        used = {n.id for s in body if (isinstance(s, (ast.Assign, ast.AugAssign)) and _is_key(getattr(s, 'target', None) or s.targets[0], "attributes")) for n in ast.walk(s.value) if isinstance(n, ast.Name)}
        # the time stamps stored after the kind branches read `fstat` as well: in a dereference arm it must be the target's
        odd = used - {"stat", "fstat", "getattr", "FILE_ATTRIBUTE_UNIX_EXTENSION", "FILE_ATTRIBUTE_WINDOWS_MASK"}
        if any(cd == "dereference" and pol for cd, pol in facts):
            restat = [s for s in walk(f.node) if isinstance(s, ast.Assign) and norm(s.targets[0]) == "fstat" and isinstance(s.value, ast.Call) and norm(s.value.func) == "target.stat"]
            cfgf = cfg_of(f.node)
            dom = any(cfgf.dominates(q.node_for(f, r), q.node_for(f, first)) for r in restat)
            # locals are fine when they are themselves computed after the re-stat
            stale = []
            for nm in sorted(odd):
                for d in [x for x in walk(f.node) if isinstance(x, ast.Assign) and any(isinstance(t, ast.Name) and t.id == nm for t in x.targets)]:
                    if not any(cfgf.dominates(q.node_for(f, r), q.node_for(f, d)) for r in restat):
                        stale.append(nm)
            odd = set(stale)
            ctx.check(not odd and dom, "R02.1", f, first, "dereferenced entry takes its mode from the re-stat'ed target",
                      f"a dereferenced entry computes its attributes from {sorted(odd) or 'fstat'} not dominated by `fstat = target.stat()`: the link's own mode (0o777) is stored instead of the target's",
                      construct=f"dereferenced {kind} mode source")
    ctx.floor("R02.1", n_blocks, 3, "posix kind branches of _make_file_info")
    # reader side constants
    af = ctx.prog.cls("ArchiveFile", "py7zr")
    ue = af.methods["_get_unix_extension"]
    ok = any(isinstance(n, ast.BinOp) and isinstance(n.op, ast.RShift) and isinstance(n.right, ast.Constant) and n.right.value == 16 for n in walk(ue.node)) and \
        any(attr_tail(c) == "_test_attribute" and c.args and norm(c.args[0]) == "FILE_ATTRIBUTE_UNIX_EXTENSION" for c in q.calls(ue))
    ctx.check(ok and ctx.ce.module_const("py7zr", "FILE_ATTRIBUTE_UNIX_EXTENSION") == UNIX_EXT, "R02.1", ue, ue.node, "reader: unix extension = attributes >> 16 under bit 0x8000",
              "the reader does not take the unix extension as attributes >> 16 under FILE_ATTRIBUTE_UNIX_EXTENSION (0x8000)", construct="_get_unix_extension")
    ta = af.methods["_test_attribute"]
    ok = any(isinstance(n, ast.Compare) and isinstance(n.ops[0], ast.Eq) and isinstance(n.left, ast.BinOp) and isinstance(n.left.op, ast.BitAnd) and norm(n.comparators[0]) == ta.params[1] for n in walk(ta.node))
    ctx.check(ok, "R02.1", ta, ta.node, "reader: bit test is (attributes & bit) == bit", "_test_attribute is not (attributes & bit) == bit", construct="_test_attribute")
    want = {"is_directory": ("FILE_ATTRIBUTE_DIRECTORY", None), "is_symlink": (None, "S_ISLNK"), "posix_mode": (None, "S_IMODE")}
    for prop, (attr_const, fn) in want.items():
        m = af.methods[prop]
        src = " ".join(norm(s) for s in m.node.body)
        ok = (attr_const is None or attr_const in src) and (fn is None or f"stat.{fn}(" in src)
        ctx.check(ok, "R02.1", m, m.node, f"reader: {prop} uses {attr_const or fn}", f"ArchiveFile.{prop} does not use {attr_const or 'stat.' + fn}", construct=f"ArchiveFile.{prop} predicate")


def _affine(ctx: Ctx, e: ast.AST, var: str, module: str) -> Optional[Tuple[Fraction, Fraction]]:
    """(a, b) with e == a*var + b, or None when e is not affine in var."""
    if isinstance(e, ast.Name) and e.id == var:
        return Fraction(1), Fraction(0)
    try:
        v = ctx.ce.eval(e, module)
        if isinstance(v, (int, float)) and not isinstance(v, bool):
            return Fraction(0), Fraction(v)
    except NotConst:
        pass
    if isinstance(e, ast.BinOp):
        l, r = _affine(ctx, e.left, var, module), _affine(ctx, e.right, var, module)
        if l is None or r is None:
            return None
        if isinstance(e.op, ast.Add):
            return l[0] + r[0], l[1] + r[1]
        if isinstance(e.op, ast.Sub):
            return l[0] - r[0], l[1] - r[1]
        if isinstance(e.op, ast.Mult):
            if l[0] == 0:
                return r[0] * l[1], r[1] * l[1]
            if r[0] == 0:
                return l[0] * r[1], l[1] * r[1]
            return None
        if isinstance(e.op, ast.Div) and r[0] == 0 and r[1] != 0:
            return l[0] / r[1], l[1] / r[1]
    return None


def r02_2(ctx: Ctx) -> None:
    fd = ctx.prog.func("helpers", "ArchiveTimestamp.from_datetime")
    tt = ctx.prog.func("helpers", "ArchiveTimestamp.totimestamp")
    rf = [n for n in walk(fd.node) if isinstance(n, ast.Return)]
    rt = [n for n in walk(tt.node) if isinstance(n, ast.Return)]
    ctx.need(len(rf) == 1 and len(rt) == 1, "timestamp conversion returns not recognised")
    ef = rf[0].value
    if isinstance(ef, ast.Call) and attr_tail(ef) == "ArchiveTimestamp" and ef.args:
        ef = ef.args[0]
    a1 = _affine(ctx, ef, fd.params[0], "helpers")
    a2 = _affine(ctx, rt[0].value, tt.params[0], "helpers")
    ok = a1 is not None and a2 is not None
    ctx.check(ok, "R02.2", fd, rf[0], "from_datetime / totimestamp are affine maps (no truncation before scaling)",
              f"`{norm(rf[0].value)}` or `{norm(rt[0].value)}` is not an affine map of its argument (e.g. int() applied before the 10^7 scaling truncates the sub-second part)",
              construct="timestamp conversion affine")
    if ok:
        comp = (a2[0] * a1[0], a2[0] * a1[1] + a2[1])
        ctx.check(comp == (1, 0), "R02.2", fd, rf[0], f"totimestamp(from_datetime(x)) = {comp[0]}*x + {comp[1]} = x",
                  f"totimestamp(from_datetime(x)) = {comp[0]}*x + {comp[1]}, not the identity (epoch constant or 10^7 scale disagree)", construct="timestamp round trip")
        ctx.check(a1[0] == 10 ** 7, "R02.2", fd, rf[0], "FILETIME unit = 100 ns", f"from_datetime scales by {a1[0]} instead of 10^7", construct="filetime scale")
    adj = ctx.ce.module_const("helpers", "TIMESTAMP_ADJUST")
    ctx.check(adj == -11644473600, "R02.2", "helpers:TIMESTAMP_ADJUST", None, "epoch difference 1601->1970 = 11644473600 s", f"TIMESTAMP_ADJUST is {adj}", construct="TIMESTAMP_ADJUST")
    fdt = ctx.prog.func("helpers", "filetime_to_dt")
    ep = [n for n in walk(fdt.node) if isinstance(n, ast.Assign) and isinstance(n.value, ast.Constant) and isinstance(n.value.value, int)]
    ok = bool(ep) and ep[0].value.value == -adj * 10 ** 7
    ctx.check(ok, "R02.2", fdt, ep[0] if ep else fdt.node, "filetime_to_dt uses the same epoch", "filetime_to_dt's epoch constant is not -TIMESTAMP_ADJUST * 10^7", construct="EPOCH_AS_FILETIME")
    # from_now uses the same formula
    fn = ctx.prog.func("helpers", "ArchiveTimestamp.from_now")
    ok = norm(fn.node.body[-1]).replace("_time.time()", "val") == norm(fd.node.body[-1])
    ctx.check(ok, "R02.2", fn, fn.node, "from_now = from_datetime(time.time())", "from_now does not use the same formula as from_datetime", construct="from_now formula")
    # extraction uses lastwritetime -> totimestamp -> os.utime(times=(t, t)); writer stores st_mtime -> lastwritetime
    ex = shared.szf(ctx, "_extract")
    ok = any(isinstance(c, ast.Call) and attr_tail(c) == "totimestamp" and "lastwritetime" in norm(c) for c in q.calls(ex))
    ut = [c for c in q.calls(ex) if dotted(c.func) == "os.utime"]
    ok = ok and bool(ut) and all(isinstance(k.value, ast.Tuple) and len({norm(e) for e in k.value.elts}) == 1 for c in ut for k in c.keywords if k.arg == "times")
    ctx.check(ok, "R02.2", ex, ut[0] if ut else ex.node, "mtime restored from lastwritetime", "extraction does not restore the modification time from lastwritetime", construct="utime source")
    mk = shared.szf(ctx, "_make_file_info")
    ok = any(isinstance(n, ast.Assign) and _is_key(n.targets[0], "lastwritetime") and "st_mtime" in norm(n.value) and "from_datetime" in norm(n.value) for n in walk(mk.node))
    ctx.check(ok, "R02.2", mk, mk.node, "lastwritetime stored from st_mtime", "_make_file_info does not store st_mtime as lastwritetime", construct="lastwritetime source")


def r02_3(ctx: Ctx) -> None:
    w = ctx.prog.func("py7zr", "Worker.write")
    enc = [c for c in q.calls(w) if attr_tail(c) == "encode" and c.args and isinstance(c.args[0], ast.Constant)]
    es = ctx.prog.func("py7zr", "Worker._extract_single")
    dec = [c for c in q.calls(es) if attr_tail(c) == "decode" and c.args and isinstance(c.args[0], ast.Constant)]
    ctx.floor("R02.3", len(enc), 1, "link text encode")
    ctx.floor("R02.3", len(dec), 2, "link text decode (symlink and junction)")
    ec = {c.args[0].value.lower() for c in enc}
    for d in dec:
        ctx.check({d.args[0].value.lower()} == ec, "R02.3", es, d, "link text decoded with the writer's codec", f"link text is written as {sorted(ec)} but decoded as {d.args[0].value!r}")
    # the decoded text is what is linked to
    for c in [c for c in q.calls(es) if attr_tail(c) == "symlink_to"]:
        ok = q.derives_from(es, c.args[0], lambda s: isinstance(s, ast.Call) and attr_tail(s) == "decode")
        ctx.check(ok, "R02.3", es, c, "link target is the decoded member content", "symlink_to is not given the decoded member content")
    # writer: symlink members store readlink text
    ok = any(attr_tail(c) == "_find_link_target" for c in q.calls(w)) and any(attr_tail(c) == "readlink" for c in q.calls(ctx.prog.func("py7zr", "Worker._find_link_target")))
    ctx.check(ok, "R02.3", w, w.node, "link members store the link's target text", "Worker.write does not store readlink() text for link members", construct="link text source")


def r02_4(ctx: Ctx) -> None:
    f = shared.szf(ctx, "_extract")
    cfg = cfg_of(f.node)
    wcalls = [c for c in q.calls(f) if "py7zr:Worker.extract" in shared.targets_of(ctx, f, c)]
    post = [c for c in q.calls(f) if dotted(c.func) == "os.utime" or attr_tail(c) == "chmod"]
    ctx.floor("R02.4", len(post), 2, "utime/chmod in _extract")
    for p in post:
        ok = not cfg.reaches(cfg.entry, q.node_for(f, p), avoid=[q.node_for(f, w) for w in wcalls])
        ctx.check(bool(ok), "R02.4", f, p, "times and modes are applied after the content pass", "utime/chmod can run before member contents are written (a read-only directory could not be populated; mtime would be overwritten by the write)")
    apps = [c for c in q.calls(f) if attr_tail(c) == "append" and norm(c.func.value) == "target_files"]
    dirs = [a for a in apps if any(norm(cd).endswith(".is_directory") and pol for cd, pol in q.facts_at(f, a))]
    ctx.check(bool(dirs), "R02.4", f, f.node, "directories are in the post-pass list", "directories are not queued for the utime/chmod post-pass", construct="directories in post-pass")
    files = [a for a in apps if a not in dirs]
    ctx.check(bool(files), "R02.4", f, f.node, "regular files are in the post-pass list", "regular files are not queued for the utime/chmod post-pass", construct="files in post-pass")
    # chmod uses posix_mode from the member's own properties
    ch = [c for c in q.calls(f) if attr_tail(c) == "chmod"]
    ok = any(q.derives_from(f, c.args[0], lambda s: isinstance(s, ast.Subscript) and isinstance(s.slice, ast.Constant) and s.slice.value == "posix_mode") for c in ch if c.args)
    ctx.check(ok, "R02.4", f, ch[0] if ch else f.node, "chmod applies the stored posix mode", "chmod is not given the member's stored posix_mode", construct="chmod source")
    from . import c03
    c03.r03_5(ctx, {})


def r02_5(ctx: Ctx) -> None:
    f = shared.szf(ctx, "_writeall")
    tests = {norm(n.test): n for n in walk(f.node) if isinstance(n, ast.If)}
    def has_atom(test: ast.AST, pred) -> bool:
        # the arm's condition is, or has as a disjunct, an expression satisfying pred
        alts = test.values if isinstance(test, ast.BoolOp) and isinstance(test.op, ast.Or) else [test]
        return any(pred(norm(a)) or pred(norm(q.expand_locals(f, a))) for a in alts)  # a disjunct may be a local that names the test
    ifs = [n for n in walk(f.node) if isinstance(n, ast.If)]
    link = [n for n in ifs if has_atom(n.test, lambda t: t.lstrip("(").startswith("path.is_symlink() and") and "not self.dereference" in t)]
    fil = [n for n in ifs if has_atom(n.test, lambda t: t == "path.is_file()")]
    dr = [n for n in ifs if has_atom(n.test, lambda t: t == "path.is_dir()")]
    ctx.check(bool(link) and bool(fil) and bool(dr), "R02.5", f, f.node, "walk has arms for link, file and directory", "the tree walk lacks an arm for link, regular file or directory", construct="_writeall arms")
    for arm, what in ((link, "link"), (fil, "file")):
        ok = bool(arm) and any(isinstance(c, ast.Call) and attr_tail(c) == "write" for s in arm[0].body for c in ast.walk(s))
        ctx.check(ok, "R02.5", f, arm[0] if arm else f.node, f"{what} arm archives the entry", f"the {what} arm of the tree walk does not call write()", construct=f"_writeall {what} arm")
    if link:
        alts = link[0].test.values if isinstance(link[0].test, ast.BoolOp) and isinstance(link[0].test.op, ast.Or) else [link[0].test]
        ok = any(norm(x).strip("()") == "path.is_symlink() and (not self.dereference" or norm(x) == "path.is_symlink() and (not self.dereference)" for a in alts for x in (a, q.expand_locals(f, a)))
        ctx.check(ok, "R02.5", f, link[0].test, "links are archived as links unless dereference is on", "the link arm is not `is_symlink() and not dereference`")
    if dr:
        loops = [n for s in dr[0].body for n in ast.walk(s) if isinstance(n, ast.For)]
        ok = bool(loops) and isinstance(loops[0].iter, ast.Call) and dotted(loops[0].iter.func) == "sorted" and len(loops[0].iter.args) == 1 \
            and isinstance(loops[0].iter.args[0], ast.Call) and attr_tail(loops[0].iter.args[0]) == "listdir" \
            and any(isinstance(c, ast.Call) and attr_tail(c) == "_writeall" and any("joinpath" in norm(a) for a in c.args) for c in ast.walk(loops[0]))
        unfiltered = bool(loops) and not any(isinstance(x, (ast.If, ast.Continue, ast.Break)) for s in loops[0].body for x in ast.walk(s) if not isinstance(x, ast.IfExp))
        ctx.check(ok and unfiltered, "R02.5", f, dr[0], "directory arm recurses over all sorted entries", "the directory arm does not recurse over every entry of sorted(listdir())", construct="_writeall recursion")
        ok = any(isinstance(c, ast.Call) and attr_tail(c) == "write" for s in dr[0].body for c in ast.walk(s))
        ctx.check(ok, "R02.5", f, dr[0], "directory arm archives the directory itself (so empty directories survive)", "the directory arm does not archive the directory entry itself", construct="_writeall dir entry")


def r02_6(ctx: Ctx) -> None:
    """time/mode values of the post-pass are tested for None, not for truthiness (mtime 0.0 / mode 0 are legal)."""
    f = shared.szf(ctx, "_extract")
    sinks = [c for c in q.calls(f) if dotted(c.func) == "os.utime" or attr_tail(c) == "chmod"]
    for c in sinks:
        for cd, pol in q.facts_at(f, c):
            if isinstance(cd, ast.Name) and pol:
                vals = q.assigned_values(f, cd.id)
                timeish = any(isinstance(x, ast.Call) and attr_tail(x) in ("totimestamp", "get") for v in vals for x in ast.walk(v)) or cd.id in ("lastmodified", "lastwritetime", "st_mode")
                if timeish:
                    ctx.fail("R02.6", f, c, f"`{cd.id}` is tested for truthiness before {norm(c.func)}: a member whose modification time is exactly the epoch (0.0) or whose mode is 0 "
                                            "is not restored", construct=f"truthiness guard {cd.id}")
    ctx.ok("R02.6", f"{len(sinks)} utime/chmod calls: value guards are None-tests")
    # dereferenced entries take their time stamps from the re-stat'ed target as well
    mk = shared.szf(ctx, "_make_file_info")
    cfgm = cfg_of(mk.node)
    times = [n for n in walk(mk.node) if isinstance(n, ast.Assign) and _is_key(n.targets[0], "lastwritetime")]
    for t in times:
        src = [x for x in ast.walk(t.value) if isinstance(x, ast.Attribute) and x.attr == "st_mtime"]
        ok = bool(src) and all(isinstance(x.value, ast.Name) for x in src)
        if ok:
            var = src[0].value.id
            # every dereference arm re-assigns that variable from target.stat()
            deref_arms = [n for n in walk(mk.node) if isinstance(n, ast.If) and norm(n.test) == "dereference"]
            for arm in deref_arms:
                re_ = [s_ for s_ in arm.body if isinstance(s_, ast.Assign) and norm(s_.targets[0]) == var and isinstance(s_.value, ast.Call) and norm(s_.value.func).endswith(".stat")]
                ctx.check(bool(re_), "R02.6", mk, arm, "dereferenced entry: the stat result used for the time stamps is the target's",
                          f"a dereference arm does not re-assign `{var}` from target.stat(): the entry gets the LINK's own modification time instead of the target's")


def r02_8(ctx: Ctx, rule: str = "R02.8") -> None:
    """extraction into the current directory (`extractall()` without a path, the CLI's `x archive.7z`): the destination is None on the
    whole extraction path.  Every package function that receives it as an argument from _extract / Worker._extract_single either declares
    what it does with None (a dominating None test) or never dereferences the parameter."""
    es = ctx.prog.func("py7zr", "Worker._extract_single")
    ex = shared.szf(ctx, "_extract")
    n = 0
    for f, dest in ((es, "path"), (ex, "path")):
        if dest not in f.params:
            continue
        for c in q.calls(f):
            for i, a in enumerate(c.args):
                if not (isinstance(a, ast.Name) and a.id == dest):
                    continue
                if q.known_not_none(q.facts_at(f, c), a):
                    continue
                for tq in shared.targets_of(ctx, f, c):
                    g = ctx.res._func_by_q(tq)
                    if g is None or g.module not in ("helpers", "py7zr"):
                        continue
                    params = g.params[1:] if g.cls is not None and g.params and g.params[0] in ("self", "cls") else g.params
                    if i >= len(params):
                        continue
                    p = params[i]
                    n += 1
                    subj = ast.Name(id=p, ctx=ast.Load())
                    bad = None
                    for x in walk(g.node):
                        if isinstance(x, ast.Attribute) and isinstance(x.value, ast.Name) and x.value.id == p and isinstance(x.ctx, ast.Load):
                            if not q.known_not_none(q.facts_at(g, x), subj):
                                bad = x
                                break
                    ctx.check(bad is None, rule, g, bad if bad is not None else g.node, f"{g.qname}: parameter '{p}' (the destination, may be None) is dereferenced only behind a None test",
                              f"{f.qname} passes the destination `{dest}` (None when extracting into the current directory) to {g.qname}, which evaluates `{norm(bad) if bad is not None else ''}` "
                              "without a None test: extractall() without a path raises AttributeError for the first member that takes this route (every symbolic link), the rest is not extracted",
                              construct=f"None destination into {g.name}", path=[f.qname, g.qname])
    ctx.floor(rule, n, 2, "helpers that receive the (possibly None) destination")


def r02_9(ctx: Ctx, rule: str = "R02.9") -> None:
    """the link text stored for a symbolic link is the link's own text.  _find_link_target may re-express it relative to the link's
    directory only when the text is an ABSOLUTE path that names an archived source (the comparison with the sources' paths is otherwise
    between a path relative to the link's directory and paths relative to the working directory: a coincidental match rewrites 'a' into
    '../a').  And `origin` is None for members that did not come from write() (writestr/writef, members of an archive opened for append)."""
    f = ctx.prog.func("py7zr", "Worker._find_link_target")
    rel = [c for c in q.calls(f) if dotted(c.func) in ("os.path.relpath",) or attr_tail(c) == "relative_to"]
    ctx.floor(rule, len(rel), 1, "rewrites of the link text in _find_link_target")
    for c in rel:
        facts = q.facts_at(f, c)
        absolute = any(pol and isinstance(cd, ast.Call) and (dotted(cd.func) in ("os.path.isabs",) or attr_tail(cd) in ("is_absolute", "isabs")) for cd, pol in facts) or \
            any(pol and isinstance(cd, ast.Call) and attr_tail(cd) == "startswith" and any(isinstance(x, ast.Constant) and x.value == "/" for x in ast.walk(cd)) for cd, pol in facts)
        ctx.check(absolute, rule, f, c, "the link text is rewritten only when it is an absolute path",
                  "the link text is re-expressed with relpath whenever it equals the (working-directory relative) path of an archived source: a relative link 'a' inside directory 'd' "
                  "matches the top-level source 'a' and is stored as '../a', which resolves to a different file after extraction", construct="relpath of relative link text")
    derefs = [x for x in walk(f.node) if isinstance(x, ast.Attribute) and isinstance(x.value, ast.Attribute) and x.value.attr == "origin" and isinstance(x.ctx, ast.Load)]
    for x in derefs:
        ok = q.known_not_none(q.facts_at(f, x), x.value)
        ctx.check(ok, rule, f, x, "a member's origin is dereferenced only where it is known not to be None",
                  f"`{norm(x)}`: `origin` is None for members created by writestr()/writef() and for the members of an archive opened in mode 'a'; archiving a tree that contains a "
                  "symbolic link then raises AttributeError, the link and everything after it are missing from the archive", construct="origin deref")


def r02_11(ctx: Ctx, rule: str = "R02.11") -> None:
    """'symbolic links with identical targets': the text of a relative link goes through the archive untouched.  pathlib rewrites './f' to
    'f', 'e/' to 'e', '..//g' to '../g'.  (a) in _find_link_target every value the function returns for a relative text derives from the
    readlink() result without a `pathlib.Path(...)`/`PurePath(...)` conversion that is not confined to win32 or to the absolute-text arm;
    (b) in Worker._extract_single the argument of `symlink_to` / `os.symlink` is the decoded string itself, not a pathlib.Path built from it."""
    f = ctx.prog.func("py7zr", "Worker._find_link_target")
    rets = [r for r in walk(f.node) if isinstance(r, ast.Return) and r.value is not None]
    ctx.floor(rule, len(rets), 1, "returns of _find_link_target")

    def is_pathlib_conv(e: ast.AST) -> bool:
        return any(isinstance(x, ast.Call) and (dotted(x.func) or "").split(".")[-1] in ("Path", "PurePath", "PurePosixPath", "PosixPath", "normpath") for x in ast.walk(e))

    bad = []
    for n in [n for n in walk(f.node) if isinstance(n, ast.Assign) and isinstance(n.targets[0], ast.Name) and is_pathlib_conv(n.value)]:
        name = n.targets[0].id
        facts = q.facts_at(f, n)
        confined = any(pol and isinstance(cd, ast.Compare) and "platform" in norm(cd.left) and "win32" in norm(cd) for cd, pol in facts) or \
            any(pol and isinstance(cd, ast.Call) and attr_tail(cd) in ("isabs", "is_absolute") for cd, pol in facts)
        if confined:
            continue
        # does the converted value reach a return?
        for r in rets:
            if any(isinstance(x, ast.Name) and x.id == name for x in ast.walk(q.expand_locals(f, r.value))) or norm(r.value) == name or \
                    any(isinstance(v, ast.Name) and v.id == name for rv in q.assigned_values(f, norm(r.value)) for v in ast.walk(rv)):
                bad.append(n)
    ctx.check(not bad, rule, f, bad[0] if bad else f.node, "a relative link text is stored as readlink() gave it",
              (f"`{norm(bad[0])}`: " if bad else "") + "the text of every link is passed through pathlib before it is stored: './f' becomes 'f', 'e/' becomes 'e', '..//g' becomes '../g' - the "
              "extracted links do not have identical targets", construct="link text normalised on write")
    es = ctx.prog.func("py7zr", "Worker._extract_single")
    mk = [c for c in q.calls(es) if attr_tail(c) == "symlink_to" or dotted(c.func) == "os.symlink"]
    ctx.floor(rule, len(mk), 1, "symlink creation in _extract_single")
    for c in mk:
        arg = c.args[0] if c.args else None
        conv = arg is not None and (is_pathlib_conv(arg) or any(is_pathlib_conv(v) for v in (q.assigned_values(es, arg.id) if isinstance(arg, ast.Name) else [])))
        ctx.check(not conv, rule, es, c, "the link is created from the decoded text itself",
                  f"`{norm(c)}`: the decoded link text is turned into a pathlib.Path before the link is created, which rewrites './f', 'e/', '..//g' (also for archives of other writers)",
                  construct="link text normalised on extract")


def r02_13(ctx: Ctx, rule: str = "R02.13") -> None:
    """'with dereference enabled each link is replaced by the content it points to': (a) write() hands the session's `dereference` to
    Worker.archive (the parameter defaults to False, so a dropped keyword silently archives links as links); (b) in Worker.archive the flag
    that tells Worker.write to store the LINK TEXT is off whenever deref is on (`f.is_symlink and not deref`)."""
    w = shared.szf(ctx, "write")
    calls = [c for c in q.calls(w) if "py7zr:Worker.archive" in shared.targets_of(ctx, w, c)]
    ctx.floor(rule, len(calls), 1, "Worker.archive call in write()")
    for c in calls:
        val = next((k.value for k in c.keywords if k.arg == "deref"), c.args[3] if len(c.args) > 3 else None)
        ctx.check(val is not None and norm(val) == "self.dereference", rule, w, c, "write() passes the session's dereference flag to the worker",
                  "write() does not pass `deref=self.dereference` to Worker.archive (its default is False): with dereference=True symbolic links are still archived as links",
                  construct="write drops deref")
    a = ctx.prog.func("py7zr", "Worker.archive")
    dp = "deref" if "deref" in a.params else None
    ctx.need(dp is not None, "Worker.archive has no deref parameter")
    wr = [c for c in q.calls(a) if attr_tail(c) == "write" and norm(c.func.value) == "self" and len(c.args) >= 3]
    ctx.floor(rule, len(wr), 1, "Worker.write call in Worker.archive")
    for c in wr:
        ok = shared.off_when(a, c.args[2], lambda e: isinstance(e, ast.Name) and e.id == dp) and any(isinstance(x, ast.Attribute) and x.attr == "is_symlink" for x in ast.walk(q.expand_locals(a, c.args[2])))
        ctx.check(ok, rule, a, c, "the link text is stored only for a link that is not dereferenced",
                  f"Worker.archive tells Worker.write to store the link text under `{norm(c.args[2])}`, which is not switched off by `{dp}`: with dereference=True the text of the link is "
                  "archived as the member's content instead of the file it points to", construct="assym ignores deref")


def r02_14(ctx: Ctx, rule: str = "R02.14") -> None:
    """a symbolic link is archived by its TEXT: helpers.readlink must not require that the text leads anywhere - an existence test that
    follows the link (`os.path.exists`, `Path.exists`) refuses a dangling link with OSError and `c`/`a`/writeall die on a tree that holds one."""
    f = ctx.prog.func("helpers", "readlink")
    bad = [c for c in q.calls(f) if (dotted(c.func) or "") in ("os.path.exists",) or (attr_tail(c) in ("exists", "is_file", "is_dir") and not (dotted(c.func) or "").startswith("os.path.l"))]
    bad = [c for c in bad if any(q.branch_always_raises(cfg_of(f.node), e) for t in cfg_of(f.node).nodes if t.kind == "test" and any(c is x for x in ast.walk(t.ast)) for e in t.succ if e.kind in ("true", "false"))]
    ctx.check(not bad, rule, f, bad[0] if bad else f.node, "readlink does not ask whether the link's target exists",
              (f"`{norm(bad[0])}` " if bad else "") + "follows the link: helpers.readlink raises OSError(22) for a dangling symbolic link, and archiving a tree that holds one fails half-way "
              "(`c`, `a`, writeall) although the link's text is all that is stored", construct="readlink follows the link")


def r02_15(ctx: Ctx, rule: str = "R02.15") -> None:
    """`arcname` is optional, and absent means None: the empty string is a NAME (the root of the archive: `writeall(tree, arcname="")`
    stores the children of the tree at the top level).  Every test of the bare parameter in the write functions is a None test; a
    truthiness test takes "" for absent and stores the children under their source paths."""
    n = 0
    for name in ("writeall", "_writeall", "write", "_make_file_info"):
        try:
            f = shared.szf(ctx, name)
        except Exception:
            continue
        if "arcname" not in f.params:
            continue
        tests = [x.test for x in walk(f.node) if isinstance(x, (ast.If, ast.IfExp, ast.While))] + [x for x in walk(f.node) if isinstance(x, ast.Assert)]
        for t in tests:
            t = t.test if isinstance(t, ast.Assert) else t
            for a, pol in q.atoms(t, True):
                if isinstance(a, ast.Name) and a.id == "arcname" and not any(isinstance(d, ast.Assign) and any(isinstance(tt, ast.Name) and tt.id == "arcname" for tt in d.targets)
                                                                             and q.dominates(f, d, t) for d in walk(f.node)):
                    n += 1
                    ctx.fail(rule, f, t, f"`{norm(t)}` tests the optional parameter `arcname` for truth: the empty string (a name: the root of the archive, as in "
                             "`writeall(tree, arcname='')`) is taken for 'no arcname given', and the members are stored under the path of their source instead of under the name "
                             "that was asked for", construct=f"{name}: truthiness test of arcname")
                nt = q.is_none_test(a)
                if nt is not None and isinstance(nt[0], ast.Name) and nt[0].id == "arcname":
                    n += 1
                    ctx.ok(rule, f"{f.qname}: `{norm(a)}`")
    ctx.floor(rule, n, 3, "tests of the optional arcname parameter in the write functions")


def r02_16(ctx: Ctx, rule: str = "R02.16") -> None:
    """the decoder of a folder is set up by whichever member of the folder comes FIRST - also one of zero bytes: every path through
    Worker.decompress that returns normally has called `folder.get_decompressor(compressed_size)` (the first member's call hands the
    packed size to the decoder chain) and has passed the end-of-folder test (`is_finished`, behind which the folder CRC is compared).
    An early return for `size == 0` leaves the setup to the next member, which does not know the packed size: a tree whose first file is
    empty ('pkg/__init__.py' before 'pkg/mod.py') does not come back."""
    f = ctx.prog.func("py7zr", "Worker.decompress")
    cfg = cfg_of(f.node)
    setup = [q.node_for(f, c) for c in q.calls(f) if attr_tail(c) == "get_decompressor"]
    fin = [t for t in cfg.nodes if t.kind == "test" and any(isinstance(x, ast.Call) and attr_tail(x) == "is_finished" for x in ast.walk(t.ast))]
    ctx.floor(rule, len(setup), 1, "get_decompressor call in Worker.decompress")
    ctx.floor(rule, len(fin), 1, "is_finished test in Worker.decompress")
    ok1 = cfg.every_path_to_exit_passes(cfg.entry, setup)
    ok2 = cfg.every_path_to_exit_passes(cfg.entry, fin)
    ctx.check(ok1, rule, f, setup[0].ast, "every member, whatever its size, passes the folder's decoder set-up",
              "some path through Worker.decompress returns without `folder.get_decompressor(compressed_size)`: when that member is the first of its folder (a file of zero bytes in front "
              "of the others) the decoder is created by the next member, without the packed size - extractall raises TypeError on an archive py7zr wrote itself",
              construct="decompress returns before the decoder set-up")
    ctx.check(ok2, rule, f, fin[0].ast, "every member passes the end-of-folder test",
              "some path through Worker.decompress returns without the `is_finished` test behind which the folder CRC is compared: when the member that ends the folder takes that path "
              "the folder's CRC is never looked at", construct="decompress returns before the end-of-folder test")


def r02_17(ctx: Ctx, rule: str = "R02.17") -> None:
    """whether a link of the tree is re-created must not depend on the ORDER of the members: a link's text may pass through another link
    ('j -> k/../../x', 'k -> a/b/c'), and writeall stores members in sorted order, so `j` comes before `k`.  The containment of a link's
    target is decided in Worker._extract_single at the moment the link member is reached, on the file system as it is THEN; a refusal there
    is final.  The rule asks for a second look: the refusing branch of the link arm defers (records the member for a retry after the last
    member) instead of raising straight away.  On the current tree it raises straight away: known finding F133."""
    es = ctx.prog.func("py7zr", "Worker._extract_single")
    cfg = cfg_of(es.node)
    mk = [c for c in q.calls(es) if attr_tail(c) == "symlink_to" or dotted(c.func) == "os.symlink"]
    ctx.floor(rule, len(mk), 1, "symlink creation in _extract_single")
    for c in mk:
        tests = [t for t in cfg.nodes if t.kind == "test" and any(isinstance(x, ast.Call) and attr_tail(x) == "is_path_contained" for x in ast.walk(t.ast)) and cfg.dominates(t, q.node_for(es, c))]
        for t in tests[-1:]:
            fe = next((e for e in t.succ if e.kind == "false"), None)
            final = fe is not None and q.branch_always_raises(cfg, fe)
            ctx.check(not final, rule, es, t.ast, "a link whose target cannot be judged yet is looked at again after the last member",
                      "the link arm of Worker._extract_single refuses a link for good when its target does not resolve inside the destination AT THAT MOMENT: a valid tree with "
                      "'j -> k/../../x' and 'k -> a/b/c' (sorted order stores j first; k does not exist yet, so 'k/..' is collapsed as text) is refused with 'Symlink point out of "
                      "target directory' and extraction stops half-way", construct="link target judged once, in member order")


def r02_12(ctx: Ctx, rule: str = "R02.12") -> None:
    """a link of the tree is re-created whenever it leads to a place inside the destination AS THE SYSTEM FOLLOWS IT.  The textual check
    (is_path_valid -> canonical_path) collapses 'name/..' without asking whether `name` is a link: with s -> a/b/c/d the valid link
    u -> s/../../../t (= a/t) looks like '../../t' and is refused.  On the path to `symlink_to` no positive fact is the textual check
    applied to the joined link target (containment is C03's business and is decided by the link-resolving check, R03.2/R03.6)."""
    es = ctx.prog.func("py7zr", "Worker._extract_single")
    mk = [c for c in q.calls(es) if attr_tail(c) == "symlink_to" or dotted(c.func) == "os.symlink"]
    ctx.floor(rule, len(mk), 1, "symlink creation in _extract_single")
    for c in mk:
        textual = [cd for cd, pol in q.facts_at(es, c) if pol and isinstance(cd, ast.Call) and attr_tail(cd) == "is_path_valid" and cd.args
                   and isinstance(cd.args[0], ast.Call) and attr_tail(cd.args[0]) == "joinpath"]
        ctx.check(not textual, rule, es, c, "a link's target is not judged by collapsing '..' textually",
                  (f"`{norm(textual[0])}` " if textual else "") + "must hold before a symbolic link is created: the text of the target is collapsed without following the links it passes through, so a link "
                  "of the tree such as u -> s/../../../t (s -> a/b/c/d; really a/t, inside) is refused with 'Symlink point out of target directory' and the tree is not reproduced",
                  construct="textual containment test on link targets")


def r02_10(ctx: Ctx, rule: str = "R02.10") -> None:
    """writeall: the entry of the top directory is left out only when it would have no name ('.', i.e. no arcname given): the test that
    skips `write(path, arcname)` for a directory consults `arcname`.  Skipping whenever the directory happens to BE the working
    directory loses the root entry (its mode and time stamp) of `writeall('.', 'pkg')` and an empty directory the process sits in."""
    f = shared.szf(ctx, "_writeall")
    cfg = cfg_of(f.node)
    writes = [c for c in q.calls(f) if attr_tail(c) == "write" and isinstance(c.func.value, ast.Name) and c.func.value.id == "self"]
    n = 0
    for c in writes:
        facts = q.facts_at(f, c)
        if not any(pol and isinstance(cd, ast.Call) and attr_tail(cd) == "is_dir" for cd, pol in facts):
            continue
        n += 1
        extra = [cd for cd, pol in facts if not (isinstance(cd, ast.Call) and attr_tail(cd) in ("is_dir", "is_file", "is_symlink")) and "dereference" not in norm(cd)]
        if not extra:
            ctx.ok(rule, "the directory entry is always written")
            continue
        ok = any(any(isinstance(x, ast.Name) and x.id == "arcname" for x in ast.walk(cd)) for cd in extra)
        ctx.check(ok, rule, f, c, "the directory entry is skipped only when it would be nameless (arcname consulted)",
                  f"_writeall skips the directory's own entry under `{'; '.join(norm(cd) for cd in extra)}` without looking at the name it would get: with an arcname (or an absolute "
                  "path) the working directory has a real member name, but its entry - mode, time stamp, or the whole empty directory - is dropped", construct="directory entry skip")
    if n == 0:
        ctx.note(f"{rule}: _writeall has no write() for a directory's own entry (R02.5 decides whether directories are archived at all)")


def run(ctx: Ctx) -> None:
    from . import c16 as _c16q
    _c16q.r16_9(ctx, rule="R02.19")  # leading './' is removed as a prefix, not as a set of characters ('.profile' keeps its dot)
    from . import c16 as _c16n
    _c16n.r16_14(ctx, rule="R02.18")  # a tree with a file whose name is nothing but a drive prefix is refused, not archived as '.'
    r02_8(ctx)
    r02_9(ctx)
    r02_11(ctx)
    r02_12(ctx)
    r02_14(ctx)
    r02_17(ctx)
    r02_15(ctx)
    r02_16(ctx)
    r02_13(ctx)
    r02_10(ctx)
    r02_6(ctx)
    from . import c07 as _c07, c03 as _c03
    _c07.r07_1(ctx, rule="R02.7")
    _c03.r03_6(ctx, _c03.extraction_roots(ctx))
    r02_1(ctx)
    r02_2(ctx)
    r02_3(ctx)
    r02_4(ctx)
    r02_5(ctx)
